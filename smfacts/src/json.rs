//! Minimal JSON value + serializer (the driver has zero crate dependencies).
use std::fmt::Write;

pub enum J {
    Null,
    Bool(bool),
    Int(i128),
    Str(String),
    Arr(Vec<J>),
    Obj(Vec<(String, J)>),
}

impl J {
    pub fn obj() -> J {
        J::Obj(Vec::new())
    }
    pub fn set(&mut self, k: &str, v: J) {
        if let J::Obj(items) = self {
            items.push((k.to_string(), v));
        }
    }
    pub fn to_string(&self) -> String {
        let mut s = String::new();
        self.write(&mut s);
        s
    }
    fn write(&self, out: &mut String) {
        match self {
            J::Null => out.push_str("null"),
            J::Bool(b) => out.push_str(if *b { "true" } else { "false" }),
            J::Int(i) => {
                let _ = write!(out, "{}", i);
            }
            J::Str(s) => write_str(out, s),
            J::Arr(v) => {
                out.push('[');
                for (i, x) in v.iter().enumerate() {
                    if i > 0 {
                        out.push(',');
                    }
                    x.write(out);
                }
                out.push(']');
            }
            J::Obj(v) => {
                out.push('{');
                for (i, (k, x)) in v.iter().enumerate() {
                    if i > 0 {
                        out.push(',');
                    }
                    write_str(out, k);
                    out.push(':');
                    x.write(out);
                }
                out.push('}');
            }
        }
    }
}

fn write_str(out: &mut String, s: &str) {
    out.push('"');
    for c in s.chars() {
        match c {
            '"' => out.push_str("\\\""),
            '\\' => out.push_str("\\\\"),
            '\n' => out.push_str("\\n"),
            '\r' => out.push_str("\\r"),
            '\t' => out.push_str("\\t"),
            c if (c as u32) < 0x20 => {
                let _ = write!(out, "\\u{:04x}", c as u32);
            }
            c => out.push(c),
        }
    }
    out.push('"');
}
