//! smfacts: rustc_private driver that dumps the resolved program (MIR bodies with resolved
//! callees, ADT layouts, evaluated constants, signatures) of one crate as a single JSON file.
//!
//! Used as RUSTC_WORKSPACE_WRAPPER: argv = [smfacts, <rustc>, rustc-args...].
//! Env: SMFACTS_OUT = output file (required to dump), SMFACTS_CRATE = crate name (default
//! "sourcemap"), SMFACTS_NONCE = string copied into the output.
#![feature(rustc_private)]
#![allow(clippy::all)]

extern crate rustc_abi;
extern crate rustc_driver;
extern crate rustc_hir;
extern crate rustc_interface;
extern crate rustc_middle;
extern crate rustc_span;

mod json;
use json::J;

use rustc_driver::Compilation;
use rustc_hir::def::DefKind;
use rustc_hir::def_id::{DefId, LOCAL_CRATE};
use rustc_middle::mir::{
    self, AggregateKind, AssertKind, BasicBlock, Body, Operand, Place, Rvalue, StatementKind,
    TerminatorKind,
};
use rustc_middle::ty::print::{with_no_trimmed_paths, with_no_visible_paths, PrintTraitRefExt};
use rustc_middle::ty::{self, Ty, TyCtxt};
use rustc_span::Span;

struct Cb;

impl rustc_driver::Callbacks for Cb {
    fn after_analysis<'tcx>(
        &mut self,
        _compiler: &rustc_interface::interface::Compiler,
        tcx: TyCtxt<'tcx>,
    ) -> Compilation {
        let want = std::env::var("SMFACTS_CRATE").unwrap_or_else(|_| "sourcemap".to_string());
        let name = tcx.crate_name(LOCAL_CRATE);
        if name.as_str() == want {
            if let Ok(out) = std::env::var("SMFACTS_OUT") {
                let j = dump(tcx);
                let s = j.to_string();
                std::fs::write(&out, s).expect("smfacts: cannot write output");
            }
        }
        Compilation::Continue
    }
}

fn main() {
    let mut args: Vec<String> = std::env::args().collect();
    // workspace-wrapper protocol: argv[1] is the path of the real rustc
    if args.len() > 1 && (args[1].ends_with("rustc") || args[1].contains("/rustc")) {
        args.remove(1);
    }
    let mut cb = Cb;
    rustc_driver::run_compiler(&args, &mut cb);
}

fn path_of(tcx: TyCtxt<'_>, did: DefId) -> String {
    with_no_visible_paths!(with_no_trimmed_paths!(tcx.def_path_str(did)))
}

fn ty_str(ty: Ty<'_>) -> String {
    with_no_visible_paths!(with_no_trimmed_paths!(format!("{}", ty)))
}

fn span_j(tcx: TyCtxt<'_>, sp: Span) -> J {
    let sm = tcx.sess.source_map();
    let exp = sp.from_expansion();
    // for expanded spans also give the outermost call site, which is what a reader sees
    let outer = if exp { sp.source_callsite() } else { sp };
    let lo = sm.lookup_char_pos(outer.lo());
    let hi = sm.lookup_char_pos(outer.hi());
    let file = {
        let dbg = format!("{:?}", lo.file.name);
        // Real file names debug-print as RealFileName{.. name: "src/x.rs", ..}; keep the name
        match dbg.find("name: \"") {
            Some(i) => {
                let rest = &dbg[i + 7..];
                rest[..rest.find('"').unwrap_or(rest.len())].to_string()
            }
            None => dbg,
        }
    };
    let mut o = J::obj();
    o.set("file", J::Str(file));
    o.set("l0", J::Int(lo.line as i128));
    o.set("c0", J::Int(lo.col.0 as i128));
    o.set("l1", J::Int(hi.line as i128));
    o.set("c1", J::Int(hi.col.0 as i128));
    o.set("exp", J::Bool(exp));
    if exp {
        let ed = sp.ctxt().outer_expn_data();
        o.set("macro", J::Str(format!("{:?}", ed.kind)));
    }
    o
}

fn dump<'tcx>(tcx: TyCtxt<'tcx>) -> J {
    let mut root = J::obj();
    root.set("crate", J::Str(tcx.crate_name(LOCAL_CRATE).to_string()));
    root.set(
        "nonce",
        J::Str(std::env::var("SMFACTS_NONCE").unwrap_or_default()),
    );
    root.set(
        "rustc",
        J::Str(option_env!("CFG_VERSION").unwrap_or("nightly").to_string()),
    );
    let argv: Vec<String> = std::env::args().collect();
    let mut feats: Vec<J> = Vec::new();
    for (i, a) in argv.iter().enumerate() {
        if a == "--cfg" && i + 1 < argv.len() {
            feats.push(J::Str(argv[i + 1].clone()));
        }
    }
    root.set("cfg", J::Arr(feats));

    let mut bodies = Vec::new();
    for &ldid in tcx.mir_keys(()).iter() {
        let did = ldid.to_def_id();
        let kind = tcx.def_kind(did);
        let body: &Body<'tcx> = match kind {
            DefKind::Fn | DefKind::AssocFn | DefKind::Closure => tcx.optimized_mir(did),
            DefKind::Const { .. }
            | DefKind::AssocConst { .. }
            | DefKind::Static { .. }
            | DefKind::AnonConst
            | DefKind::InlineConst => tcx.mir_for_ctfe(did),
            _ => continue,
        };
        bodies.push(dump_body(tcx, did, kind, body));
        // promoted constants of this body
        if matches!(kind, DefKind::Fn | DefKind::AssocFn | DefKind::Closure) {
            let promoted = tcx.promoted_mir(did);
            for (pi, pb) in promoted.iter_enumerated() {
                let mut b = dump_body(tcx, did, kind, pb);
                b.set("promoted", J::Int(pi.as_usize() as i128));
                bodies.push(b);
            }
        }
    }
    root.set("bodies", J::Arr(bodies));
    root.set("adts", dump_adts(tcx));
    root.set("consts", dump_consts(tcx));
    root
}

fn dump_body<'tcx>(tcx: TyCtxt<'tcx>, did: DefId, kind: DefKind, body: &Body<'tcx>) -> J {
    let mut b = J::obj();
    b.set("path", J::Str(path_of(tcx, did)));
    b.set("kind", J::Str(format!("{:?}", kind)));
    b.set(
        "name",
        J::Str(
            tcx.opt_item_name(did)
                .map(|s| s.to_string())
                .unwrap_or_default(),
        ),
    );
    if let Some(parent) = tcx.opt_parent(did) {
        b.set("parent", J::Str(path_of(tcx, parent)));
        b.set("parent_kind", J::Str(format!("{:?}", tcx.def_kind(parent))));
    }
    // enclosing fn for closures
    let tdid = tcx.typeck_root_def_id(did);
    if tdid != did {
        b.set("root", J::Str(path_of(tcx, tdid)));
    }
    // impl facts
    let mut impl_did = None;
    {
        let mut cur = tcx.typeck_root_def_id(did);
        if let Some(p) = tcx.opt_parent(cur) {
            if matches!(tcx.def_kind(p), DefKind::Impl { .. }) {
                impl_did = Some(p);
            }
            cur = p;
        }
        let _ = cur;
    }
    if let Some(idid) = impl_did {
        let self_ty = tcx.type_of(idid).instantiate_identity().skip_norm_wip();
        b.set("impl_self", J::Str(ty_str(self_ty)));
        if let Some(tr) = tcx.impl_opt_trait_ref(idid) {
            let tr = tr.instantiate_identity().skip_norm_wip();
            b.set("impl_trait", J::Str(path_of(tcx, tr.def_id)));
            b.set(
                "impl_trait_ref",
                J::Str(with_no_visible_paths!(with_no_trimmed_paths!(format!(
                    "{}",
                    tr.print_only_trait_path()
                )))),
            );
        }
        b.set("derived", J::Bool(tcx.is_automatically_derived(idid)));
    }
    if matches!(kind, DefKind::Fn | DefKind::AssocFn) {
        b.set("vis", J::Str(format!("{:?}", tcx.visibility(did))));
        if let Some(l) = did.as_local() {
            let ev = tcx.effective_visibilities(());
            b.set("reachable", J::Bool(ev.is_reachable(l)));
            b.set("exported", J::Bool(ev.is_exported(l)));
        }
        let sig = tcx.fn_sig(did).instantiate_identity().skip_norm_wip();
        b.set(
            "sig",
            J::Str(with_no_visible_paths!(with_no_trimmed_paths!(format!(
                "{}",
                sig
            )))),
        );
    }
    b.set("span", span_j(tcx, body.span));
    b.set("arg_count", J::Int(body.arg_count as i128));

    // locals
    let mut locals = Vec::new();
    for (l, decl) in body.local_decls.iter_enumerated() {
        let mut o = J::obj();
        o.set("i", J::Int(l.as_usize() as i128));
        o.set("ty", J::Str(ty_str(decl.ty)));
        o.set("mut", J::Bool(decl.mutability.is_mut()));
        locals.push(o);
    }
    b.set("locals", J::Arr(locals));
    let mut vdi = Vec::new();
    for v in body.var_debug_info.iter() {
        let mut o = J::obj();
        o.set("name", J::Str(v.name.to_string()));
        match &v.value {
            mir::VarDebugInfoContents::Place(p) => {
                o.set("place", place_j(tcx, body, *p));
            }
            mir::VarDebugInfoContents::Const(c) => {
                o.set("const", J::Str(format!("{}", c.const_)));
            }
        }
        if let Some(a) = v.argument_index {
            o.set("arg", J::Int(a as i128));
        }
        vdi.push(o);
    }
    b.set("vars", J::Arr(vdi));

    // blocks
    let mut blocks = Vec::new();
    for (bb, data) in body.basic_blocks.iter_enumerated() {
        let mut o = J::obj();
        o.set("i", J::Int(bb.as_usize() as i128));
        o.set("cleanup", J::Bool(data.is_cleanup));
        let mut stmts = Vec::new();
        for st in data.statements.iter() {
            if let Some(s) = stmt_j(tcx, body, st) {
                stmts.push(s);
            }
        }
        o.set("stmts", J::Arr(stmts));
        o.set("term", term_j(tcx, did, body, data.terminator()));
        blocks.push(o);
    }
    b.set("blocks", J::Arr(blocks));
    b
}

fn bbi(bb: BasicBlock) -> J {
    J::Int(bb.as_usize() as i128)
}

fn place_j<'tcx>(tcx: TyCtxt<'tcx>, body: &Body<'tcx>, p: Place<'tcx>) -> J {
    let mut o = J::obj();
    o.set("l", J::Int(p.local.as_usize() as i128));
    let mut projs = Vec::new();
    let mut pty = mir::PlaceTy::from_ty(body.local_decls[p.local].ty);
    for elem in p.projection.iter() {
        let mut e = J::obj();
        match elem {
            mir::ProjectionElem::Deref => {
                e.set("k", J::Str("deref".into()));
            }
            mir::ProjectionElem::Field(f, fty) => {
                e.set("k", J::Str("field".into()));
                e.set("i", J::Int(f.as_usize() as i128));
                e.set("ty", J::Str(ty_str(fty)));
                if let ty::Adt(def, _) = pty.ty.kind() {
                    let vi = pty.variant_index.unwrap_or(rustc_abi::FIRST_VARIANT);
                    if vi.as_usize() < def.variants().len() {
                        let v = def.variant(vi);
                        if f.as_usize() < v.fields.len() {
                            e.set("n", J::Str(v.fields[f].name.to_string()));
                        }
                    }
                    e.set("adt", J::Str(path_of(tcx, def.did())));
                }
            }
            mir::ProjectionElem::Index(l) => {
                e.set("k", J::Str("index".into()));
                e.set("l", J::Int(l.as_usize() as i128));
            }
            mir::ProjectionElem::ConstantIndex {
                offset,
                min_length,
                from_end,
            } => {
                e.set("k", J::Str("cindex".into()));
                e.set("offset", J::Int(offset as i128));
                e.set("min_length", J::Int(min_length as i128));
                e.set("from_end", J::Bool(from_end));
            }
            mir::ProjectionElem::Subslice { from, to, from_end } => {
                e.set("k", J::Str("subslice".into()));
                e.set("from", J::Int(from as i128));
                e.set("to", J::Int(to as i128));
                e.set("from_end", J::Bool(from_end));
            }
            mir::ProjectionElem::Downcast(name, vi) => {
                e.set("k", J::Str("downcast".into()));
                e.set("vi", J::Int(vi.as_usize() as i128));
                if let Some(n) = name {
                    e.set("n", J::Str(n.to_string()));
                } else if let ty::Adt(def, _) = pty.ty.kind() {
                    if def.is_enum() {
                        e.set("n", J::Str(def.variant(vi).name.to_string()));
                    }
                }
            }
            other => {
                e.set("k", J::Str("other".into()));
                e.set("dbg", J::Str(format!("{:?}", other)));
            }
        }
        pty = pty.projection_ty(tcx, elem);
        projs.push(e);
    }
    o.set("p", J::Arr(projs));
    o.set("ty", J::Str(ty_str(pty.ty)));
    o
}

fn const_j<'tcx>(tcx: TyCtxt<'tcx>, body_did: DefId, c: &mir::ConstOperand<'tcx>) -> J {
    let mut o = J::obj();
    let ty = c.const_.ty();
    o.set("ty", J::Str(ty_str(ty)));
    o.set(
        "s",
        J::Str(with_no_visible_paths!(with_no_trimmed_paths!(format!(
            "{}",
            c.const_
        )))),
    );
    match ty.kind() {
        ty::FnDef(did, args) => {
            o.set("fn", J::Str(path_of(tcx, *did)));
            o.set("fn_crate", J::Str(tcx.crate_name(did.krate).to_string()));
            o.set("fn_local", J::Bool(did.is_local()));
            let a: Vec<J> = args
                .iter()
                .map(|a| {
                    J::Str(with_no_visible_paths!(with_no_trimmed_paths!(format!(
                        "{}",
                        a
                    ))))
                })
                .collect();
            o.set("fn_args", J::Arr(a));
        }
        ty::Int(_) | ty::Uint(_) | ty::Bool | ty::Char => {
            let env = ty::TypingEnv::post_analysis(tcx, body_did);
            if let Some(si) = c.const_.try_eval_scalar_int(tcx, env) {
                let size = si.size();
                let bits = si.to_bits(size);
                let v: i128 = match ty.kind() {
                    ty::Int(_) => {
                        // sign-extend
                        let shift = 128 - size.bits();
                        ((bits as i128) << shift) >> shift
                    }
                    _ => bits as i128,
                };
                o.set("int", J::Int(v));
            }
        }
        _ => {}
    }
    if let mir::Const::Unevaluated(uv, _) = c.const_ {
        o.set("uneval", J::Str(path_of(tcx, uv.def)));
        if let Some(p) = uv.promoted {
            o.set("promoted", J::Int(p.as_usize() as i128));
        }
    }
    o
}

fn op_j<'tcx>(tcx: TyCtxt<'tcx>, did: DefId, body: &Body<'tcx>, op: &Operand<'tcx>) -> J {
    let mut o = J::obj();
    match op {
        Operand::Copy(p) => {
            o.set("k", J::Str("copy".into()));
            o.set("place", place_j(tcx, body, *p));
        }
        Operand::Move(p) => {
            o.set("k", J::Str("move".into()));
            o.set("place", place_j(tcx, body, *p));
        }
        Operand::Constant(c) => {
            o.set("k", J::Str("const".into()));
            o.set("c", const_j(tcx, did, c));
        }
        #[allow(unreachable_patterns)]
        other => {
            o.set("k", J::Str("other".into()));
            o.set("dbg", J::Str(format!("{:?}", other)));
        }
    }
    o
}

fn rvalue_j<'tcx>(tcx: TyCtxt<'tcx>, did: DefId, body: &Body<'tcx>, rv: &Rvalue<'tcx>) -> J {
    let mut o = J::obj();
    match rv {
        Rvalue::Use(op, _) => {
            o.set("k", J::Str("use".into()));
            o.set("op", op_j(tcx, did, body, op));
        }
        Rvalue::Repeat(op, n) => {
            o.set("k", J::Str("repeat".into()));
            o.set("op", op_j(tcx, did, body, op));
            o.set("n", J::Str(format!("{}", n)));
        }
        Rvalue::Ref(_, bk, p) => {
            o.set("k", J::Str("ref".into()));
            o.set(
                "mut",
                J::Bool(matches!(bk, mir::BorrowKind::Mut { .. })),
            );
            o.set("bk", J::Str(format!("{:?}", bk)));
            o.set("place", place_j(tcx, body, *p));
        }
        Rvalue::RawPtr(k, p) => {
            o.set("k", J::Str("rawptr".into()));
            o.set("pk", J::Str(format!("{:?}", k)));
            o.set("place", place_j(tcx, body, *p));
        }
        Rvalue::Cast(ck, op, ty) => {
            o.set("k", J::Str("cast".into()));
            o.set("ck", J::Str(format!("{:?}", ck)));
            o.set("op", op_j(tcx, did, body, op));
            o.set("from", J::Str(ty_str(op.ty(body, tcx))));
            o.set("to", J::Str(ty_str(*ty)));
        }
        Rvalue::BinaryOp(bop, ops) => {
            o.set("k", J::Str("bin".into()));
            o.set("op", J::Str(format!("{:?}", bop)));
            o.set("l", op_j(tcx, did, body, &ops.0));
            o.set("r", op_j(tcx, did, body, &ops.1));
            o.set("lty", J::Str(ty_str(ops.0.ty(body, tcx))));
        }
        Rvalue::UnaryOp(uop, op) => {
            o.set("k", J::Str("un".into()));
            o.set("op", J::Str(format!("{:?}", uop)));
            o.set("x", op_j(tcx, did, body, op));
            o.set("xty", J::Str(ty_str(op.ty(body, tcx))));
        }
        Rvalue::Discriminant(p) => {
            o.set("k", J::Str("discr".into()));
            o.set("place", place_j(tcx, body, *p));
        }
        Rvalue::Aggregate(ak, ops) => {
            o.set("k", J::Str("agg".into()));
            match &**ak {
                AggregateKind::Array(t) => {
                    o.set("ak", J::Str("array".into()));
                    o.set("elem", J::Str(ty_str(*t)));
                }
                AggregateKind::Tuple => {
                    o.set("ak", J::Str("tuple".into()));
                }
                AggregateKind::Adt(adid, vi, _args, _, active) => {
                    o.set("ak", J::Str("adt".into()));
                    o.set("adt", J::Str(path_of(tcx, *adid)));
                    let def = tcx.adt_def(*adid);
                    let v = def.variant(*vi);
                    o.set("variant", J::Str(v.name.to_string()));
                    o.set("vi", J::Int(vi.as_usize() as i128));
                    let names: Vec<J> = match active {
                        Some(f) => vec![J::Str(v.fields[*f].name.to_string())],
                        None => v
                            .fields
                            .iter()
                            .map(|f| J::Str(f.name.to_string()))
                            .collect(),
                    };
                    o.set("fields", J::Arr(names));
                }
                AggregateKind::Closure(cdid, _) => {
                    o.set("ak", J::Str("closure".into()));
                    o.set("closure", J::Str(path_of(tcx, *cdid)));
                }
                other => {
                    o.set("ak", J::Str("other".into()));
                    o.set("dbg", J::Str(format!("{:?}", other)));
                }
            }
            let v: Vec<J> = ops.iter().map(|x| op_j(tcx, did, body, x)).collect();
            o.set("ops", J::Arr(v));
        }
        Rvalue::CopyForDeref(p) => {
            o.set("k", J::Str("use".into()));
            let mut c = J::obj();
            c.set("k", J::Str("copy".into()));
            c.set("place", place_j(tcx, body, *p));
            o.set("op", c);
            o.set("cfd", J::Bool(true));
        }
        other => {
            o.set("k", J::Str("other".into()));
            o.set("dbg", J::Str(format!("{:?}", other)));
        }
    }
    o
}

fn stmt_j<'tcx>(tcx: TyCtxt<'tcx>, body: &Body<'tcx>, st: &mir::Statement<'tcx>) -> Option<J> {
    let did = body.source.def_id();
    let mut o = J::obj();
    match &st.kind {
        StatementKind::Assign(bx) => {
            let (p, rv) = &**bx;
            o.set("k", J::Str("assign".into()));
            o.set("place", place_j(tcx, body, *p));
            o.set("rv", rvalue_j(tcx, did, body, rv));
        }
        StatementKind::SetDiscriminant {
            place,
            variant_index,
        } => {
            o.set("k", J::Str("setdiscr".into()));
            o.set("place", place_j(tcx, body, **place));
            o.set("vi", J::Int(variant_index.as_usize() as i128));
        }
        StatementKind::StorageLive(l) => {
            o.set("k", J::Str("live".into()));
            o.set("l", J::Int(l.as_usize() as i128));
        }
        StatementKind::StorageDead(l) => {
            o.set("k", J::Str("dead".into()));
            o.set("l", J::Int(l.as_usize() as i128));
        }
        StatementKind::Intrinsic(i) => {
            o.set("k", J::Str("intrinsic".into()));
            o.set("dbg", J::Str(format!("{:?}", i)));
        }
        _ => return None,
    }
    o.set("span", span_j(tcx, st.source_info.span));
    Some(o)
}

fn term_j<'tcx>(
    tcx: TyCtxt<'tcx>,
    did: DefId,
    body: &Body<'tcx>,
    t: &mir::Terminator<'tcx>,
) -> J {
    let mut o = J::obj();
    match &t.kind {
        TerminatorKind::Goto { target } => {
            o.set("k", J::Str("goto".into()));
            o.set("t", bbi(*target));
        }
        TerminatorKind::SwitchInt { discr, targets } => {
            o.set("k", J::Str("switch".into()));
            o.set("discr", op_j(tcx, did, body, discr));
            o.set("dty", J::Str(ty_str(discr.ty(body, tcx))));
            let mut arms = Vec::new();
            for (v, bb) in targets.iter() {
                arms.push(J::Arr(vec![J::Int(v as i128), bbi(bb)]));
            }
            o.set("arms", J::Arr(arms));
            o.set("otherwise", bbi(targets.otherwise()));
        }
        TerminatorKind::Return => {
            o.set("k", J::Str("return".into()));
        }
        TerminatorKind::Unreachable => {
            o.set("k", J::Str("unreachable".into()));
        }
        TerminatorKind::UnwindResume => {
            o.set("k", J::Str("resume".into()));
        }
        TerminatorKind::UnwindTerminate(_) => {
            o.set("k", J::Str("terminate".into()));
        }
        TerminatorKind::Drop {
            place,
            target,
            unwind,
            ..
        } => {
            o.set("k", J::Str("drop".into()));
            o.set("place", place_j(tcx, body, *place));
            o.set("t", bbi(*target));
            if let mir::UnwindAction::Cleanup(c) = unwind {
                o.set("unwind", bbi(*c));
            }
        }
        TerminatorKind::Call {
            func,
            args,
            destination,
            target,
            unwind,
            fn_span,
            ..
        } => {
            o.set("k", J::Str("call".into()));
            o.set("func", op_j(tcx, did, body, func));
            let fty = func.ty(body, tcx);
            if let ty::FnDef(cdid, cargs) = *fty.kind() {
                o.set("callee", J::Str(path_of(tcx, cdid)));
                o.set("callee_crate", J::Str(tcx.crate_name(cdid.krate).to_string()));
                o.set("callee_name", J::Str(tcx.item_name(cdid).to_string()));
                if let Some(tr) = tcx.trait_of_assoc(cdid) {
                    o.set("callee_trait", J::Str(path_of(tcx, tr)));
                }
                if let Some(im) = tcx.impl_of_assoc(cdid) {
                    let st = tcx.type_of(im).instantiate_identity().skip_norm_wip();
                    o.set("callee_impl_self", J::Str(ty_str(st)));
                }
                let a: Vec<J> = cargs
                    .iter()
                    .map(|a| {
                        J::Str(with_no_visible_paths!(with_no_trimmed_paths!(format!(
                            "{}",
                            a
                        ))))
                    })
                    .collect();
                o.set("callee_args", J::Arr(a));
                let env = ty::TypingEnv::post_analysis(tcx, did);
                if let Ok(Some(inst)) = ty::Instance::try_resolve(tcx, env, cdid, cargs) {
                    let rdid = inst.def_id();
                    o.set("resolved", J::Str(path_of(tcx, rdid)));
                    o.set("resolved_crate", J::Str(tcx.crate_name(rdid.krate).to_string()));
                    o.set("resolved_local", J::Bool(rdid.is_local()));
                    o.set("resolved_kind", J::Str(format!("{:?}", inst.def).split('(').next().unwrap_or("").to_string()));
                    if let Some(im) = tcx.impl_of_assoc(rdid) {
                        let st = tcx.type_of(im).instantiate_identity().skip_norm_wip();
                        o.set("resolved_impl_self", J::Str(ty_str(st)));
                    }
                }
            } else {
                o.set("indirect", J::Str(ty_str(fty)));
            }
            let a: Vec<J> = args.iter().map(|x| op_j(tcx, did, body, &x.node)).collect();
            o.set("args", J::Arr(a));
            let at: Vec<J> = args
                .iter()
                .map(|x| J::Str(ty_str(x.node.ty(body, tcx))))
                .collect();
            o.set("arg_tys", J::Arr(at));
            o.set("dest", place_j(tcx, body, *destination));
            if let Some(t) = target {
                o.set("t", bbi(*t));
            }
            if let mir::UnwindAction::Cleanup(c) = unwind {
                o.set("unwind", bbi(*c));
            }
            o.set("fn_span", span_j(tcx, *fn_span));
        }
        TerminatorKind::Assert {
            cond,
            expected,
            msg,
            target,
            unwind,
        } => {
            o.set("k", J::Str("assert".into()));
            o.set("cond", op_j(tcx, did, body, cond));
            o.set("expected", J::Bool(*expected));
            let mut m = J::obj();
            match &**msg {
                AssertKind::BoundsCheck { len, index } => {
                    m.set("k", J::Str("BoundsCheck".into()));
                    m.set("len", op_j(tcx, did, body, len));
                    m.set("index", op_j(tcx, did, body, index));
                }
                AssertKind::Overflow(bop, l, r) => {
                    m.set("k", J::Str("Overflow".into()));
                    m.set("op", J::Str(format!("{:?}", bop)));
                    m.set("l", op_j(tcx, did, body, l));
                    m.set("r", op_j(tcx, did, body, r));
                    m.set("ty", J::Str(ty_str(l.ty(body, tcx))));
                }
                AssertKind::OverflowNeg(x) => {
                    m.set("k", J::Str("OverflowNeg".into()));
                    m.set("x", op_j(tcx, did, body, x));
                    m.set("ty", J::Str(ty_str(x.ty(body, tcx))));
                }
                AssertKind::DivisionByZero(x) => {
                    m.set("k", J::Str("DivisionByZero".into()));
                    m.set("x", op_j(tcx, did, body, x));
                }
                AssertKind::RemainderByZero(x) => {
                    m.set("k", J::Str("RemainderByZero".into()));
                    m.set("x", op_j(tcx, did, body, x));
                }
                other => {
                    m.set("k", J::Str("Other".into()));
                    m.set("dbg", J::Str(format!("{:?}", other)));
                }
            }
            o.set("msg", m);
            o.set("t", bbi(*target));
            if let mir::UnwindAction::Cleanup(c) = unwind {
                o.set("unwind", bbi(*c));
            }
        }
        TerminatorKind::FalseEdge { real_target, .. } => {
            o.set("k", J::Str("goto".into()));
            o.set("t", bbi(*real_target));
        }
        TerminatorKind::FalseUnwind { real_target, .. } => {
            o.set("k", J::Str("goto".into()));
            o.set("t", bbi(*real_target));
        }
        other => {
            o.set("k", J::Str("other".into()));
            o.set("dbg", J::Str(format!("{:?}", other)));
        }
    }
    o.set("span", span_j(tcx, t.source_info.span));
    o
}

fn dump_adts<'tcx>(tcx: TyCtxt<'tcx>) -> J {
    let mut out = Vec::new();
    for id in tcx.hir_free_items() {
        let did = id.owner_id.to_def_id();
        let kind = tcx.def_kind(did);
        if !matches!(kind, DefKind::Struct | DefKind::Enum | DefKind::Union) {
            continue;
        }
        let def = tcx.adt_def(did);
        let mut o = J::obj();
        o.set("path", J::Str(path_of(tcx, did)));
        o.set("kind", J::Str(format!("{:?}", kind)));
        o.set("vis", J::Str(format!("{:?}", tcx.visibility(did))));
        let repr = def.repr();
        o.set("repr_c", J::Bool(repr.c()));
        o.set("repr_packed", J::Bool(repr.packed()));
        o.set("repr", J::Str(format!("{:?}", repr)));
        let mut variants = Vec::new();
        for v in def.variants().iter() {
            let mut vo = J::obj();
            vo.set("name", J::Str(v.name.to_string()));
            let mut fields = Vec::new();
            for f in v.fields.iter() {
                let mut fo = J::obj();
                fo.set("name", J::Str(f.name.to_string()));
                let fty = tcx.type_of(f.did).instantiate_identity().skip_norm_wip();
                fo.set("ty", J::Str(ty_str(fty)));
                fo.set("vis", J::Str(format!("{:?}", f.vis)));
                fields.push(fo);
            }
            vo.set("fields", J::Arr(fields));
            variants.push(vo);
        }
        o.set("variants", J::Arr(variants));
        // layout for non-generic ADTs
        let generics = tcx.generics_of(did);
        if generics.own_params.is_empty() {
            let ty = tcx.type_of(did).instantiate_identity().skip_norm_wip();
            let env = ty::TypingEnv::fully_monomorphized();
            if let Ok(layout) = tcx.layout_of(env.as_query_input(ty)) {
                o.set("size", J::Int(layout.size.bytes() as i128));
                o.set("align", J::Int(layout.align.abi.bytes() as i128));
                if def.is_struct() {
                    let n = def.non_enum_variant().fields.len();
                    let offs: Vec<J> = (0..n)
                        .map(|i| J::Int(layout.fields.offset(i).bytes() as i128))
                        .collect();
                    o.set("offsets", J::Arr(offs));
                }
            }
        }
        out.push(o);
    }
    J::Arr(out)
}

fn alloc_bytes<'tcx>(tcx: TyCtxt<'tcx>, id: mir::interpret::AllocId, depth: usize) -> J {
    let mut o = J::obj();
    match tcx.global_alloc(id) {
        mir::interpret::GlobalAlloc::Memory(a) => {
            let alloc = a.inner();
            let len = alloc.len();
            let bytes = alloc.inspect_with_uninit_and_ptr_outside_interpreter(0..len);
            o.set(
                "bytes",
                J::Arr(bytes.iter().map(|b| J::Int(*b as i128)).collect()),
            );
            if depth < 3 {
                let mut ptrs = Vec::new();
                for (off, prov) in alloc.provenance().ptrs().iter() {
                    let mut p = J::obj();
                    p.set("offset", J::Int(off.bytes() as i128));
                    p.set("alloc", alloc_bytes(tcx, prov.alloc_id(), depth + 1));
                    ptrs.push(p);
                }
                if !ptrs.is_empty() {
                    o.set("ptrs", J::Arr(ptrs));
                }
            }
        }
        other => {
            o.set("dbg", J::Str(format!("{:?}", other)));
        }
    }
    o
}

fn dump_consts<'tcx>(tcx: TyCtxt<'tcx>) -> J {
    let mut out = Vec::new();
    for id in tcx.hir_free_items() {
        let did = id.owner_id.to_def_id();
        let kind = tcx.def_kind(did);
        if !matches!(kind, DefKind::Const { .. } | DefKind::Static { .. }) {
            continue;
        }
        let name = tcx.opt_item_name(did).map(|s| s.to_string()).unwrap_or_default();
        if name == "_" || name.is_empty() {
            continue;
        }
        let mut o = J::obj();
        o.set("path", J::Str(path_of(tcx, did)));
        o.set("name", J::Str(name));
        let ty = tcx.type_of(did).instantiate_identity().skip_norm_wip();
        o.set("ty", J::Str(ty_str(ty)));
        if matches!(kind, DefKind::Static { .. }) {
            // statics (e.g. the cell behind a thread_local!) are not evaluated: no rule reads them
            o.set("static", J::Bool(true));
            out.push(o);
            continue;
        }
        if let Ok(v) = tcx.const_eval_poly(did) {
            match v {
                mir::ConstValue::Scalar(mir::interpret::Scalar::Int(si)) => {
                    let size = si.size();
                    o.set("int", J::Int(si.to_bits(size) as i128));
                }
                mir::ConstValue::Scalar(mir::interpret::Scalar::Ptr(p, _)) => {
                    o.set("alloc", alloc_bytes(tcx, p.provenance.alloc_id(), 0));
                }
                mir::ConstValue::Slice { alloc_id, meta } => {
                    o.set("alloc", alloc_bytes(tcx, alloc_id, 0));
                    o.set("meta", J::Int(meta as i128));
                }
                mir::ConstValue::Indirect { alloc_id, offset } => {
                    o.set("alloc", alloc_bytes(tcx, alloc_id, 0));
                    o.set("offset", J::Int(offset.bytes() as i128));
                }
                mir::ConstValue::ZeroSized => {
                    o.set("zst", J::Bool(true));
                }
            }
        }
        out.push(o);
    }
    J::Arr(out)
}
