#!/bin/bash
# Build the fact extractor and warm the dependency metadata. Offline.
set -e
cd "$(dirname "$0")"
export CARGO_NET_OFFLINE=true
(cd smfacts && cargo build --release --offline)
python3 smcheck/extract.py ram
python3 smcheck/extract.py default
echo "setup done"
