"""Compact summary of a body: defs of named locals, calls, switches (development aid)."""
import sys, glob, re
sys.path.insert(0, __file__.rsplit('/',1)[0])
from mir import *
import q
def summ(b, maxlen=170):
    print("==", b.path, span_str(b.span))
    for l in sorted(b.var_names):
        ds = q.def_shapes(b, l, {})
        print("  %s%s _%d: %s" % ("mut " if b.locals[l]["mut"] else "", b.var_names[l], l, "; ".join("%s@bb%d" % (s[:maxlen], site[0]) for s, site, _ in ds)))
    for bi, blk in enumerate(b.blocks):
        if blk["cleanup"]: continue
        t = blk["term"]
        if t["k"] == "call":
            nm = q.nice(t.get("callee"))
            if nm in ("Deref::deref","DerefMut::deref_mut","Try::branch","IntoIterator::into_iter","From::from","FromResidual::from_residual","Into::into"): continue
            print("  bb%d call %s -> bb%s" % (bi, q.shape(b.expr_of_call(t))[:maxlen], t.get("t")))
        elif t["k"] == "switch":
            print("  bb%d switch %s %s else bb%d" % (bi, q.shape(b.expr_of_operand(t["discr"]))[:maxlen], t["arms"], t["otherwise"]))
        elif t["k"] == "assert":
            print("  bb%d assert %s -> bb%d" % (bi, t["msg"]["k"]+t["msg"].get("op",""), t["t"]))
        elif t["k"] in ("goto",):
            pass
        else:
            print("  bb%d %s" % (bi, t["k"]))
    for bi, si, s, it in b.locations():
        if not it and s["k"]=="assign" and s["rv"]["k"]=="agg" and s["rv"].get("ak")=="adt" and not s["rv"]["adt"].startswith("core::"):
            print("  bb%d agg %s" % (bi, q.shape(b.expr_of_rvalue(s["rv"]))[:maxlen*3]))
if __name__ == "__main__":
    f = Facts(glob.glob('/verif/.cache/facts/*-ram.json')[0])
    for b in f.bodies:
        if b.promoted is None and re.search(sys.argv[1], b.path):
            summ(b)
