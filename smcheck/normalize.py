"""Normalisation of the fact base against refactorings that do not change behaviour.

The rules name functions of the analysed crate (their anchors). Two common clean-up commits would
otherwise move code out of the rules' sight without changing what the crate does:

* a private helper is *renamed*: a function that is new with respect to the reference table
  (tables/baseline_fns.json: the functions of the tree the rules were written against) is matched
  with a function of the table that disappeared, has the same parent (module / impl / enclosing fn),
  the same kind and the same signature; if the match is unique both ways the new name is mapped
  back to the old one throughout the fact base;
* a piece of a function is *extracted into a new private helper*: every remaining new function that
  is called directly (not recursive, not used as a function value) is inlined at its call sites -
  the callee's blocks are spliced into the caller's CFG, arguments become assignments to the
  callee's parameter locals, `return` becomes an assignment to the call's destination. This is
  plain MIR inlining; the analysed program is the same program.

On a tree without new functions nothing is changed. Both steps are reported in the evidence.
"""
import copy
import json
import os
import re

HERE = os.path.dirname(os.path.abspath(__file__))
TABLE = os.path.join(HERE, "tables", "baseline_fns.json")

_BASE = None


def baseline():
    global _BASE
    if _BASE is None:
        try:
            with open(TABLE) as f:
                _BASE = json.load(f)
        except OSError:
            _BASE = {}
    return _BASE


def fn_table(raw):
    out = {}
    for b in raw["bodies"]:
        if b.get("promoted") is not None:
            continue
        kind = b["kind"].split(" ")[0]
        if kind not in ("Fn", "AssocFn"):
            continue
        out[b["path"]] = {"kind": kind, "parent": b.get("parent"), "sig": b.get("sig"), "derived": bool(b.get("derived"))}
    return out


def _sig_key(sig):
    return re.sub(r"\s+", " ", sig or "")


def detect_renames(raw, base):
    cur = fn_table(raw)
    new = [p for p in cur if p not in base and not cur[p]["derived"]]
    missing = [p for p in base if p not in cur and not base[p].get("derived")]
    ren = {}
    # the same item with its lifetime parameters spelled differently (`impl TokenIter<'_>` -> `impl<'a> TokenIter<'a>`)
    canon = lambda p_: re.sub(r"'[A-Za-z_]\w*", "'_", p_)  # noqa: E731
    by_canon = {}
    for m in missing:
        by_canon.setdefault(canon(m), []).append(m)
    for n in new:
        c = by_canon.get(canon(n), [])
        if len(c) == 1 and len([x for x in new if canon(x) == canon(n)]) == 1:
            ren[n] = c[0]
    new = [n for n in new if n not in ren]
    missing = [m for m in missing if m not in ren.values()]
    for n in new:
        cands = [m for m in missing if base[m]["parent"] == cur[n]["parent"] and base[m]["kind"] == cur[n]["kind"] and _sig_key(base[m]["sig"]) == _sig_key(cur[n]["sig"])]
        if len(cands) == 1:
            m = cands[0]
            back = [x for x in new if base[m]["parent"] == cur[x]["parent"] and base[m]["kind"] == cur[x]["kind"] and _sig_key(base[m]["sig"]) == _sig_key(cur[x]["sig"])]
            if len(back) == 1:
                ren[n] = m
    # moved: same item name and signature under another parent (free fn <-> associated fn included) (a private helper moved to another
    # module, a module-level fn nested into its only caller or the reverse), unique both ways
    def base_name(p):
        return p.rsplit("::", 1)[-1]
    left_new = [n for n in new if n not in ren]
    left_missing = [m for m in missing if m not in ren.values()]
    for n in left_new:
        same = lambda a, b, ta, tb: base_name(a) == base_name(b) and _sig_key(ta[a]["sig"]) == _sig_key(tb[b]["sig"])  # noqa: E731
        cands = [m for m in left_missing if same(n, m, cur, base)]
        if len(cands) == 1:
            back = [x for x in left_new if same(x, cands[0], cur, base)]
            if len(back) == 1:
                ren[n] = cands[0]
    return ren


def rename_text(text, ren):
    for n, m in sorted(ren.items(), key=lambda kv: -len(kv[0])):
        text = re.sub(r"(?<![\w])" + re.escape(n) + r"(?![\w])", m.replace("\\", "\\\\"), text)
        # the last path segment also appears as the bare item name
    return text


# ------------------------------------------------------------------------------------------------
def _remap(o, lmap, bmap, is_term=False):
    if isinstance(o, list):
        return [_remap(x, lmap, bmap) for x in o]
    if not isinstance(o, dict):
        return o
    d = {}
    for k, v in o.items():
        if k == "l" and isinstance(v, int) and not isinstance(v, bool):
            d[k] = lmap(v)
        elif k in ("t", "unwind", "otherwise") and isinstance(v, int) and not isinstance(v, bool) and o.get("k") in ("goto", "switch", "call", "assert", "drop"):
            d[k] = bmap(v)
        elif k == "arms" and o.get("k") == "switch":
            d[k] = [[a[0], bmap(a[1])] for a in v]
        else:
            d[k] = _remap(v, lmap, bmap)
    return d


def _uses_fn_value(raw_bodies, path):
    """Is the function used as a value (fn item passed around) anywhere other than as the callee of a call?"""
    needle = json.dumps(path)

    def walk(o, in_func):
        if isinstance(o, list):
            return any(walk(x, False) for x in o)
        if isinstance(o, dict):
            if o.get("k") == "const" and isinstance(o.get("c"), dict) and o["c"].get("fn") == path and not in_func:
                return True
            for k, v in o.items():
                if walk(v, k == "func"):
                    return True
        return False

    for b in raw_bodies:
        for blk in b["blocks"]:
            if walk(blk["stmts"], False):
                return True
            t = blk["term"]
            for k, v in t.items():
                if k == "func":
                    continue
                if walk(v, False):
                    return True
    return False


def _calls_to(body, path):
    out = []
    for bi, blk in enumerate(body["blocks"]):
        t = blk["term"]
        if t["k"] == "call" and (t.get("resolved") == path or (t.get("callee") == path and not t.get("resolved"))):
            out.append(bi)
    return out


def inline_call(caller, bi, callee):
    t = caller["blocks"][bi]["term"]
    lbase = len(caller["locals"])
    bbase = len(caller["blocks"])
    lmap = lambda l: l + lbase  # noqa: E731
    bmap = lambda b: b + bbase  # noqa: E731
    for loc in callee["locals"]:
        nl = dict(loc)
        nl["i"] = loc["i"] + lbase
        nl["inlined_from"] = callee["path"]
        caller["locals"].append(nl)
    for v in callee.get("vars", []):
        nv = _remap(v, lmap, bmap)
        nv.pop("arg", None)
        nv["inlined_from"] = callee["path"]
        caller["vars"].append(nv)
    span = t.get("span")
    cleanup_here = caller["blocks"][bi]["cleanup"]
    # arguments
    stmts = caller["blocks"][bi]["stmts"]
    for k, a in enumerate(t["args"]):
        pl = {"l": lbase + k + 1, "p": [], "ty": callee["locals"][k + 1]["ty"]}
        stmts.append({"k": "assign", "place": pl, "rv": {"k": "use", "op": a}, "span": span, "inlined_arg": True})
    dest, cont, unwind = t["dest"], t.get("t"), t.get("unwind")
    caller["blocks"][bi]["term"] = {"k": "goto", "t": bbase, "span": span, "inlined_call": callee["path"]}
    new_blocks = []
    for blk in callee["blocks"]:
        nb = _remap(blk, lmap, bmap)
        nb["i"] = blk["i"] + bbase
        nb["cleanup"] = blk["cleanup"] or cleanup_here
        nb["inlined_from"] = callee["path"]
        tt = nb["term"]
        if tt["k"] == "return":
            ret = {"l": lbase, "p": [], "ty": callee["locals"][0]["ty"]}
            nb["stmts"].append({"k": "assign", "place": dest, "rv": {"k": "use", "op": {"k": "move", "place": ret}}, "span": tt.get("span"), "inlined_ret": True})
            nb["term"] = {"k": "goto", "t": cont, "span": tt.get("span")} if cont is not None else {"k": "unreachable", "span": tt.get("span")}
        elif tt["k"] == "resume" and unwind is not None:
            nb["term"] = {"k": "goto", "t": unwind, "span": tt.get("span")}
        new_blocks.append(nb)
    # a parameter that is a reference to one of the caller's variables, taken right at the call (`helper(.., &mut prev)`) and
    # only ever dereferenced in the helper, *is* that variable: `*param` is written as the variable itself, so state a
    # helper updates through `&mut` is again a plain assignment to the caller's local
    for k, a in enumerate(t["args"]):
        if a.get("k") != "move" or a["place"]["p"]:
            continue
        def single_ref(rl):
            ds = [s_ for bl in caller["blocks"] for s_ in bl["stmts"] if s_["k"] == "assign" and s_["place"]["l"] == rl and not s_["place"]["p"] and not s_.get("inlined_arg")]
            calls_ = [bl for bl in caller["blocks"] if bl["term"]["k"] == "call" and bl["term"]["dest"]["l"] == rl]
            if len(ds) != 1 or calls_ or ds[0]["rv"].get("k") != "ref":
                return None
            return ds[0]["rv"]["place"]
        X = single_ref(a["place"]["l"])
        for _ in range(3):
            # a reborrow `&mut *r` of a reference that is itself `&mut x`, taken once: the same variable
            if X is not None and X["p"] and X["p"][0].get("k") == "deref" and X["l"] > caller.get("arg_count", 0):
                Y = single_ref(X["l"])
                if Y is None:
                    break
                X = {"l": Y["l"], "p": list(Y["p"]) + X["p"][1:], "ty": X.get("ty")}
            else:
                break
        if X is None or any(pr.get("k") in ("deref", "index") for pr in X["p"]) or X["l"] == 0:
            continue
        pl_ = lbase + k + 1
        uses = []

        def walk(x, uses=uses, pl_=pl_):
            if isinstance(x, list):
                for y in x:
                    walk(y)
            elif isinstance(x, dict):
                if "l" in x and isinstance(x.get("p"), list) and x["l"] == pl_:
                    uses.append(x)
                for v in x.values():
                    walk(v)
        walk(new_blocks)
        if not uses or not all(u["p"] and u["p"][0].get("k") == "deref" for u in uses):
            continue
        for u in uses:
            u["l"] = X["l"]
            u["p"] = list(X["p"]) + u["p"][1:]
    caller["blocks"].extend(new_blocks)


def inline_new_functions(raw, base, log):
    bodies = [b for b in raw["bodies"] if b.get("promoted") is None]
    by_path = {b["path"]: b for b in bodies}
    cur = fn_table(raw)
    new = [p for p in cur if p not in base and not cur[p]["derived"] and "_::" not in p]
    if not new:
        return
    # candidates: private, not exported, not used as a value
    cand = []
    for p in new:
        b = by_path[p]
        if b.get("exported") or b.get("reachable") or b.get("impl_trait"):
            continue
        if _uses_fn_value(bodies, p):
            continue
        cand.append(p)
    # callee-first order among candidates; drop recursive ones
    calls = {p: set(q for q in cand if _calls_to(by_path[p], q)) for p in cand}
    order = []
    left = set(cand)
    for _ in range(len(cand) + 1):
        ready = [p for p in sorted(left) if not (calls[p] & left)]
        if not ready:
            break
        order += ready
        left -= set(ready)
    for p in order:
        callee = copy.deepcopy(by_path[p])
        n = 0
        for b in raw["bodies"]:
            if b["path"] == p:
                continue
            while True:
                sites = _calls_to(b, p)
                if not sites or n > 200:
                    break
                inline_call(b, sites[0], callee)
                n += 1
        by_path[p]["inlined_away"] = True
        log.append("inlined new private function %s at %d call site(s)" % (p, n))


# ------------------------------------------------------------------------------------------------
def _subst_captures(o, env_local, env_is_ref, captures):
    """Places rooted at the closure's environment parameter (`_1.k` / `(*_1).k`) become the place the
    closure captured there, in the caller's locals. Returns False if a use of the environment cannot be
    expressed that way."""
    ok = [True]

    def walk(x):
        if isinstance(x, list):
            for y in x:
                walk(y)
        elif isinstance(x, dict):
            if "l" in x and "p" in x and isinstance(x.get("p"), list) and x["l"] == env_local:
                pr = x["p"]
                k = 1 if env_is_ref else 0
                if len(pr) > k and (not env_is_ref or pr[0].get("k") == "deref") and pr[k].get("k") == "field" and pr[k].get("i") in captures:
                    cap = captures[pr[k]["i"]]
                    x["l"] = cap["l"]
                    x["p"] = list(cap["p"]) + pr[k + 1:]
                else:
                    ok[0] = False
            for v in x.values():
                walk(v)

    walk(o)
    return ok[0]


def desugar_bool_then(raw, log):
    """`c.then(|| body)` is `if c { Some(body) } else { None }`: the closure is called at most once, right
    there, so its MIR is spliced in under a switch on `c` (captured places written in the caller's terms).
    This makes the combinator spelling and the `if` spelling the same program for every rule."""
    by_path = {}
    for b in raw["bodies"]:
        if b.get("promoted") is None:
            by_path.setdefault(b["path"], b)
    n_done = 0
    for caller in raw["bodies"]:
        changed = True
        guard = 0
        while changed and guard < 20:
            changed = False
            guard += 1
            for bi, blk in enumerate(caller["blocks"]):
                t = blk["term"]
                if t["k"] != "call" or (t.get("resolved") or t.get("callee")) != "core::bool::<impl bool>::then" or len(t["args"]) != 2:
                    continue
                cop = t["args"][1]
                if cop.get("k") not in ("move", "copy") or cop["place"]["p"]:
                    continue
                cl = cop["place"]["l"]
                aggs = [s for bl in caller["blocks"] for s in bl["stmts"] if s["k"] == "assign" and s["place"]["l"] == cl and not s["place"]["p"]]
                if len(aggs) != 1 or aggs[0]["rv"].get("k") != "agg" or aggs[0]["rv"].get("ak") != "closure":
                    continue
                callee = by_path.get(aggs[0]["rv"]["closure"])
                if callee is None or callee.get("arg_count") != 1 or callee is caller:
                    continue
                captures = {}
                good = True
                for k, o in enumerate(aggs[0]["rv"]["ops"]):
                    if o.get("k") in ("move", "copy"):
                        captures[k] = {"l": o["place"]["l"], "p": o["place"]["p"]}
                    else:
                        good = False
                if not good:
                    continue
                callee = copy.deepcopy(callee)
                lbase, bbase = len(caller["locals"]), len(caller["blocks"])
                env_is_ref = callee["locals"][1]["ty"].startswith("&")
                new_blocks = []
                for cb in callee["blocks"]:
                    nb = _remap(cb, lambda l: l + lbase, lambda x: x + bbase)
                    nb["i"] = cb["i"] + bbase
                    nb["cleanup"] = cb["cleanup"] or blk["cleanup"]
                    nb["inlined_from"] = callee["path"]
                    new_blocks.append(nb)
                if not _subst_captures(new_blocks, lbase + 1, env_is_ref, captures):
                    continue
                span = t.get("span")
                dest, cont, unwind = t["dest"], t.get("t"), t.get("unwind")
                opt_ty = dest.get("ty")
                for loc in callee["locals"]:
                    nl = dict(loc)
                    nl["i"] = loc["i"] + lbase
                    nl["inlined_from"] = callee["path"]
                    caller["locals"].append(nl)
                for v in callee.get("vars", []):
                    nv = _remap(v, lambda l: l + lbase, lambda x: x + bbase)
                    nv.pop("arg", None)
                    nv["inlined_from"] = callee["path"]
                    if _subst_captures(nv, lbase + 1, env_is_ref, captures):
                        caller["vars"].append(nv)
                none_blk = bbase + len(new_blocks)
                for nb in new_blocks:
                    tt = nb["term"]
                    if tt["k"] == "return":
                        ret = {"l": lbase, "p": [], "ty": callee["locals"][0]["ty"]}
                        nb["stmts"].append({"k": "assign", "place": dest, "span": tt.get("span"), "inlined_ret": True,
                                            "rv": {"k": "agg", "ak": "adt", "adt": "core::option::Option", "variant": "Some", "vi": 1, "fields": ["0"], "ops": [{"k": "move", "place": ret}]}})
                        nb["term"] = {"k": "goto", "t": cont, "span": tt.get("span")} if cont is not None else {"k": "unreachable", "span": tt.get("span")}
                    elif tt["k"] == "resume" and unwind is not None:
                        nb["term"] = {"k": "goto", "t": unwind, "span": tt.get("span")}
                    caller["blocks"].append(nb)
                caller["blocks"].append({"i": none_blk, "cleanup": blk["cleanup"], "inlined_from": callee["path"],
                                         "stmts": [{"k": "assign", "place": dest, "span": span, "rv": {"k": "agg", "ak": "adt", "adt": "core::option::Option", "variant": "None", "vi": 0, "fields": [], "ops": []}}],
                                         "term": {"k": "goto", "t": cont, "span": span} if cont is not None else {"k": "unreachable", "span": span}})
                blk["term"] = {"k": "switch", "discr": t["args"][0], "dty": "bool", "arms": [[0, none_blk]], "otherwise": bbase, "span": span, "desugared": "bool::then"}
                by_path[callee["path"]]["inlined_away"] = True
                n_done += 1
                changed = True
                break
    if n_done:
        log.append("desugared %d `bool::then(closure)` call(s) into if/else with the closure body in place" % n_done)


def desugar_tail_result_map(raw, log):
    """`fallible().map(|v| body)` as the value a function returns is `let v = fallible()?; Ok(body)` (the error is
    handed on unchanged, the closure runs at most once, right there): its MIR is spliced in under a switch on the
    Result's discriminant, so a struct literal moved into such a closure is again a literal of the function itself.
    Only the tail position (destination = the return place) is rewritten; `map` calls elsewhere keep their shape."""
    by_path = {}
    for b in raw["bodies"]:
        if b.get("promoted") is None:
            by_path.setdefault(b["path"], b)
    n_done = 0
    for caller in raw["bodies"]:
        for bi, blk in enumerate(list(caller["blocks"])):
            t = blk["term"]
            if t["k"] != "call" or not (t.get("resolved") or t.get("callee") or "").startswith("core::result::Result::<T, E>::map") or len(t["args"]) != 2:
                continue
            if (t.get("resolved") or t.get("callee")) != "core::result::Result::<T, E>::map":
                continue
            if t["dest"]["l"] != 0 or t["dest"]["p"] or blk["cleanup"]:
                continue
            xop, cop = t["args"]
            if xop.get("k") != "move" or xop["place"]["p"] or cop.get("k") not in ("move", "copy") or cop["place"]["p"]:
                continue
            X = xop["place"]
            cl = cop["place"]["l"]
            aggs = [s_ for bl in caller["blocks"] for s_ in bl["stmts"] if s_["k"] == "assign" and s_["place"]["l"] == cl and not s_["place"]["p"]]
            if len(aggs) != 1 or aggs[0]["rv"].get("k") != "agg" or aggs[0]["rv"].get("ak") != "closure":
                continue
            callee = by_path.get(aggs[0]["rv"]["closure"])
            if callee is None or callee.get("arg_count") != 2 or callee is caller:
                continue
            captures = {}
            good = True
            for k, o in enumerate(aggs[0]["rv"]["ops"]):
                if o.get("k") in ("move", "copy"):
                    captures[k] = {"l": o["place"]["l"], "p": o["place"]["p"]}
                else:
                    good = False
            if not good:
                continue
            callee = copy.deepcopy(callee)
            lbase, bbase = len(caller["locals"]), len(caller["blocks"])
            env_is_ref = callee["locals"][1]["ty"].startswith("&")
            new_blocks = []
            for cb in callee["blocks"]:
                nb = _remap(cb, lambda l: l + lbase, lambda x: x + bbase)
                nb["i"] = cb["i"] + bbase
                nb["inlined_from"] = callee["path"]
                new_blocks.append(nb)
            if not _subst_captures(new_blocks, lbase + 1, env_is_ref, captures):
                continue
            span = t.get("span")
            dest, cont, unwind = t["dest"], t.get("t"), t.get("unwind")
            for loc in callee["locals"]:
                nl = dict(loc)
                nl["i"] = loc["i"] + lbase
                nl["inlined_from"] = callee["path"]
                caller["locals"].append(nl)
            for v in callee.get("vars", []):
                nv = _remap(v, lambda l: l + lbase, lambda x: x + bbase)
                nv.pop("arg", None)
                nv["inlined_from"] = callee["path"]
                if _subst_captures(nv, lbase + 1, env_is_ref, captures):
                    caller["vars"].append(nv)
            dl = len(caller["locals"])
            caller["locals"].append({"i": dl, "ty": "isize", "mut": True, "inlined_from": callee["path"]})
            pty = callee["locals"][2]["ty"]
            ok_pre = bbase + len(new_blocks)
            err_blk = ok_pre + 1
            for nb in new_blocks:
                tt = nb["term"]
                if tt["k"] == "return":
                    ret = {"l": lbase, "p": [], "ty": callee["locals"][0]["ty"]}
                    nb["stmts"].append({"k": "assign", "place": dest, "span": tt.get("span"), "inlined_ret": True,
                                        "rv": {"k": "agg", "ak": "adt", "adt": "core::result::Result", "variant": "Ok", "vi": 0, "fields": ["0"], "ops": [{"k": "move", "place": ret}]}})
                    nb["term"] = {"k": "goto", "t": cont, "span": tt.get("span")} if cont is not None else {"k": "unreachable", "span": tt.get("span")}
                elif tt["k"] == "resume" and unwind is not None:
                    nb["term"] = {"k": "goto", "t": unwind, "span": tt.get("span")}
                caller["blocks"].append(nb)
            okp = {"l": X["l"], "p": [{"k": "downcast", "vi": 0, "n": "Ok"}, {"k": "field", "i": 0, "ty": pty, "n": "0", "adt": "core::result::Result"}], "ty": pty}
            caller["blocks"].append({"i": ok_pre, "cleanup": False, "inlined_from": callee["path"],
                                     "stmts": [{"k": "assign", "place": {"l": lbase + 2, "p": [], "ty": pty}, "span": span, "rv": {"k": "use", "op": {"k": "move", "place": okp}}}],
                                     "term": {"k": "goto", "t": bbase, "span": span}})
            ety = "errors::Error"
            errp = {"l": X["l"], "p": [{"k": "downcast", "vi": 1, "n": "Err"}, {"k": "field", "i": 0, "ty": ety, "n": "0", "adt": "core::result::Result"}], "ty": ety}
            caller["blocks"].append({"i": err_blk, "cleanup": False, "inlined_from": callee["path"],
                                     "stmts": [{"k": "assign", "place": dest, "span": span,
                                                "rv": {"k": "agg", "ak": "adt", "adt": "core::result::Result", "variant": "Err", "vi": 1, "fields": ["0"], "ops": [{"k": "move", "place": errp}]}}],
                                     "term": {"k": "goto", "t": cont, "span": span} if cont is not None else {"k": "unreachable", "span": span}})
            blk["stmts"].append({"k": "assign", "place": {"l": dl, "p": [], "ty": "isize"}, "span": span, "rv": {"k": "discr", "place": X}})
            blk["term"] = {"k": "switch", "discr": {"k": "move", "place": {"l": dl, "p": [], "ty": "isize"}}, "dty": "isize", "arms": [[0, ok_pre], [1, err_blk]], "otherwise": err_blk, "span": span,
                           "desugared": "Result::map"}
            by_path[callee["path"]]["inlined_away"] = True
            n_done += 1
    if n_done:
        log.append("desugared %d tail `Result::map(closure)` call(s) into a match with the closure body in place" % n_done)


def fold_constant_switches(raw, log):
    """A branch on a temporary whose only definition is a literal (`if cfg!(debug_assertions) {..}` of
    `debug_assert!` with debug assertions off - the configuration the facts are extracted in -, `if false`)
    takes one side: the switch becomes a goto and blocks that are no longer reachable are emptied. rustc does
    the same folding before code generation; at the MIR level the facts are taken from it has not happened yet."""
    n_fold = 0
    for b in raw["bodies"]:
        ndefs, cval, addr = {}, {}, set()
        for blk in b["blocks"]:
            for st in blk["stmts"]:
                if st["k"] == "assign":
                    l = st["place"]["l"]
                    ndefs[l] = ndefs.get(l, 0) + (1 if not st["place"]["p"] else 2)
                    rv = st["rv"]
                    if not st["place"]["p"] and rv["k"] == "use" and rv["op"]["k"] == "const" and rv["op"]["c"].get("int") is not None:
                        cval[l] = rv["op"]["c"]["int"]
                    if rv["k"] in ("ref", "rawptr") and not rv["place"]["p"]:
                        addr.add(rv["place"]["l"])
            t = blk["term"]
            if t["k"] == "call" and t.get("dest"):
                ndefs[t["dest"]["l"]] = ndefs.get(t["dest"]["l"], 0) + 2
        argc = b.get("arg_count", 0)
        changed = False
        for blk in b["blocks"]:
            t = blk["term"]
            if t["k"] != "switch":
                continue
            d = t["discr"]
            v = None
            if d["k"] == "const":
                v = d["c"].get("int")
            elif d["k"] in ("move", "copy") and not d["place"]["p"]:
                l = d["place"]["l"]
                if l > argc and ndefs.get(l) == 1 and l in cval and l not in addr:
                    v = cval[l]
            if v is None:
                continue
            tgt = t["otherwise"]
            for val, tb in t["arms"]:
                if val == v:
                    tgt = tb
            blk["term"] = {"k": "goto", "t": tgt, "span": t.get("span"), "folded_switch": True}
            n_fold += 1
            changed = True
        if changed:
            succ = {}
            for blk in b["blocks"]:
                t = blk["term"]
                out = []
                for k in ("t", "unwind", "otherwise"):
                    if isinstance(t.get(k), int) and not isinstance(t.get(k), bool):
                        out.append(t[k])
                for a in t.get("arms", []) if t["k"] == "switch" else []:
                    out.append(a[1])
                succ[blk["i"]] = out
            seen, stack = {0}, [0]
            while stack:
                x = stack.pop()
                for y in succ.get(x, []):
                    if y not in seen:
                        seen.add(y)
                        stack.append(y)
            for blk in b["blocks"]:
                if blk["i"] not in seen:
                    blk["stmts"] = []
                    blk["term"] = {"k": "unreachable", "span": blk["term"].get("span"), "pruned": True}
    if n_fold:
        log.append("%d branch(es) on a literal condition folded (debug assertions are off in the analysed configuration)" % n_fold)


_LAZY = {  # lazy combinator -> (eager twin, index of the closure argument)
    "core::option::Option::<T>::ok_or_else": ("core::option::Option::<T>::ok_or", 1),
    "core::option::Option::<T>::unwrap_or_else": ("core::option::Option::<T>::unwrap_or", 1),
    "core::result::Result::<T, E>::unwrap_or_else": ("core::result::Result::<T, E>::unwrap_or", 1),
    "core::option::Option::<T>::or_else": ("core::option::Option::<T>::or", 1),
    "core::result::Result::<T, E>::or_else": ("core::result::Result::<T, E>::or", 1),
    "core::option::Option::<T>::map_or_else": ("core::option::Option::<T>::map_or", 1),
}


def _constant_closure(callee):
    """The statements of a closure that captures nothing, ignores its parameters and builds its result from
    literals only (`|| Error::X`, `|_| Err(Error::Y)`, `|| 0`): [(place, rvalue)] in order, or None."""
    blocks = [b for b in callee["blocks"] if not b["cleanup"]]
    if len(blocks) != 1 or blocks[0]["term"]["k"] != "return":
        return None
    out = []
    defined = set()

    def const_op(o):
        if o.get("k") == "const":
            return True
        return o.get("k") in ("move", "copy") and not o["place"]["p"] and o["place"]["l"] in defined

    for st in blocks[0]["stmts"]:
        if st["k"] in ("live", "dead", "nop", "fake"):
            continue
        if st["k"] != "assign" or st["place"]["p"]:
            return None
        rv = st["rv"]
        if rv["k"] == "use" and const_op(rv["op"]):
            pass
        elif rv["k"] == "agg" and rv.get("ak") in ("adt", "tuple") and all(const_op(o) for o in rv["ops"]):
            pass
        else:
            return None
        defined.add(st["place"]["l"])
        out.append(st)
    return out if 0 in defined else None


def desugar_lazy_constants(raw, log):
    """`x.ok_or_else(|| Error::E)` is `x.ok_or(Error::E)` (likewise unwrap_or_else / or_else / map_or_else) when
    the closure captures nothing and only builds a literal: building it eagerly has no observable effect."""
    by_path = {}
    for b in raw["bodies"]:
        if b.get("promoted") is None:
            by_path.setdefault(b["path"], b)
    n_done = 0
    for caller in raw["bodies"]:
        for blk in caller["blocks"]:
            t = blk["term"]
            if t["k"] != "call":
                continue
            key = t.get("resolved") or t.get("callee")
            if key not in _LAZY or len(t["args"]) < 2:
                continue
            eager, k = _LAZY[key]
            cop = t["args"][k]
            if cop.get("k") not in ("move", "copy") or cop["place"]["p"]:
                continue
            cl = cop["place"]["l"]
            aggs = [st for bl in caller["blocks"] for st in bl["stmts"] if st["k"] == "assign" and st["place"]["l"] == cl and not st["place"]["p"]]
            if len(aggs) != 1 or aggs[0]["rv"].get("k") != "agg" or aggs[0]["rv"].get("ak") != "closure" or aggs[0]["rv"]["ops"]:
                continue
            callee = by_path.get(aggs[0]["rv"]["closure"])
            if callee is None:
                continue
            sts = _constant_closure(callee)
            if sts is None:
                continue
            lbase = len(caller["locals"])
            for loc in callee["locals"]:
                nl = dict(loc)
                nl["i"] = loc["i"] + lbase
                nl["inlined_from"] = callee["path"]
                caller["locals"].append(nl)
            for st in sts:
                ns = _remap(copy.deepcopy(st), lambda l: l + lbase, lambda x: x)
                ns["span"] = t.get("span")
                blk["stmts"].append(ns)
            t["args"][k] = {"k": "move", "place": {"l": lbase, "p": [], "ty": callee["locals"][0]["ty"]}}
            for f in ("callee", "resolved"):
                if t.get(f) == key:
                    t[f] = eager
            if t.get("callee_name"):
                t["callee_name"] = eager.rsplit("::", 1)[-1]
            fc = t.get("func", {}).get("c") or {}
            if fc.get("fn") == key:
                fc["fn"] = eager
            t["desugared"] = key
            n_done += 1
    if n_done:
        log.append("%d lazy combinator(s) with a literal-only closure (`ok_or_else(|| E)` ...) read as their eager twin" % n_done)


ADT_TABLE = os.path.join(HERE, "tables", "baseline_adts.json")
_BASE_ADTS = None


def baseline_adts():
    global _BASE_ADTS
    if _BASE_ADTS is None:
        try:
            with open(ADT_TABLE) as f:
                _BASE_ADTS = json.load(f)
        except OSError:
            _BASE_ADTS = {}
    return _BASE_ADTS


def adt_table(raw):
    out = {}
    for a in raw["adts"]:
        if a.get("kind") != "Struct" or len(a.get("variants", [])) != 1:
            continue
        fs = a["variants"][0]["fields"]
        # serde-derived wire structs are excluded: their field names are the wire format
        out[a["path"]] = [[f["name"], f["ty"], not str(f.get("vis", "")).startswith("Public")] for f in fs]
    return out


def rename_fields(raw, base, log):
    """A private field that was merely renamed (same struct, same position, same type, every other
    field unchanged or renamed likewise) is mapped back to the name the rules know. Structs of the
    JSON wire format (module jsontypes) are left alone: there the name is behaviour."""
    cur = adt_table(raw)
    ren = {}
    for path, fields in cur.items():
        if path.startswith("jsontypes::") or path not in base:
            continue
        old = base[path]
        if len(old) != len(fields) or [f[1] for f in old] != [f[1] for f in fields]:
            continue
        for i, (new_f, old_f) in enumerate(zip(fields, old)):
            if new_f[0] != old_f[0] and old_f[2] and new_f[2] and old_f[0] not in [f[0] for f in fields]:
                ren[(path, i)] = (new_f[0], old_f[0])
    if not ren:
        return
    adts = set(p for p, _ in ren)

    def walk(o):
        if isinstance(o, list):
            for x in o:
                walk(x)
        elif isinstance(o, dict):
            if o.get("k") == "field" and o.get("adt") in adts and (o["adt"], o.get("i")) in ren:
                o["n"] = ren[(o["adt"], o["i"])][1]
            if o.get("k") == "agg" and o.get("ak") == "adt" and o.get("adt") in adts and isinstance(o.get("fields"), list):
                o["fields"] = [ren.get((o["adt"], i), (None, n))[1] for i, n in enumerate(o["fields"])]
            for v in o.values():
                walk(v)

    walk(raw["bodies"])
    for a in raw["adts"]:
        if a["path"] in adts:
            for i, f in enumerate(a["variants"][0]["fields"]):
                if (a["path"], i) in ren:
                    f["name"] = ren[(a["path"], i)][1]
    for (path, i), (n, o) in sorted(ren.items()):
        log.append("private field %s.%s is treated as the renamed %s (same position and type)" % (path, n, o))


CLOSURE_TABLE = os.path.join(HERE, "tables", "baseline_closures.json")
_BASE_CL = None


def baseline_closures():
    global _BASE_CL
    if _BASE_CL is None:
        try:
            with open(CLOSURE_TABLE) as f:
                _BASE_CL = json.load(f)
        except OSError:
            _BASE_CL = {}
    return _BASE_CL


def closure_table(raw):
    """{parent path: [signature key of closure#0, closure#1, ...]}; the key is (result type, parameter types):
    the environment parameter is left out, its type only names a source position."""
    out = {}
    for b in raw["bodies"]:
        if b.get("promoted") is not None or not b["kind"].startswith("Closure"):
            continue
        m = re.match(r"^(.*)::\{closure#(\d+)\}$", b["path"])
        if not m:
            continue
        tys = [l["ty"] for l in b["locals"][:b["arg_count"] + 1]]
        key = re.sub(r"\{closure@[^}]*\}", "{closure}", " | ".join([tys[0]] + tys[2:]))
        out.setdefault(m.group(1), {})[int(m.group(2))] = key
    return {p: [d.get(i, "?") for i in range(max(d) + 1)] for p, d in out.items()}


def _lcs_pairs(a, b):
    n, m = len(a), len(b)
    t = [[0] * (m + 1) for _ in range(n + 1)]
    for i in range(n - 1, -1, -1):
        for j in range(m - 1, -1, -1):
            t[i][j] = t[i + 1][j + 1] + 1 if a[i] == b[j] else max(t[i + 1][j], t[i][j + 1])
    pairs, i, j = [], 0, 0
    while i < n and j < m:
        if a[i] == b[j]:
            pairs.append((i, j))
            i += 1
            j += 1
        elif t[i + 1][j] >= t[i][j + 1]:
            i += 1
        else:
            j += 1
    return pairs


def _closure_dicts(raw):
    out = {}
    for b in raw["bodies"]:
        if b.get("promoted") is not None or not b["kind"].startswith("Closure"):
            continue
        m = re.match(r"^(.*)::\{closure#(\d+)\}$", b["path"])
        if not m:
            continue
        tys = [l["ty"] for l in b["locals"][:b["arg_count"] + 1]]
        key = re.sub(r"\{closure@[^}]*\}", "{closure}", " | ".join([tys[0]] + tys[2:]))
        out.setdefault(m.group(1), {})[int(m.group(2))] = key
    return out


def renumber_closures(text, raw, base_cl, log):
    """rustc numbers the closures of a function in source order, so adding or removing one closure renames all
    later ones. The closures of each function are aligned with the reference list by signature (longest common
    subsequence, order preserving); aligned closures get their reference number back, the others numbers
    beyond the reference range. Outer functions first, one function per pass (inner paths change with the outer)."""
    done = set()
    for _ in range(12):
        cur = _closure_dicts(raw)
        todo = None
        for parent in sorted(cur, key=lambda p: (p.count("{closure#"), p)):
            if parent in done or parent not in base_cl:
                continue
            d, bl = cur[parent], base_cl[parent]
            if all((i < len(bl) and bl[i] == k) for i, k in d.items()) and len(d) == len(bl):
                continue
            idxs = sorted(d)
            pairs = dict(_lcs_pairs([d[i] for i in idxs], bl))
            nxt = max(len(bl), (max(idxs) + 1) if idxs else 0)
            m = {}
            for pos, i in enumerate(idxs):
                if pos in pairs:
                    m[i] = pairs[pos]
                else:
                    m[i] = nxt
                    nxt += 1
            done.add(parent)
            if any(i != j for i, j in m.items()):
                todo = (parent, m)
                break
        if todo is None:
            break
        parent, m = todo
        tmp = text
        pj = json.dumps(parent)[1:-1]
        for i, j in m.items():
            if i != j:
                tmp = tmp.replace(pj + "::{closure#%d}" % i, pj + "::{closure@@%d}" % j)
        text = tmp.replace("{closure@@", "{closure#")
        raw = json.loads(text)
        # a renamed outer closure is a new parent path for its inner closures: map the reference table along
        log.append("closures of %s renumbered to the reference numbering (%s)" % (parent, ", ".join("#%d->#%d" % (i, j) for i, j in sorted(m.items()) if i != j)))
    return text, raw


def apply(text):
    """text of a fact file -> (normalised raw dict, log)."""
    base = baseline()
    log = []
    raw = json.loads(text)
    if not base:
        return raw, log
    ren = detect_renames(raw, base)
    if ren:
        text = rename_text(text, ren)
        raw = json.loads(text)
        for n, m in sorted(ren.items()):
            log.append("function %s is treated as the renamed or moved %s (same kind and signature; same parent or same name)" % (n, m))
    bc = baseline_closures()
    if bc:
        text, raw = renumber_closures(text, raw, bc, log)
    fold_constant_switches(raw, log)
    ba = baseline_adts()
    if ba:
        rename_fields(raw, ba, log)
    inline_new_functions(raw, base, log)
    desugar_bool_then(raw, log)
    desugar_tail_result_map(raw, log)
    desugar_lazy_constants(raw, log)
    return raw, log


if __name__ == "__main__":
    import sys
    import extract
    tab = {}
    for cfg in ("ram", "default"):
        p, th, _ = extract.facts_path(cfg)
        with open(p) as f:
            tab.update(fn_table(json.load(f)))
    with open(TABLE, "w") as f:
        json.dump(tab, f, indent=0, sort_keys=True)
    print("wrote", TABLE, len(tab), "functions")
    at = {}
    for cfg in ("ram", "default"):
        p, th, _ = extract.facts_path(cfg)
        with open(p) as f:
            at.update(adt_table(json.load(f)))
    with open(ADT_TABLE, "w") as f:
        json.dump(at, f, indent=0, sort_keys=True)
    print("wrote", ADT_TABLE, len(at), "structs")
    ct = {}
    for cfg in ("ram", "default"):
        p, th, _ = extract.facts_path(cfg)
        with open(p) as f:
            ct.update(closure_table(json.load(f)))
    with open(CLOSURE_TABLE, "w") as f:
        json.dump(ct, f, indent=0, sort_keys=True)
    print("wrote", CLOSURE_TABLE, len(ct), "functions with closures")
