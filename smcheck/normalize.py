"""Normalisation of the fact base against refactorings that do not change behaviour.

The rules name functions of the analysed crate (their anchors). Two common clean-up commits would
otherwise move code out of the rules' sight without changing what the crate does:

* a private helper is *renamed*: a function that is new with respect to the reference table
  (tables/baseline_fns.json: the functions of the tree the rules were written against) is matched
  with a function of the table that disappeared, has the same parent (module / impl / enclosing fn),
  the same kind and the same signature; if the match is unique both ways the new name is mapped
  back to the old one throughout the fact base;
* a piece of a function is *extracted into a new private helper*: every remaining new function that
  is called directly (not recursive, not used as a function value) is inlined at its call sites -
  the callee's blocks are spliced into the caller's CFG, arguments become assignments to the
  callee's parameter locals, `return` becomes an assignment to the call's destination. This is
  plain MIR inlining; the analysed program is the same program.

On a tree without new functions nothing is changed. Both steps are reported in the evidence.
"""
import copy
import json
import os
import re

HERE = os.path.dirname(os.path.abspath(__file__))
TABLE = os.path.join(HERE, "tables", "baseline_fns.json")

_BASE = None


def baseline():
    global _BASE
    if _BASE is None:
        try:
            with open(TABLE) as f:
                _BASE = json.load(f)
        except OSError:
            _BASE = {}
    return _BASE


def fn_table(raw):
    out = {}
    for b in raw["bodies"]:
        if b.get("promoted") is not None:
            continue
        kind = b["kind"].split(" ")[0]
        if kind not in ("Fn", "AssocFn"):
            continue
        out[b["path"]] = {"kind": kind, "parent": b.get("parent"), "sig": b.get("sig"), "derived": bool(b.get("derived"))}
    return out


def _sig_key(sig):
    return re.sub(r"\s+", " ", sig or "")


def detect_renames(raw, base):
    cur = fn_table(raw)
    new = [p for p in cur if p not in base and not cur[p]["derived"]]
    missing = [p for p in base if p not in cur and not base[p].get("derived")]
    ren = {}
    for n in new:
        cands = [m for m in missing if base[m]["parent"] == cur[n]["parent"] and base[m]["kind"] == cur[n]["kind"] and _sig_key(base[m]["sig"]) == _sig_key(cur[n]["sig"])]
        if len(cands) == 1:
            m = cands[0]
            back = [x for x in new if base[m]["parent"] == cur[x]["parent"] and base[m]["kind"] == cur[x]["kind"] and _sig_key(base[m]["sig"]) == _sig_key(cur[x]["sig"])]
            if len(back) == 1:
                ren[n] = m
    return ren


def rename_text(text, ren):
    for n, m in sorted(ren.items(), key=lambda kv: -len(kv[0])):
        text = re.sub(r"(?<![\w])" + re.escape(n) + r"(?![\w])", m.replace("\\", "\\\\"), text)
        # the last path segment also appears as the bare item name
    return text


# ------------------------------------------------------------------------------------------------
def _remap(o, lmap, bmap, is_term=False):
    if isinstance(o, list):
        return [_remap(x, lmap, bmap) for x in o]
    if not isinstance(o, dict):
        return o
    d = {}
    for k, v in o.items():
        if k == "l" and isinstance(v, int) and not isinstance(v, bool):
            d[k] = lmap(v)
        elif k in ("t", "unwind", "otherwise") and isinstance(v, int) and not isinstance(v, bool) and o.get("k") in ("goto", "switch", "call", "assert", "drop"):
            d[k] = bmap(v)
        elif k == "arms" and o.get("k") == "switch":
            d[k] = [[a[0], bmap(a[1])] for a in v]
        else:
            d[k] = _remap(v, lmap, bmap)
    return d


def _uses_fn_value(raw_bodies, path):
    """Is the function used as a value (fn item passed around) anywhere other than as the callee of a call?"""
    needle = json.dumps(path)

    def walk(o, in_func):
        if isinstance(o, list):
            return any(walk(x, False) for x in o)
        if isinstance(o, dict):
            if o.get("k") == "const" and isinstance(o.get("c"), dict) and o["c"].get("fn") == path and not in_func:
                return True
            for k, v in o.items():
                if walk(v, k == "func"):
                    return True
        return False

    for b in raw_bodies:
        for blk in b["blocks"]:
            if walk(blk["stmts"], False):
                return True
            t = blk["term"]
            for k, v in t.items():
                if k == "func":
                    continue
                if walk(v, False):
                    return True
    return False


def _calls_to(body, path):
    out = []
    for bi, blk in enumerate(body["blocks"]):
        t = blk["term"]
        if t["k"] == "call" and (t.get("resolved") == path or (t.get("callee") == path and not t.get("resolved"))):
            out.append(bi)
    return out


def inline_call(caller, bi, callee):
    t = caller["blocks"][bi]["term"]
    lbase = len(caller["locals"])
    bbase = len(caller["blocks"])
    lmap = lambda l: l + lbase  # noqa: E731
    bmap = lambda b: b + bbase  # noqa: E731
    for loc in callee["locals"]:
        nl = dict(loc)
        nl["i"] = loc["i"] + lbase
        nl["inlined_from"] = callee["path"]
        caller["locals"].append(nl)
    for v in callee.get("vars", []):
        nv = _remap(v, lmap, bmap)
        nv.pop("arg", None)
        nv["inlined_from"] = callee["path"]
        caller["vars"].append(nv)
    span = t.get("span")
    cleanup_here = caller["blocks"][bi]["cleanup"]
    # arguments
    stmts = caller["blocks"][bi]["stmts"]
    for k, a in enumerate(t["args"]):
        pl = {"l": lbase + k + 1, "p": [], "ty": callee["locals"][k + 1]["ty"]}
        stmts.append({"k": "assign", "place": pl, "rv": {"k": "use", "op": a}, "span": span, "inlined_arg": True})
    dest, cont, unwind = t["dest"], t.get("t"), t.get("unwind")
    caller["blocks"][bi]["term"] = {"k": "goto", "t": bbase, "span": span, "inlined_call": callee["path"]}
    for blk in callee["blocks"]:
        nb = _remap(blk, lmap, bmap)
        nb["i"] = blk["i"] + bbase
        nb["cleanup"] = blk["cleanup"] or cleanup_here
        nb["inlined_from"] = callee["path"]
        tt = nb["term"]
        if tt["k"] == "return":
            ret = {"l": lbase, "p": [], "ty": callee["locals"][0]["ty"]}
            nb["stmts"].append({"k": "assign", "place": dest, "rv": {"k": "use", "op": {"k": "move", "place": ret}}, "span": tt.get("span"), "inlined_ret": True})
            nb["term"] = {"k": "goto", "t": cont, "span": tt.get("span")} if cont is not None else {"k": "unreachable", "span": tt.get("span")}
        elif tt["k"] == "resume" and unwind is not None:
            nb["term"] = {"k": "goto", "t": unwind, "span": tt.get("span")}
        caller["blocks"].append(nb)


def inline_new_functions(raw, base, log):
    bodies = [b for b in raw["bodies"] if b.get("promoted") is None]
    by_path = {b["path"]: b for b in bodies}
    cur = fn_table(raw)
    new = [p for p in cur if p not in base and not cur[p]["derived"] and "_::" not in p]
    if not new:
        return
    # candidates: private, not exported, not used as a value
    cand = []
    for p in new:
        b = by_path[p]
        if b.get("exported") or b.get("reachable") or b.get("impl_trait"):
            continue
        if _uses_fn_value(bodies, p):
            continue
        cand.append(p)
    # callee-first order among candidates; drop recursive ones
    calls = {p: set(q for q in cand if _calls_to(by_path[p], q)) for p in cand}
    order = []
    left = set(cand)
    for _ in range(len(cand) + 1):
        ready = [p for p in sorted(left) if not (calls[p] & left)]
        if not ready:
            break
        order += ready
        left -= set(ready)
    for p in order:
        callee = copy.deepcopy(by_path[p])
        n = 0
        for b in raw["bodies"]:
            if b["path"] == p:
                continue
            while True:
                sites = _calls_to(b, p)
                if not sites or n > 200:
                    break
                inline_call(b, sites[0], callee)
                n += 1
        by_path[p]["inlined_away"] = True
        log.append("inlined new private function %s at %d call site(s)" % (p, n))


ADT_TABLE = os.path.join(HERE, "tables", "baseline_adts.json")
_BASE_ADTS = None


def baseline_adts():
    global _BASE_ADTS
    if _BASE_ADTS is None:
        try:
            with open(ADT_TABLE) as f:
                _BASE_ADTS = json.load(f)
        except OSError:
            _BASE_ADTS = {}
    return _BASE_ADTS


def adt_table(raw):
    out = {}
    for a in raw["adts"]:
        if a.get("kind") != "Struct" or len(a.get("variants", [])) != 1:
            continue
        fs = a["variants"][0]["fields"]
        # serde-derived wire structs are excluded: their field names are the wire format
        out[a["path"]] = [[f["name"], f["ty"], not str(f.get("vis", "")).startswith("Public")] for f in fs]
    return out


def rename_fields(raw, base, log):
    """A private field that was merely renamed (same struct, same position, same type, every other
    field unchanged or renamed likewise) is mapped back to the name the rules know. Structs of the
    JSON wire format (module jsontypes) are left alone: there the name is behaviour."""
    cur = adt_table(raw)
    ren = {}
    for path, fields in cur.items():
        if path.startswith("jsontypes::") or path not in base:
            continue
        old = base[path]
        if len(old) != len(fields) or [f[1] for f in old] != [f[1] for f in fields]:
            continue
        for i, (new_f, old_f) in enumerate(zip(fields, old)):
            if new_f[0] != old_f[0] and old_f[2] and new_f[2] and old_f[0] not in [f[0] for f in fields]:
                ren[(path, i)] = (new_f[0], old_f[0])
    if not ren:
        return
    adts = set(p for p, _ in ren)

    def walk(o):
        if isinstance(o, list):
            for x in o:
                walk(x)
        elif isinstance(o, dict):
            if o.get("k") == "field" and o.get("adt") in adts and (o["adt"], o.get("i")) in ren:
                o["n"] = ren[(o["adt"], o["i"])][1]
            if o.get("k") == "agg" and o.get("ak") == "adt" and o.get("adt") in adts and isinstance(o.get("fields"), list):
                o["fields"] = [ren.get((o["adt"], i), (None, n))[1] for i, n in enumerate(o["fields"])]
            for v in o.values():
                walk(v)

    walk(raw["bodies"])
    for a in raw["adts"]:
        if a["path"] in adts:
            for i, f in enumerate(a["variants"][0]["fields"]):
                if (a["path"], i) in ren:
                    f["name"] = ren[(a["path"], i)][1]
    for (path, i), (n, o) in sorted(ren.items()):
        log.append("private field %s.%s is treated as the renamed %s (same position and type)" % (path, n, o))


def apply(text):
    """text of a fact file -> (normalised raw dict, log)."""
    base = baseline()
    log = []
    raw = json.loads(text)
    if not base:
        return raw, log
    ren = detect_renames(raw, base)
    if ren:
        raw = json.loads(rename_text(text, ren))
        for n, m in sorted(ren.items()):
            log.append("function %s is treated as the renamed %s (same parent, kind and signature)" % (n, m))
    ba = baseline_adts()
    if ba:
        rename_fields(raw, ba, log)
    inline_new_functions(raw, base, log)
    return raw, log


if __name__ == "__main__":
    import sys
    import extract
    tab = {}
    for cfg in ("ram", "default"):
        p, th, _ = extract.facts_path(cfg)
        with open(p) as f:
            tab.update(fn_table(json.load(f)))
    with open(TABLE, "w") as f:
        json.dump(tab, f, indent=0, sort_keys=True)
    print("wrote", TABLE, len(tab), "functions")
    at = {}
    for cfg in ("ram", "default"):
        p, th, _ = extract.facts_path(cfg)
        with open(p) as f:
            at.update(adt_table(json.load(f)))
    with open(ADT_TABLE, "w") as f:
        json.dump(at, f, indent=0, sort_keys=True)
    print("wrote", ADT_TABLE, len(at), "structs")
