"""Thorough-tier extras: E3 type-level witnesses and seeded self-validation."""
import glob
import json
import os
import re
import shutil
import subprocess
import tempfile

import extract
from mir import Facts

VERIF = extract.VERIF


def run_witness(ctx, prop):
    """cargo +nightly test --doc on the witness crate (path-depends on /repo's working tree)."""
    want = {"C04": "C04Tokens", "C16": "C16SourceView"}.get(prop)
    if want is None:
        return {}
    wdir = os.path.join(VERIF, "witness")
    env = dict(os.environ, CARGO_NET_OFFLINE="true", CARGO_TARGET_DIR=os.path.join(extract.CACHE, "target-witness"))
    env.pop("RUSTC_WORKSPACE_WRAPPER", None)
    env.pop("RUSTFLAGS", None)
    r = subprocess.run(["cargo", "+nightly", "test", "--doc", "--offline", "--", want], cwd=wdir, env=env, stdout=subprocess.PIPE, stderr=subprocess.STDOUT, text=True)
    out = r.stdout
    tests = re.findall(r"^test (src/lib\.rs - %s \(line \d+\)(?: - compile fail)?) \.\.\. (\w+)" % want, out, re.M)
    rule = "%s.E3" % prop
    if not tests:
        ctx.bad(rule, "witness", "doctests", "the type-level witnesses for %s ran (none did)" % prop, detail=out[-1500:])
        return {"witness": "did not run"}
    for name, res in tests:
        kind = "compile_fail witness" if "compile fail" in name else "compiling twin"
        ctx.check(res == "ok", rule, "witness::" + want, name.split(" - ", 1)[1], "%s behaves as required (rustc itself decides: privacy / trait errors E0616, E0599; Send + Sync bounds)" % kind)
    return {"witness_doctests": len(tests)}


def replay_seeds(ctx, prop, run_rules):
    """Apply each seeded variant that targets this property to a scratch copy of the *current*
    /repo, re-extract facts and require that the property's rules fire. The verdict of the
    check remains the verdict on the unmodified tree; a silent seed is reported as a checker
    regression in the evidence."""
    res = []
    seeds = []
    for meta_path in sorted(glob.glob(os.path.join(VERIF, "seeded", "*", "meta.json"))):
        try:
            meta = json.load(open(meta_path))
        except Exception:  # noqa: BLE001
            continue
        props = [meta.get("property")] + list(meta.get("also_breaks", []))
        if prop in props and prop in meta.get("detected_by", props):
            seeds.append((os.path.dirname(meta_path), meta))
    def one(item):
        sdir, meta = item
        patch = os.path.join(sdir, "patch.diff")
        scratch = tempfile.mkdtemp(prefix="smseed-")
        entry = {"seed": os.path.basename(sdir), "what": meta.get("what", "")[:160]}
        try:
            subprocess.run(["rsync", "-a", "--exclude", "target", "--exclude", ".git", extract.REPO + "/", scratch + "/"], check=True)
            r = subprocess.run(["patch", "-p1", "-s", "-f", "-d", scratch, "-i", patch], stdout=subprocess.PIPE, stderr=subprocess.STDOUT, text=True)
            if r.returncode != 0:
                entry["status"] = "skipped (patch does not apply to the current tree)"
                return entry
            wid = slots.get()
            try:
                # one cache (with its warm cargo target directory) per worker: the extractions run side by side
                fpath, th, _ = extract.facts_path("ram", repo=scratch, cache=os.path.join(extract.CACHE, "seedw%d" % wid))
            except extract.ExtractError as e:
                entry["status"] = "skipped (variant does not compile: %s)" % str(e)[:120]
                return entry
            finally:
                slots.put(wid)
            c2 = run_rules(prop, Facts(fpath), "quick")
            fired = [o for o in c2.obligations if o["status"] != "held"]
            entry["status"] = "fired" if fired else "SILENT (checker regression)"
            entry["rules_fired"] = sorted(set(o["rule"] for o in fired))[:8]
            entry["first"] = fired[0]["what"][:200] if fired else None
            try:
                os.unlink(fpath)
            except OSError:
                pass
        finally:
            shutil.rmtree(scratch, ignore_errors=True)
        return entry

    from concurrent.futures import ThreadPoolExecutor
    import queue as _queue
    workers = max(1, min(6, (os.cpu_count() or 2) // 2))
    slots = _queue.Queue()
    for k in range(workers):
        slots.put(k)
    with ThreadPoolExecutor(max_workers=workers) as ex:
        res = list(ex.map(one, seeds))
    silent = [e for e in res if e["status"].startswith("SILENT")]
    for e in silent:
        print("SELFTEST-REGRESSION: property=%s seed=%s stayed silent" % (prop, e["seed"]))
    return {"seeds_replayed": res, "seeds_fired": len([e for e in res if e["status"] == "fired"]), "seeds_silent": len(silent)}


def clippy_xref(ctx, prop):
    """C05 thorough: cross-reference of the MIR site enumeration with rustc/clippy's opt-in lints
    (arithmetic_side_effects, indexing_slicing, string_slice, unwrap_used, expect_used, panic):
    every location the lints flag in the library must be among the enumerated panic sites.
    This validates the *completeness* of the enumeration; the lints give no verdict themselves."""
    if prop != "C05":
        return {}
    import panics
    env = dict(os.environ, CARGO_NET_OFFLINE="true", CARGO_TARGET_DIR=os.path.join(extract.CACHE, "target-clippy"))
    env.pop("RUSTC_WORKSPACE_WRAPPER", None)
    env.pop("RUSTFLAGS", None)
    lints = ["arithmetic_side_effects", "indexing_slicing", "string_slice", "unwrap_used", "expect_used", "panic"]
    cmd = ["cargo", "+nightly", "clippy", "--offline", "--lib", "--features", "ram_bundle", "--message-format=json", "--", "-A", "clippy::all"]
    for l in lints:
        cmd += ["-W", "clippy::" + l]
    # force a re-lint of the crate
    import glob as _g
    for f in _g.glob(os.path.join(env["CARGO_TARGET_DIR"], "debug", ".fingerprint", "sourcemap-*")):
        shutil.rmtree(f, ignore_errors=True)
    r = subprocess.run(cmd, cwd=extract.REPO, env=env, stdout=subprocess.PIPE, stderr=subprocess.DEVNULL, text=True)
    locs = set()
    for line in r.stdout.splitlines():
        try:
            m = json.loads(line)
        except ValueError:
            continue
        if m.get("reason") != "compiler-message":
            continue
        msg = m["message"]
        code = (msg.get("code") or {}).get("code") or ""
        if not code.startswith("clippy::"):
            continue
        for sp in msg["spans"]:
            if sp.get("is_primary"):
                locs.add((sp["file_name"].split("src/")[-1], sp["line_start"], code))
    if not locs:
        ctx.remark("clippy cross-reference produced no lint output (clippy unavailable?); skipped")
        return {"clippy_xref": "skipped"}
    mir_lines = set()
    for b in ctx.facts.bodies:
        if b.promoted is not None or b.derived:
            continue
        for s in panics.sites_of(b):
            for ln in range(s.span["l0"], s.span["l1"] + 1):
                mir_lines.add((s.span["file"].split("src/")[-1], ln))
    miss = sorted(x for x in locs if (x[0], x[1]) not in mir_lines)
    ctx.check(not miss, "C05.X", "crate", "clippy-xref",
              "every location flagged by the opt-in clippy lints %s is among the enumerated MIR panic sites (%d locations)" % (lints, len(locs)), detail=str(miss[:6]))
    return {"clippy_xref": {"lint_locations": len(locs), "not_in_mir_enumeration": len(miss)}}
