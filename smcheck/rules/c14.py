"""C14 - Hermes maps resolve tokens to the enclosing function their metadata describes."""
from rules import bldrules, decoderrules, detrules, encrules
from rules.common import run_rules

EXPLANATION = ("C14: (R1) the function-map decoder's running state (column reset per ';' piece, name index and 1-based line "
               "global, values consumed in the order column/name/line, parse errors confined to one source); (R2) the scope "
               "lookup key (original line + 1, original column) agrees with the order of the offsets, name read with get; "
               "(R3) bytecode-offset and DecodedMap plumbing; (R4) raw metadata retained, re-emitted and permuted on rewrite; "
               "(R5) panic-freedom."
               " (R6) decode_hermes hands the raw map to decode_regular as parsed; (R7) kind dispatch."
               " (R8) the encoder drops only exact duplicate tokens, so the Hermes function-map permutation indexes the sources actually written.")
NOT_DECIDED = "agreement with Metro's consumer on all metadata strings (value-level)."

RULES = {
    # "answers unchanged by serialising and decoding again": the writer drops exact duplicates only
    "C14.R8": lambda ctx: __import__("rules.encrules", fromlist=["x"]).only_duplicates_skipped(ctx, "C14.R8"),
    "C14.RG": lambda ctx: __import__("rules.foundations", fromlist=["x"]).no_global_state(ctx, "C14.RG"),
    "C14.R7": lambda ctx: __import__("rules.decoderrules", fromlist=["x"]).dispatch(ctx, "C14.R7"),
    "C14.R6": lambda ctx: __import__("rules.decoderrules", fromlist=["x"]).hermes_regular_part(ctx, "C14.R6"),
    "C14.RL": lambda ctx: __import__("rules.common", fromlist=["x"]).loop_exit_rule(ctx, "C14.RL", {'hermes::decode_hermes': 0}),
    "C14.R1": lambda ctx: detrules.hermes_state(ctx, "C14.R1"),
    "C14.R2": lambda ctx: detrules.hermes_lookup(ctx, "C14.R2"),
    "C14.R4": lambda ctx: decoderrules.field_coverage(ctx, "C14.R4"),
    "C14.R4d": lambda ctx: encrules.version(ctx, "C14.R4d"),
    "C14.R4b": lambda ctx: bldrules.hermes_permutation(ctx, "C14.R4b"),
    "C14.R4c": lambda ctx: encrules.serde_symmetry(ctx, "C14.R4c"),
    "C14.R0": lambda ctx: __import__("rules.foundations", fromlist=["x"]).accessors(ctx, "C14.R0", ['types::Token']),
    "C14.R5": lambda ctx: detrules.hermes_pf(ctx, "C14.R5"),
}


def check(ctx):
    run_rules(ctx, RULES)
