"""C18 - maps can be found from generated files and embedded as data URLs."""
import pf
from rules import detrules
from rules.common import run_rules

EXPLANATION = ("C18: (R1) the comment scan: the two 21-byte prefixes, slice reached exactly under their disjunction (all four "
               "combinations), trim, legacy flag, first match returns; (R2) producer/consumer pairing of the data URL: the "
               "literal prefix of to_data_url's format template must be among the preambles decode_data_url strips, and both "
               "sides use the standard padded base64 alphabet; (R3) data: references go to decode_data_url; (R4) the detection "
               "predicate, evaluated over all 256 key-presence combinations, is true for what each writer always writes; (R8) the reader form of the predicate passes a header-less document through the streaming stripper unchanged whatever the chunking; (R9) the consumer of the data URL is the regular decoder (accumulators, range-mapping reader: shared with C02)."
               " (R0, R0b) the accessor table and the encoder's duplicate-skip (the data-URL round trip writes through them)."
               " (R9c/R9d) the VLQ reader accepts the writer's whole range and (R9e) decode_regular rejects only for the reviewed reasons, so the data URL the library writes is one it reads."
               " (R10) the root-joined name cache stays coherent with root and raw names, so the map that is written is the map that is shown.")
NOT_DECIDED = "first-match over all texts as a value-level statement (BufRead::lines is trusted); equality of the decoded map."


def r5(ctx):
    paths = [detrules.LOCATE, "detector::locate_sourcemap_reference_slice", "detector::SourceMapRef::get_embedded_sourcemap", "detector::SourceMapRef::get_url", "detector::SourceMapRef::resolve",
             "decoder::decode_data_url", "types::SourceMap::to_data_url", "detector::is_sourcemap_common", "detector::is_sourcemap_impl", "detector::is_sourcemap_slice_impl",
             "detector::is_sourcemap", "detector::is_sourcemap_slice"]
    pf.check_bodies(ctx, "C18.R5", [ctx.body(p) for p in paths] + list(ctx.facts.closures_of("decoder::decode_data_url")))


RULES = {
    # what is written is raw names + root: the names the map shows must stay coherent with them after set_source_root /
    # set_source, or the data URL decodes to a map with other sources
    "C18.R10": lambda ctx: __import__("rules.bldrules", fromlist=["x"]).cache_coherence(ctx, "C18.R10"),
    "C18.RG": lambda ctx: __import__("rules.foundations", fromlist=["x"]).no_global_state(ctx, "C18.RG"),
    # the data-URL round trip writes through the accessors and iterators of the map
    "C18.R0": lambda ctx: __import__("rules.foundations", fromlist=["x"]).accessors(ctx, "C18.R0", None),
    "C18.R0b": lambda ctx: __import__("rules.encrules", fromlist=["x"]).only_duplicates_skipped(ctx, "C18.R0b"),
    "C18.RL": lambda ctx: __import__("rules.common", fromlist=["x"]).loop_exit_rule(ctx, "C18.RL", {'detector::locate_sourcemap_reference': 2}),
    "C18.R1": lambda ctx: detrules.comment_scan(ctx, "C18.R1"),
    "C18.R2": lambda ctx: detrules.data_url_pairing(ctx, "C18.R2"),
    "C18.R3": lambda ctx: detrules.embedded(ctx, "C18.R3"),
    "C18.R4": lambda ctx: detrules.detection(ctx, "C18.R4"),
    "C18.R5": r5,
    "C18.R6": lambda ctx: __import__("rules.decoderrules", fromlist=["x"]).handover(ctx, "C18.R6"),
    "C18.R7": lambda ctx: __import__("rules.encrules", fromlist=["x"]).optional_keys(ctx, "C18.R7"),
    "C18.R7b": lambda ctx: __import__("rules.encrules", fromlist=["x"]).serde_symmetry(ctx, "C18.R7b"),
    # the reader form of the detection predicate (and decode) reads through StripHeaderReader: a serialised map must
    # pass it unchanged however it is chunked
    "C18.R8a": lambda ctx: __import__("rules.hdrrules", fromlist=["x"]).stream_expected(ctx, "C18.R8a") and None,
    "C18.R8b": lambda ctx: __import__("rules.hdrrules", fromlist=["x"]).chunk_independence(ctx, "C18.R8b"),
    # the consumer side of the data URL is the regular decoder: its accumulators and the range-mapping reader
    "C18.R9a": lambda ctx: __import__("rules.decoderrules", fromlist=["x"]).accumulators(ctx, "C18.R9a"),
    "C18.R9b": lambda ctx: __import__("rules.decoderrules", fromlist=["x"]).range_reader(ctx, "C18.R9b"),
    # ... the VLQ reader must accept everything the writer emits (differences of two u32), and the decoder must not
    # reject for a reason of its own
    "C18.R9c": lambda ctx: __import__("rules.vlqrules", fromlist=["x"]).reader_shape(ctx, "C18.R9c"),
    "C18.R9d": lambda ctx: __import__("rules.vlqrules", fromlist=["x"]).writer_shape(ctx, "C18.R9d"),
    "C18.R9e": lambda ctx: __import__("rules.decoderrules", fromlist=["x"]).rejections_exact(ctx, "C18.R9e"),
}


def check(ctx):
    run_rules(ctx, RULES)
