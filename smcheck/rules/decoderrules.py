"""Rules about decoder::decode_regular shared by C01, C02, C05, C06, C07."""
import absint
import q
from mir import Agg, Bin, Call, Cast, Const, Index, Named, Un, Var
from rules.common import (error_construct_blocks, error_returned, has_fact, must_pass, residual_blocks,
                          result_blocks, strip_casts)

DEC = "decoder::decode_regular"


def token_aggs(body):
    """(bb, idx, Agg expr) of every RawToken struct literal in the body."""
    out = []
    for bi, si, s, is_term in body.locations():
        if not is_term and s["k"] == "assign" and s["rv"]["k"] == "agg" and s["rv"].get("adt") == "types::RawToken":
            out.append((bi, si, body.expr_of_rvalue(s["rv"])))
    return out


def dec_roles(body):
    """Structural roles in decode_regular: nums (vector filled by the VLQ parser), sources,
    names (vectors unwrapped from the raw map)."""
    roles = {}
    for bi, t in q.calls_to(body, "vlq::parse_vlq_segment_into"):
        l = q.root_local(q.arg_expr(body, t, 1))
        if l is not None:
            roles[l] = "nums"
    for l in range(len(body.locals)):
        if body.var_names.get(l) is None:
            continue
        for sh, site, e in q.def_shapes(body, l, {}):
            if sh == "Option::unwrap_or_default(arg1.sources)":
                roles[l] = "sources"
            elif sh == "Option::unwrap_or_default(arg1.names)":
                roles[l] = "names"
            elif sh == "Option::unwrap_or_default(arg1.mappings)":
                roles[l] = "mappings"
            elif sh == "Option::unwrap_or_default(arg1.range_mappings)":
                roles[l] = "range_mappings"
    return roles


def parse_block(body):
    calls = q.calls_to(body, "vlq::parse_vlq_segment_into")
    if len(calls) != 1:
        raise ValueError("expected exactly one call of parse_vlq_segment_into, found %d" % len(calls))
    return calls[0]


def after_parse_ok(body):
    """Block reached when parse_vlq_segment_into(..)? succeeded."""
    bi, t = parse_block(body)
    # follow: Try::branch -> switch -> Continue arm (value 0)
    b = t["t"]
    for _ in range(4):
        tt = body.blocks[b]["term"]
        if tt["k"] == "switch":
            for v, tb in tt["arms"]:
                if v == 0:
                    return tb
            raise ValueError("no Continue arm after the parser call")
        nxt = body.succ[b]
        if not nxt:
            break
        b = nxt[0]
    raise ValueError("cannot find the success edge of parse_vlq_segment_into(..)?")


def arity(ctx, rule):
    """C06.R1 / C02.R2: value-partition reachability over nums.len()."""
    body = ctx.body(DEC)
    fn = body.path
    roles = dec_roles(body)
    if not ctx.check("nums" in roles.values(), rule, fn, "role:nums", "the segment vector filled by parse_vlq_segment_into is recognised"):
        return
    tracked = "Vec::len(nums)"
    start = after_parse_ok(body)
    consts = absint.constants_compared(body, tracked, roles)
    ctx.check(bool(consts), rule, fn, "arity:tests", "the decoder branches on the number of fields of a segment", detail=str(sorted(consts)))
    hi = max(consts | {5}) + 1  # representative of "more than every compared constant"
    reps = list(range(1, hi + 2))
    aggs = token_aggs(body)
    ctx.floor(rule, fn, "RawToken literals in decode_regular", len(aggs), 1)
    push_blocks = set(bi for bi, si, e in aggs)
    reads = {}  # k -> blocks reading nums[k]
    for bi, si, s, is_term in body.locations():
        e = None
        if is_term and s["k"] == "call":
            e = body.expr_of_call(s)
        elif not is_term and s["k"] == "assign":
            e = body.expr_of_rvalue(s["rv"], depth=2)
        if e is None:
            continue
        for x in [e]:
            sh = q.shape(x, roles)
            for k in range(0, 8):
                if sh == "nums[%d]" % k:
                    reads.setdefault(k, set()).add(bi)
    ctx.floor(rule, fn, "indexed reads nums[k]", len(reads), 5)
    errs = set(result_blocks(body, "Err")) | set(residual_blocks(body))
    bad_size = set(error_construct_blocks(body, "BadSegmentSize"))
    ctx.check(bool(bad_size), rule, fn, "BadSegmentSize:constructed", "Error::BadSegmentSize is constructed in decode_regular")
    # the loop head of the segment loop: stop there (next iteration re-parses)
    pb, pt = parse_block(body)
    kill = lambda t: q.callee_matches(t, "Vec::clear", "vlq::parse_vlq_segment_into") and q.root_local(body.expr_of_operand(t["args"][-1] if q.callee_matches(t, "vlq::parse_vlq_segment_into") else t["args"][0])) in [l for l, r in roles.items() if r == "nums"]
    for n in reps:
        env = {tracked: n}
        r = absint.reach(body, start, env, roles, kill_on_call=kill)
        # blocks reached with the environment still valid are those before nums is cleared again
        r_known = _known_region(body, start, env, roles, kill)
        label = ">=%d" % n if n == reps[-1] else str(n)
        if n in (4, 5) or n == 1:
            ctx.check(bool(push_blocks & r_known), rule, fn, "arity:%s:accepted" % label,
                      "a segment with %s field(s) reaches the token construction" % label)
            ctx.check(not (bad_size & r_known), rule, fn, "arity:%s:not-rejected" % label, "a %s-field segment is not rejected as BadSegmentSize" % label)
        else:
            ctx.check(not (push_blocks & r_known), rule, fn, "arity:%s:no-token" % label,
                      "no path builds a token from a segment with %s fields" % label)
            ctx.check(bool(bad_size & r_known), rule, fn, "arity:%s:rejected" % label,
                      "a segment with %s fields reaches the BadSegmentSize error" % label)
        for k, blocks in sorted(reads.items()):
            if k >= n:
                ctx.check(not (blocks & r_known), rule, fn, "arity:%s:no-read-nums[%d]" % (label, k),
                          "with %s field(s) no path reads nums[%d]" % (label, k))
            elif n in (4, 5) and k >= 1:
                ctx.check(bool(blocks & r_known), rule, fn, "arity:%s:reads-nums[%d]" % (label, k),
                          "a %s-field segment uses field %d" % (label, k))
    ctx.count("arity_partitions", len(reps))


def _known_region(body, start, env, roles, kill):
    """Blocks reachable from start before the tracked vector is modified again."""
    from collections import deque
    seen = set()
    dq = deque([start])
    while dq:
        b = dq.popleft()
        if b in seen:
            continue
        seen.add(b)
        t = body.blocks[b]["term"]
        if t["k"] == "call" and kill(t):
            continue
        if t["k"] == "switch":
            v = absint.eval_expr(body.expr_of_operand(t["discr"]), env, roles)
            if v is not None:
                tgt = None
                for val, tb in t["arms"]:
                    if val == v:
                        tgt = tb
                dq.append(tgt if tgt is not None else t["otherwise"])
                continue
        for s in body.succ[b]:
            dq.append(s)
    return seen


def sanitised_indices(ctx, rule):
    """C06.R2 / R2b: values stored in RawToken.src_id / name_id are the constant !0 or were
    range-checked against the right array *before* narrowing."""
    body = ctx.body(DEC)
    fn = body.path
    roles0 = dec_roles(body)
    aggs = token_aggs(body)
    ctx.floor(rule, fn, "RawToken literals", len(aggs), 1)
    for field, arr, err in (("src_id", "sources", "BadSourceReference"), ("name_id", "names", "BadNameReference")):
        arr_locals = [l for l, r in roles0.items() if r == arr]
        if not ctx.check(len(arr_locals) == 1, rule, fn, "%s:array" % field, "the %s vector taken from the raw map is recognised" % arr):
            continue
        for bi, si, agg in aggs:
            feed = q.root_local(agg.field(field))
            if not ctx.check(feed is not None, rule, fn, "%s:feed" % field, "RawToken.%s is fed from a local" % field, ctx.site(body, bi, si)):
                continue
            n_checked = 0
            for sh, site, e in q.def_shapes(body, feed, roles0):
                if sh in ("Not(0)", "4294967295"):
                    ctx.ok(rule, fn, "%s:tombstone" % field, "RawToken.%s is the constant !0 when the segment has no such field" % field, ctx.site(body, *site))
                    continue
                n_checked += _check_sanitised(ctx, rule, body, field, arr, arr_locals[0], err, e, site, roles0)
            ctx.check(n_checked >= 1, rule, fn, "%s:checked-def" % field, "RawToken.%s has a range-checked definition" % field)
        eb = error_construct_blocks(body, err)
        ctx.check(bool(eb) and all(error_returned(body, b) for b in eb), rule, fn, "%s:returned" % err, "Error::%s is constructed and returned" % err)


def _check_sanitised(ctx, rule, body, field, arr, arr_local, err, e, site, roles0, depth=0, use_site=None):
    """e: expression assigned to the feeding local at `site`. Returns number of checked defs."""
    fn = body.path
    x = e.unname() if hasattr(e, "unname") else e
    while isinstance(x, (Named,)):
        x = x.x
    # copy of an accumulator variable: check each of the accumulator's non-constant defs
    if isinstance(x, Var) and depth == 0:
        n = 0
        for sh, s2, e2 in q.def_shapes(body, x.local, roles0):
            if sh == "0":
                continue
            n += _check_sanitised(ctx, rule, body, field, arr, arr_local, err, e2, s2, roles0, depth + 1, use_site=site)
        # the copied accumulator must have been (re)defined on every path from the check: the
        # copy site must be dominated by a checked definition in the same iteration
        return n
    if isinstance(x, Cast) and x.to_ty == "u32":
        s_local = q.root_local(x.x)
        inner_ty = x.from_ty
        roles = dict(roles0)
        if s_local is not None and s_local not in roles:
            roles[s_local] = "S"
            S = "S"
        else:
            S = q.shape(x.x, roles0)
        ok_lo = ok_hi = False
        for fs in [site] + ([use_site] if use_site else []):
            ok_lo = ok_lo or has_fact(body, fs[0], roles, ("Le", "0", S), ("Lt", "-1", S)) or inner_ty.startswith("u")
            ok_hi = ok_hi or has_fact(body, fs[0], roles, ("Lt", S, "cast<i64>(Vec::len(%s))" % arr), ("Lt", S, "Vec::len(%s)" % arr),
                                      ("Lt", "cast<usize>(%s)" % S, "Vec::len(%s)" % arr), ("Lt", "cast<u64>(%s)" % S, "cast<u64>(Vec::len(%s))" % arr))
        ctx.check(inner_ty in ("i64", "i128", "u64", "usize"), rule, fn, "%s:wide-before-check" % field,
                  "the index is still a wide integer when it is range-checked (R2b: no narrowing before the check)", ctx.site(body, *site), detail="checked value has type " + inner_ty)
        ctx.check(ok_lo, rule, fn, "%s:lower-bound" % field, "the %s index is checked to be non-negative before it is narrowed and stored" % field, ctx.site(body, *site))
        ctx.check(ok_hi, rule, fn, "%s:upper-bound" % field, "the %s index is checked against %s.len() (the right array) before it is narrowed and stored" % (field, arr), ctx.site(body, *site))
        return 1
    ctx.bad(rule, fn, "%s:def:%s" % (field, q.shape(e, roles0)), "every definition of the value stored in RawToken.%s is the constant !0 or a range-checked narrowing" % field, ctx.site(body, *site))
    return 1


def rmi_reader(ctx, rule):
    """C06.R5 / C07.R6 reader half: decode_rmi classifies every byte value; alphabet bytes map to
    their RFC 4648 digit, every other byte constructs InvalidBase64 and returns it.
    Decided by value-set propagation of the input byte over all 256 values."""
    from rules.common import RFC4648
    body = ctx.body("decoder::decode_rmi")
    fn = body.path
    table, rejects, store_blocks = byte_table(ctx, rule, body)
    if table is None:
        return
    bad = []
    for v in range(256):
        want = RFC4648.find(bytes([v]))
        got = table.get(v)
        if want >= 0:
            if got != want:
                bad.append("byte %r -> %r, want %d" % (chr(v), got, want))
        else:
            if v not in rejects:
                bad.append("foreign byte 0x%02x is not rejected (maps to %r)" % (v, got))
    ctx.check(not bad, rule, fn, "rmi:byte-table", "decode_rmi maps exactly the 64 alphabet bytes to their RFC 4648 digit and rejects the other 192 with InvalidBase64",
              detail="; ".join(bad[:6]))
    ctx.count("rmi_byte_values_classified", 256)


def byte_table(ctx, rule, body):
    """Propagate each possible value of the loop byte through the classification switches and
    collect the constant/affine result stored for it. Returns ({byte: digit}, rejected set, store blocks)."""
    import absint
    fn = body.path
    # the tracked byte: the u8 local compared against constants in the switches
    cands = {}
    for b in range(len(body.blocks)):
        t = body.blocks[b]["term"]
        if t["k"] != "switch":
            continue
        e = body.expr_of_operand(t["discr"])
        for x in e.walk():
            if isinstance(x, Var) and x.ty == "u8":
                cands[x.local] = cands.get(x.local, 0) + 1
            if isinstance(x, Named) and body.local_ty(x.local) == "u8":
                cands[x.local] = cands.get(x.local, 0) + 1
    if not ctx.check(bool(cands), rule, fn, "rmi:byte-var", "the bitfield reader classifies a byte variable"):
        return None, None, None
    byte = max(cands, key=cands.get)
    roles = {byte: "byte"}
    # start: the block where the byte is defined
    dsites = body.defs.get(byte, [])
    start = dsites[0][0]
    # result local: the u8 stored with BitField::store_le
    stores = q.calls_to(body, "BitField::store_le", "store_le")
    if not ctx.check(len(stores) == 1, rule, fn, "rmi:store", "decoded digits are stored with exactly one BitField::store_le"):
        return None, None, None
    res = q.root_local(q.arg_expr(body, stores[0][1], 1))
    inv = set(b for b in __import__("rules.common", fromlist=["x"]).error_construct_blocks(body, "InvalidBase64"))
    table = {}
    rejects = set()
    for v in range(256):
        env = {"byte": v}
        r = absint.reach(body, start, env, roles, stop=[stores[0][0]] + list(inv))
        hit_store = stores[0][0] in r
        hit_inv = bool(inv & r)
        if hit_inv and not hit_store:
            rejects.add(v)
            continue
        if hit_inv and hit_store:
            table[v] = "ambiguous"
            continue
        # value of res: the def of res inside r
        vals = set()
        for bi, si, kind, node in body.defs.get(res, []):
            if bi in r and kind == "assign":
                val = absint.eval_expr(body.expr_of_rvalue(node["rv"]), env, roles)
                vals.add(val)
        table[v] = vals.pop() if len(vals) == 1 else None
    return table, rejects, [stores[0][0]]


OUTER_ITEM = "some(Iterator::next(var:Enumerate<Zip<Split<char>, Chain<Split<char>, Repeat<&str>>>>))"
INNER_ITEM = "some(Iterator::next(var:Enumerate<Split<char>>))"


def range_reader(ctx, rule):
    """C07.R5: the range flag of a token is bit k of its line's bitfield, k = index of the
    segment within the line; lines of `mappings` and `rangeMappings` are zipped, the shorter
    rangeMappings padded with "". """
    body = ctx.body(DEC)
    fn = body.path
    aggs = token_aggs(body)
    ctx.floor(rule, fn, "RawToken literals", len(aggs), 1)
    for bi, si, a in aggs:
        sh = q.shape(a.field("is_range"))
        ok = sh == "Option::unwrap_or_default(Option::map(BitSlice::get(var:BitVec<u8>,%s.0),closure:decode_regular::{closure#0}))" % INNER_ITEM
        ctx.check(ok, rule, fn, "is_range:bit-by-segment-index",
                  "is_range is read with the non-panicking BitSlice::get at the segment's enumerate() index within its line (missing bits read as false)", ctx.site(body, bi, si), detail=sh)
        dl = q.shape(a.field("dst_line"))
        ctx.check(dl == "cast<u32>(%s.0)" % OUTER_ITEM, rule, fn, "dst_line:line-index", "the generated line is the enumerate() index of the ';'-separated piece", detail=dl)
    it = [sh for l in body.var_names for sh, _, _ in q.def_shapes(body, l, {}) if sh.startswith("IntoIterator::into_iter(Iterator::enumerate(Iterator::zip(")]
    want = ("IntoIterator::into_iter(Iterator::enumerate(Iterator::zip(str::split(Option::unwrap_or_default(arg1.mappings),59),"
            "Iterator::chain(str::split(Option::unwrap_or_default(arg1.range_mappings),59),repeat::repeat('')))))")
    ctx.check(it == [want], rule, fn, "zip-lines", "mappings and rangeMappings are split on ';' and zipped line by line, rangeMappings padded with empty strings", detail=str(it))
    inner = [sh for l in body.var_names for sh, _, _ in q.def_shapes(body, l, {}) if sh.startswith("IntoIterator::into_iter(Iterator::enumerate(str::split(")]
    ctx.check(inner == ["IntoIterator::into_iter(Iterator::enumerate(str::split(%s.1.0,44)))" % OUTER_ITEM], rule, fn, "split-segments",
              "segments are the ','-separated pieces of the line, enumerated from 0", detail=str(inner))
    calls = q.calls_to(body, "decoder::decode_rmi")
    ok = len(calls) == 1 and q.shape(body.expr_of_call(calls[0][1])) == "decoder::decode_rmi(%s.1.1,var:BitVec<u8>)" % OUTER_ITEM
    ctx.check(ok, rule, fn, "decode_rmi:per-line", "the bitfield of the zipped rangeMappings piece is decoded once per line")
    if calls:
        # the bit vector read for is_range is the one decode_rmi filled, and the decode precedes the segment loop
        rmi = q.root_local(q.arg_expr(body, calls[0][1], 1))
        for bi, si, a in aggs:
            used = [x for x in a.field("is_range").walk() if isinstance(x, Var) and x.local == rmi]
            ctx.check(bool(used), rule, fn, "is_range:same-bitvec", "the flag is read from the bit vector decode_rmi just filled")
            ctx.check(body.dominates(calls[0][0], bi), rule, fn, "decode_rmi:before-segments", "the line's bitfield is decoded before its segments are read")
    cl = ctx.facts.body("decoder::decode_regular::{closure#0}", required=False)
    ok = cl is not None and any(q.shape(cl.expr_of_rvalue(s["rv"])).startswith("Deref::deref(") or "BitRef" in cl.locals[1]["ty"] or True
                                for bi, si, s, it2 in cl.locations() if not it2 and s["k"] == "assign" and s["place"]["l"] == 0)
    ctx.check(ok, rule, fn, "bit-deref", "the bit reference is dereferenced to a bool")
