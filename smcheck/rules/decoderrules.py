"""Rules about decoder::decode_regular shared by C01, C02, C05, C06, C07."""
import absint
import q
from mir import Agg, Bin, Call, Cast, Const, Index, Named, Un, Var
from rules.common import (error_construct_blocks, error_returned, has_fact, must_pass, residual_blocks,
                          result_blocks, strip_casts)

DEC = "decoder::decode_regular"


def token_aggs(body):
    """(bb, idx, Agg expr) of every RawToken struct literal in the body."""
    out = []
    for bi, si, s, is_term in body.locations():
        if not is_term and s["k"] == "assign" and s["rv"]["k"] == "agg" and s["rv"].get("adt") == "types::RawToken":
            out.append((bi, si, body.expr_of_rvalue(s["rv"])))
    return out


def dec_roles(body):
    """Structural roles in decode_regular: nums (vector filled by the VLQ parser), sources,
    names (vectors unwrapped from the raw map)."""
    roles = {}
    for bi, t in q.calls_to(body, "vlq::parse_vlq_segment_into"):
        l = q.root_local(q.arg_expr(body, t, 1))
        if l is not None:
            roles[l] = "nums"
    for l in range(len(body.locals)):
        if body.var_names.get(l) is None:
            continue
        for sh, site, e in q.def_shapes(body, l, {}):
            if sh == "Option::unwrap_or_default(arg1.sources)":
                roles[l] = "sources"
            elif sh == "Option::unwrap_or_default(arg1.names)":
                roles[l] = "names"
            elif sh == "Option::unwrap_or_default(arg1.mappings)":
                roles[l] = "mappings"
            elif sh == "Option::unwrap_or_default(arg1.range_mappings)":
                roles[l] = "range_mappings"
    return roles


def parse_block(body):
    calls = q.calls_to(body, "vlq::parse_vlq_segment_into")
    if len(calls) != 1:
        raise ValueError("expected exactly one call of parse_vlq_segment_into, found %d" % len(calls))
    return calls[0]


def after_parse_ok(body):
    """Block reached when parse_vlq_segment_into(..)? succeeded."""
    bi, t = parse_block(body)
    # follow: Try::branch -> switch -> Continue arm (value 0)
    b = t["t"]
    for _ in range(4):
        tt = body.blocks[b]["term"]
        if tt["k"] == "switch":
            for v, tb in tt["arms"]:
                if v == 0:
                    return tb
            if [v for v, _ in tt["arms"]] == [1]:
                return tt["otherwise"]  # `if let Err(e) = parse(..) { return Err(e) }`: success is the other edge
            raise ValueError("no Continue arm after the parser call")
        nxt = body.succ[b]
        if not nxt:
            break
        b = nxt[0]
    raise ValueError("cannot find the success edge of parse_vlq_segment_into(..)?")


def arity(ctx, rule):
    """C06.R1 / C02.R2: value-partition reachability over nums.len()."""
    body = ctx.body(DEC)
    fn = body.path
    roles = dec_roles(body)
    if not ctx.check("nums" in roles.values(), rule, fn, "role:nums", "the segment vector filled by parse_vlq_segment_into is recognised"):
        return
    tracked = "Vec::len(nums)"
    start = after_parse_ok(body)
    consts = absint.constants_compared(body, tracked, roles)
    ctx.check(bool(consts), rule, fn, "arity:tests", "the decoder branches on the number of fields of a segment", detail=str(sorted(consts)))
    hi = max(consts | {5}) + 1  # representative of "more than every compared constant"
    reps = list(range(1, hi + 2))
    aggs = token_aggs(body)
    ctx.floor(rule, fn, "RawToken literals in decode_regular", len(aggs), 1)
    push_blocks = set(bi for bi, si, e in aggs)
    reads = {}  # k -> blocks reading nums[k]
    for bi, si, s, is_term in body.locations():
        e = None
        if is_term and s["k"] == "call":
            e = body.expr_of_call(s)
        elif not is_term and s["k"] == "assign":
            e = body.expr_of_rvalue(s["rv"], depth=2)
        if e is None:
            continue
        for x in [e]:
            sh = q.shape(x, roles)
            for k in range(0, 8):
                if sh == "nums[%d]" % k:
                    reads.setdefault(k, set()).add(bi)
    ctx.floor(rule, fn, "indexed reads nums[k]", len(reads), 5)
    errs = set(result_blocks(body, "Err")) | set(residual_blocks(body))
    bad_size = set(error_construct_blocks(body, "BadSegmentSize"))
    ctx.check(bool(bad_size), rule, fn, "BadSegmentSize:constructed", "Error::BadSegmentSize is constructed in decode_regular")
    # the loop head of the segment loop: stop there (next iteration re-parses)
    pb, pt = parse_block(body)
    kill = lambda t: q.callee_matches(t, "Vec::clear", "vlq::parse_vlq_segment_into") and q.root_local(body.expr_of_operand(t["args"][-1] if q.callee_matches(t, "vlq::parse_vlq_segment_into") else t["args"][0])) in [l for l, r in roles.items() if r == "nums"]
    for n in reps:
        env = {tracked: n}
        r = absint.reach(body, start, env, roles, kill_on_call=kill)
        # blocks reached with the environment still valid are those before nums is cleared again
        r_known = _known_region(body, start, env, roles, kill)
        label = ">=%d" % n if n == reps[-1] else str(n)
        if n in (4, 5) or n == 1:
            ctx.check(bool(push_blocks & r_known), rule, fn, "arity:%s:accepted" % label,
                      "a segment with %s field(s) reaches the token construction" % label)
            ctx.check(not (bad_size & r_known), rule, fn, "arity:%s:not-rejected" % label, "a %s-field segment is not rejected as BadSegmentSize" % label)
        else:
            ctx.check(not (push_blocks & r_known), rule, fn, "arity:%s:no-token" % label,
                      "no path builds a token from a segment with %s fields" % label)
            ctx.check(bool(bad_size & r_known), rule, fn, "arity:%s:rejected" % label,
                      "a segment with %s fields reaches the BadSegmentSize error" % label)
        for k, blocks in sorted(reads.items()):
            if k >= n:
                ctx.check(not (blocks & r_known), rule, fn, "arity:%s:no-read-nums[%d]" % (label, k),
                          "with %s field(s) no path reads nums[%d]" % (label, k))
            elif n in (4, 5) and k >= 1:
                ctx.check(bool(blocks & r_known), rule, fn, "arity:%s:reads-nums[%d]" % (label, k),
                          "a %s-field segment uses field %d" % (label, k))
    ctx.count("arity_partitions", len(reps))


def _known_region(body, start, env, roles, kill):
    """Blocks reachable from start before the tracked vector is modified again."""
    # (path-sensitive, with the store for bool temporaries of `||` chains and `matches!`)
    return absint.reach(body, start, env, roles, kill_on_call=kill, known_only=True)
    from collections import deque
    seen = set()
    dq = deque([start])
    while dq:
        b = dq.popleft()
        if b in seen:
            continue
        seen.add(b)
        t = body.blocks[b]["term"]
        if t["k"] == "call" and kill(t):
            continue
        if t["k"] == "switch":
            v = absint.eval_expr(body.expr_of_operand(t["discr"]), env, roles)
            if v is not None:
                tgt = None
                for val, tb in t["arms"]:
                    if val == v:
                        tgt = tb
                dq.append(tgt if tgt is not None else t["otherwise"])
                continue
        for s in body.succ[b]:
            dq.append(s)
    return seen


def sanitised_indices(ctx, rule):
    """C06.R2 / R2b: values stored in RawToken.src_id / name_id are the constant !0 or were
    range-checked against the right array *before* narrowing."""
    body = ctx.body(DEC)
    fn = body.path
    roles0 = dec_roles(body)
    aggs = token_aggs(body)
    ctx.floor(rule, fn, "RawToken literals", len(aggs), 1)
    for field, arr, err in (("src_id", "sources", "BadSourceReference"), ("name_id", "names", "BadNameReference")):
        arr_locals = [l for l, r in roles0.items() if r == arr]
        if not ctx.check(len(arr_locals) == 1, rule, fn, "%s:array" % field, "the %s vector taken from the raw map is recognised" % arr):
            continue
        for bi, si, agg in aggs:
            feed = q.root_local(agg.field(field))
            if not ctx.check(feed is not None, rule, fn, "%s:feed" % field, "RawToken.%s is fed from a local" % field, ctx.site(body, bi, si)):
                continue
            n_checked = 0
            for sh, site, e in q.def_shapes(body, feed, roles0):
                if sh in ("Not(0)", "4294967295"):
                    ctx.ok(rule, fn, "%s:tombstone" % field, "RawToken.%s is the constant !0 when the segment has no such field" % field, ctx.site(body, *site))
                    continue
                n_checked += _check_sanitised(ctx, rule, body, field, arr, arr_locals[0], err, e, site, roles0)
            ctx.check(n_checked >= 1, rule, fn, "%s:checked-def" % field, "RawToken.%s has a range-checked definition" % field)
        eb = error_construct_blocks(body, err)
        ctx.check(bool(eb) and all(error_returned(body, b) for b in eb), rule, fn, "%s:returned" % err, "Error::%s is constructed and returned" % err)


def _check_sanitised(ctx, rule, body, field, arr, arr_local, err, e, site, roles0, depth=0, use_site=None):
    """e: expression assigned to the feeding local at `site`. Returns number of checked defs."""
    fn = body.path
    x = e.unname() if hasattr(e, "unname") else e
    while isinstance(x, (Named,)):
        x = x.x
    # copy of an accumulator variable: check each of the accumulator's non-constant defs
    if isinstance(x, Var) and depth == 0:
        n = 0
        checked_sites = []
        for sh, s2, e2 in q.def_shapes(body, x.local, roles0):
            if sh == "0":
                continue
            n += _check_sanitised(ctx, rule, body, field, arr, arr_local, err, e2, s2, roles0, depth + 1, use_site=site)
            checked_sites.append(s2)
        # the copied accumulator must have been (re)defined on every path to the copy: the copy
        # site is dominated by a checked definition of the same loop iteration (the unchecked
        # initial value 0, or the value of an earlier segment validated against nothing new, can
        # never reach a token on its own)
        loops = [set(bl) for h, bl in body.loops() if site[0] in bl]
        inner = min(loops, key=len) if loops else None
        ok = any(body.dominates(s2[0], site[0]) and (inner is None or s2[0] in inner) for s2 in checked_sites)
        ctx.check(ok, rule, fn, "%s:checked-every-segment" % field,
                  "the %s index a token receives was range-checked in the same segment (no path reuses the running index without the check)" % field, ctx.site(body, *site))
        return n
    if isinstance(x, Cast) and x.to_ty == "u32":
        s_local = q.root_local(x.x)
        inner_ty = x.from_ty
        roles = dict(roles0)
        if s_local is not None and s_local not in roles:
            roles[s_local] = "S"
            S = "S"
        else:
            S = q.shape(x.x, roles0)
        ok_lo = ok_hi = False
        for fs in [site] + ([use_site] if use_site else []):
            ok_lo = ok_lo or has_fact(body, fs[0], roles, ("Le", "0", S), ("Lt", "-1", S)) or inner_ty.startswith("u")
            ok_hi = ok_hi or has_fact(body, fs[0], roles, ("Lt", S, "cast<i64>(Vec::len(%s))" % arr), ("Lt", S, "Vec::len(%s)" % arr),
                                      ("Lt", "cast<usize>(%s)" % S, "Vec::len(%s)" % arr), ("Lt", "cast<u64>(%s)" % S, "cast<u64>(Vec::len(%s))" % arr))
        ctx.check(inner_ty in ("i64", "i128", "u64", "usize"), rule, fn, "%s:wide-before-check" % field,
                  "the index is still a wide integer when it is range-checked (R2b: no narrowing before the check)", ctx.site(body, *site), detail="checked value has type " + inner_ty)
        ctx.check(ok_lo, rule, fn, "%s:lower-bound" % field, "the %s index is checked to be non-negative before it is narrowed and stored" % field, ctx.site(body, *site))
        ctx.check(ok_hi, rule, fn, "%s:upper-bound" % field, "the %s index is checked against %s.len() (the right array) before it is narrowed and stored" % (field, arr), ctx.site(body, *site))
        return 1
    ctx.bad(rule, fn, "%s:def:%s" % (field, q.shape(e, roles0)), "every definition of the value stored in RawToken.%s is the constant !0 or a range-checked narrowing" % field, ctx.site(body, *site))
    return 1


def rmi_reader(ctx, rule):
    """C06.R5 / C07.R6 reader half: decode_rmi classifies every byte value; alphabet bytes map to
    their RFC 4648 digit, every other byte constructs InvalidBase64 and returns it.
    Decided by value-set propagation of the input byte over all 256 values."""
    from rules.common import RFC4648
    body = ctx.body("decoder::decode_rmi")
    fn = body.path
    table, rejects, store_blocks = byte_table(ctx, rule, body)
    if table is None:
        return
    bad = []
    for v in range(256):
        want = RFC4648.find(bytes([v]))
        got = table.get(v)
        if want >= 0:
            if got != want:
                bad.append("byte %r -> %r, want %d" % (chr(v), got, want))
        else:
            if v not in rejects:
                bad.append("foreign byte 0x%02x is not rejected (maps to %r)" % (v, got))
    ctx.check(not bad, rule, fn, "rmi:byte-table", "decode_rmi maps exactly the 64 alphabet bytes to their RFC 4648 digit and rejects the other 192 with InvalidBase64",
              detail="; ".join(bad[:6]))
    ctx.count("rmi_byte_values_classified", 256)


def byte_table(ctx, rule, body):
    """Propagate each possible value of the loop byte through the classification switches and
    collect the constant/affine result stored for it. Returns ({byte: digit}, rejected set, store blocks)."""
    import absint
    fn = body.path
    # the tracked byte: the u8 local compared against constants in the switches
    cands = {}
    for b in range(len(body.blocks)):
        t = body.blocks[b]["term"]
        if t["k"] != "switch":
            continue
        e = body.expr_of_operand(t["discr"])
        for x in e.walk():
            if isinstance(x, Var) and x.ty == "u8":
                cands[x.local] = cands.get(x.local, 0) + 1
            if isinstance(x, Named) and body.local_ty(x.local) == "u8":
                cands[x.local] = cands.get(x.local, 0) + 1
    if not ctx.check(bool(cands), rule, fn, "rmi:byte-var", "the bitfield reader classifies a byte variable"):
        return None, None, None
    byte = max(cands, key=cands.get)
    roles = {byte: "byte"}
    # start: the block where the byte is defined
    dsites = body.defs.get(byte, [])
    start = dsites[0][0]
    # result local: the u8 stored with BitField::store_le
    stores = q.calls_to(body, "BitField::store_le", "store_le")
    if not ctx.check(len(stores) == 1, rule, fn, "rmi:store", "decoded digits are stored with exactly one BitField::store_le"):
        return None, None, None
    res = q.root_local(q.arg_expr(body, stores[0][1], 1))
    inv = set(b for b in __import__("rules.common", fromlist=["x"]).error_construct_blocks(body, "InvalidBase64"))
    table = {}
    rejects = set()
    for v in range(256):
        env = {"byte": v}
        r = absint.reach(body, start, env, roles, stop=[stores[0][0]] + list(inv))
        hit_store = stores[0][0] in r
        hit_inv = bool(inv & r)
        if hit_inv and not hit_store:
            rejects.add(v)
            continue
        if hit_inv and hit_store:
            table[v] = "ambiguous"
            continue
        # value of res: the def of res inside r
        vals = set()
        for bi, si, kind, node in body.defs.get(res, []):
            if bi in r and kind == "assign":
                val = absint.eval_expr(body.expr_of_rvalue(node["rv"]), env, roles)
                vals.add(val)
        table[v] = vals.pop() if len(vals) == 1 else None
    return table, rejects, [stores[0][0]]


OUTER_ITEM = "try(Iterator::next(var:Enumerate<Zip<Split<char>, Chain<Split<char>, Repeat<&str>>>>))"
INNER_ITEM = "try(Iterator::next(var:Enumerate<Split<char>>))"


def range_reader(ctx, rule):
    """C07.R5: the range flag of a token is bit k of its line's bitfield, k = index of the
    segment within the line; lines of `mappings` and `rangeMappings` are zipped, the shorter
    rangeMappings padded with "". """
    body = ctx.body(DEC)
    fn = body.path
    aggs = token_aggs(body)
    ctx.floor(rule, fn, "RawToken literals", len(aggs), 1)
    for bi, si, a in aggs:
        sh = q.shape(a.field("is_range"))
        ok = sh == "Option::unwrap_or_default(BitSlice::get(var:BitVec<u8>,%s.0))" % INNER_ITEM
        ctx.check(ok, rule, fn, "is_range:bit-by-segment-index",
                  "is_range is read with the non-panicking BitSlice::get at the segment's enumerate() index within its line (missing bits read as false)", ctx.site(body, bi, si), detail=sh)
        dl = q.shape(a.field("dst_line"))
        ctx.check(dl == "cast<u32>(%s.0)" % OUTER_ITEM, rule, fn, "dst_line:line-index", "the generated line is the enumerate() index of the ';'-separated piece", detail=dl)
    it = [sh for l in body.var_names for sh, _, _ in q.def_shapes(body, l, {}) if sh.startswith("IntoIterator::into_iter(Iterator::enumerate(Iterator::zip(")]
    want = ("IntoIterator::into_iter(Iterator::enumerate(Iterator::zip(str::split(Option::unwrap_or_default(arg1.mappings),59),"
            "Iterator::chain(str::split(Option::unwrap_or_default(arg1.range_mappings),59),repeat::repeat('')))))")
    ctx.check(it == [want], rule, fn, "zip-lines", "mappings and rangeMappings are split on ';' and zipped line by line, rangeMappings padded with empty strings", detail=str(it))
    inner = [sh for l in body.var_names for sh, _, _ in q.def_shapes(body, l, {}) if sh.startswith("IntoIterator::into_iter(Iterator::enumerate(str::split(")]
    ctx.check(inner == ["IntoIterator::into_iter(Iterator::enumerate(str::split(%s.1.0,44)))" % OUTER_ITEM], rule, fn, "split-segments",
              "segments are the ','-separated pieces of the line, enumerated from 0", detail=str(inner))
    pcalls = [bi for bi, t in q.calls_to(body, "vlq::parse_vlq_segment_into")]
    ctx.check(len(pcalls) == 1 and has_fact(body, pcalls[0], {}, ("false", "str::is_empty(%s.1)" % INNER_ITEM, None)), rule, fn, "segment:empty-skipped",
              "an empty segment (',,' or a trailing ',') is skipped, not handed to the VLQ reader (which rejects empty input)")
    calls = q.calls_to(body, "decoder::decode_rmi")
    ok = len(calls) == 1 and q.shape(body.expr_of_call(calls[0][1])) == "decoder::decode_rmi(%s.1.1,var:BitVec<u8>)" % OUTER_ITEM
    ctx.check(ok, rule, fn, "decode_rmi:per-line", "the bitfield of the zipped rangeMappings piece is decoded once per line")
    if calls:
        # the bit vector read for is_range is the one decode_rmi filled, and the decode precedes the segment loop
        rmi = q.root_local(q.arg_expr(body, calls[0][1], 1))
        for bi, si, a in aggs:
            used = [x for x in a.field("is_range").walk() if isinstance(x, Var) and x.local == rmi]
            ctx.check(bool(used), rule, fn, "is_range:same-bitvec", "the flag is read from the bit vector decode_rmi just filled")
            ctx.check(body.dominates(calls[0][0], bi), rule, fn, "decode_rmi:before-segments", "the line's bitfield is decoded before its segments are read")
    # (the flag is the bit itself: the closure prints as the identity \u03bb(p1) in the shape checked above)


# ------------------------------------------------------------------------------------------------
# C02 / C01 decoder half
V3_FIELDS = ["dst_col", "src_id", "src_line", "src_col", "name_id"]


def accumulators(ctx, rule):
    """C02.R1 / C01.R3+R4 decoder half: field k of a segment updates accumulator k, which feeds
    the RawToken field of the k-th meaning; only the generated-column accumulator is reset,
    once per line."""
    body = ctx.body(DEC)
    fn = body.path
    roles = dec_roles(body)
    aggs = token_aggs(body)
    if not ctx.check(len(aggs) == 1, rule, fn, "literal", "decode_regular builds tokens at one place"):
        return
    lb, ls, agg = aggs[0]
    acc = {}
    for k, f in enumerate(V3_FIELDS):
        l = q.root_local(agg.field(f))
        if l is None:
            ctx.bad(rule, fn, "acc:%s" % f, "RawToken.%s is fed from a running variable" % f)
            continue
        # follow one copy (src = src_id)
        ds = q.def_shapes(body, l, roles)
        copies = [e.unname() for sh, site, e in ds if isinstance(e.unname(), Var)]
        if copies and f in ("src_id", "name_id"):
            l = copies[0].local
        acc[f] = l
    if not ctx.check(len(set(acc.values())) == 5, rule, fn, "five-accumulators", "five distinct running variables feed the five token fields", detail=str(acc)):
        return
    head_outer = [bi for bi, t in q.calls_to(body, "Iterator::next") if "Zip<" in q.shape(q.arg_expr(body, t, 0))]
    head_inner = [bi for bi, t in q.calls_to(body, "Iterator::next") if q.shape(q.arg_expr(body, t, 0)) == "var:Enumerate<Split<char>>"]
    if not ctx.check(len(head_outer) == 1 and len(head_inner) == 1, rule, fn, "loops", "the line loop and the segment loop are recognisable"):
        return
    ho, hi = head_outer[0], head_inner[0]

    loops = dict(body.loops())

    def in_loop(bb, head):
        # natural loop of the header that follows the iterator's next() call
        for h, blocks in loops.items():
            if head in blocks and h in blocks and (h == head or body.dominates(h, head)):
                # the innermost loop containing `head`
                cand = [(len(bl), hh) for hh, bl in loops.items() if head in bl]
                inner = min(cand)[1]
                return bb in loops[inner]
        return False

    from rules.common import loop_passes
    tok_pushes = [bi for bi, t in q.calls_to(body, "Vec::<T, A>::push") if q.shape(q.arg_expr(body, t, 1), roles).startswith("RawToken{")]
    ctx.check(len(tok_pushes) == 1 and loop_passes(body, after_parse_ok(body), hi, tok_pushes), rule, fn, "segment:no-skip",
              "every non-empty segment that parses produces exactly one token (none is skipped; rejected ones leave the function)")
    reset_in_loop = set()
    for k, f in enumerate(V3_FIELDS):
        l = acc[f]
        r = dict(roles)
        r[l] = "ACC"
        upd = ["cast<u32>(Add(from<i64>(ACC),nums[%d]))" % k, "cast<u32>(Add(nums[%d],from<i64>(ACC)))" % k]
        n_upd = 0
        for sh, site, e in q.def_shapes(body, l, r):
            if sh == "0":
                if in_loop(site[0], ho):
                    reset_in_loop.add(f)
                    ctx.check(not in_loop(site[0], hi), rule, fn, "reset:%s:per-line" % f, "the reset happens once per line, not per segment", ctx.site(body, *site))
                continue
            ok = sh in upd
            if not ok:
                # checked form: narrowing of a named sum
                x = e.unname()
                if isinstance(x, Cast) and x.to_ty == "u32":
                    inner = q.shape(x.x, r)
                    ok = inner in ("Add(from<i64>(ACC),nums[%d])" % k, "Add(nums[%d],from<i64>(ACC))" % k)
            n_upd += 1
            ctx.check(ok, rule, fn, "update:%s" % f, "the %s state accumulates field %d of the segment (previous value + nums[%d])" % (f, k, k), ctx.site(body, *site), detail=sh)
            ctx.check(in_loop(site[0], hi), rule, fn, "update:%s:per-segment" % f, "the accumulation happens once per segment", ctx.site(body, *site))
        ctx.check(n_upd == 1, rule, fn, "update:%s:one" % f, "%s has exactly one accumulating update" % f)
    ctx.check(reset_in_loop == {"dst_col"}, rule, fn, "reset-set", "inside the loops exactly the generated-column state is reset (the other four run across the whole string)", detail=str(sorted(reset_in_loop)))
    # tombstones for 1-field segments: src/name feeding locals default to !0 per segment
    for f in ("src_id", "name_id"):
        l = q.root_local(agg.field(f))
        shapes = [(sh, site) for sh, site, _ in q.def_shapes(body, l, roles)]
        tomb = [site for sh, site in shapes if sh in ("Not(0)", "4294967295")]
        ctx.check(bool(tomb) and all(in_loop(s[0], hi) for s in tomb), rule, fn, "tombstone:%s" % f, "%s is reset to !0 for every segment (1-field segments carry no source / name)" % f)


def dispatch(ctx, rule):
    """C02.R3: kind dispatch in decode_common over the two presence tests."""
    import absint
    b = ctx.body("decoder::decode_common")
    fn = b.path
    P1, P2 = "Option::is_some(arg1.sections)", "Option::is_some(arg1.x_facebook_sources)"
    tgt = {}
    for nm in ("decoder::decode_index", "hermes::decode_hermes", "decoder::decode_regular"):
        cs = q.calls_to(b, nm)
        if not ctx.check(len(cs) == 1, rule, fn, "call:%s" % q.nice(nm), "decode_common calls %s at one place" % q.nice(nm)):
            return
        tgt[nm] = cs[0][0]
    want = {(1, 0): "decoder::decode_index", (1, 1): "decoder::decode_index", (0, 1): "hermes::decode_hermes", (0, 0): "decoder::decode_regular"}
    for (s, x), w in sorted(want.items()):
        r = absint.reach(b, 0, {P1: s, P2: x})
        hit = sorted(nm for nm, bb in tgt.items() if bb in r)
        ctx.check(hit == [w], rule, fn, "dispatch:sections=%d,x_facebook_sources=%d" % (s, x),
                  "with sections %s and x_facebook_sources %s the document is decoded by %s only" % ("present" if s else "absent", "present" if x else "absent", q.nice(w)), detail=str(hit))
    lits = sorted(q.shape(b.expr_of_rvalue(s["rv"])) for bi, si, s, it in b.locations() if not it and s["k"] == "assign" and s["rv"]["k"] == "agg" and s["rv"].get("adt") == "types::DecodedMap")
    calls = [q.shape(b.expr_of_call(t)) for bi, t in b.calls()]
    wrapped = []
    for kind, dec in (("Hermes", "hermes::decode_hermes"), ("Index", "decoder::decode_index"), ("Regular", "decoder::decode_regular")):
        ok = "DecodedMap::%s{0:try(%s(arg1))}" % (kind, dec) in lits or "Result::map(%s(arg1),fn:DecodedMap::%s)" % (dec, kind) in calls
        wrapped.append(kind if ok else None)
    others = [l for l in lits if not any(l == "DecodedMap::%s{0:try(%s(arg1))}" % kd for kd in (("Hermes", "hermes::decode_hermes"), ("Index", "decoder::decode_index"), ("Regular", "decoder::decode_regular")))]
    ctx.check(None not in wrapped and not others, rule, fn, "variants", "each decoder's result is wrapped in the variant of its kind", detail=str(lits) + str([c for c in calls if "map(" in c]))


def section_errors(ctx, rule):
    """Every rejection of a regular map also rejects an index map that embeds it: the result of
    decode_common for a section is propagated with `?`, never discarded (`.ok()`, `unwrap_or`, ...)."""
    root = "decoder::decode_index"
    n = 0
    for b in [ctx.body(root)] + list(ctx.facts.closures_of(root)):
        for bi, t in q.calls_to(b, "decoder::decode_common"):
            n += 1
            dest = t["dest"]["l"]
            users = []
            for bj, t2 in b.calls():
                for a in t2["args"]:
                    if a.get("k") in ("move", "copy") and a["place"]["l"] == dest and not a["place"]["p"]:
                        users.append(q.nice(t2.get("callee")))
            if not users and dest == 0 and b.kind == "Closure":
                # `raw.map.take().map(|m| decode_common(*m)).transpose()?`: the closure's result, turned inside out and propagated
                rb = ctx.body(root)
                cname = b.path.split("::", 1)[-1] if "::" in b.path else b.path
                tries = [q.shape(rb.expr_of_call(t2)) for bj, t2 in rb.calls() if q.nice(t2.get("callee")) == "Try::branch"]
                if any(q.wild("Try::branch(Option::transpose(Option::map(*,closure:*%s)))" % b.path.split("::")[-1], x) or q.wild("Try::branch(Option::transpose(Option::map(*,\u03bb(decoder::decode_common(*)))))", x) for x in tries):
                    users = ["Try::branch"]
            ctx.check(users == ["Try::branch"], rule, b.path, "section-error:propagated",
                      "a section's embedded map that fails to decode fails the whole index (decode_common(..)? - the error is not swallowed)", ctx.site(b, bi), detail=str(users))
    ctx.floor(rule, root, "embedded-map decodes", n, 1)


def handover(ctx, rule):
    """C01.R2 / C02.R4 / C02.R7: every decoded field reaches the map."""
    b = ctx.body(DEC)
    fn = b.path
    news = [(bi, b.expr_of_call(t)) for bi, t in q.calls_to(b, "types::SourceMap::new")]
    if not ctx.check(len(news) == 1, rule, fn, "new", "decode_regular builds the map with one SourceMap::new"):
        return
    nb, call = news[0]
    a = [q.shape(x) for x in call.args]
    ctx.check(q.wild("Option::map(arg1.file,closure:*)", a[0]) or q.wild("Option::map(arg1.file,fn:*)", a[0]), rule, fn, "new#0:file", "file comes from the document's file", detail=a[0])
    fc = closure_body(ctx, call.args[0])
    fsh = sorted(sh for sh, _, _ in q.def_shapes(fc, 0, {q.first_param(fc): "arg2"})) if fc is not None else []
    ctx.check(fsh == ["'<invalid>'", "string(arg2)"], rule, fn, "new#0:file-text", "a string file name is kept as it is (anything else reads as '<invalid>')", detail=str(fsh))
    aggs = token_aggs(b)
    tok_vec = None
    for bi, t in q.calls_to(b, "Vec::<T, A>::push"):
        if q.shape(q.arg_expr(b, t, 1)).startswith("RawToken{"):
            tok_vec = q.root_local(q.arg_expr(b, t, 0))
    ctx.check(tok_vec is not None and q.root_local(call.args[1]) == tok_vec, rule, fn, "new#1:tokens", "the token vector passed is the one the segments were pushed to")
    ctx.check(q.wild("Iterator::collect(Iterator::map(IntoIterator::into_iter(Option::unwrap_or_default(arg1.names)),closure:*))", a[2]) or q.wild("Iterator::collect(Iterator::map(IntoIterator::into_iter(Option::unwrap_or_default(arg1.names)),fn:*))", a[2]), rule, fn, "new#2:names", "names come from the document's names", detail=a[2])
    # ... each entry converted leniently but faithfully: a string as it is, a number by its decimal text, anything else empty
    cvb = q.callable_body(call.args[2])  # the closure or function mapped over the document's names
    conv = [cvb] if cvb is not None else []
    P = {q.first_param(cvb): "v"} if cvb is not None else {}
    ok_conv = len(conv) == 1 and sorted(sh for sh, _, _ in q.def_shapes(conv[0], 0, P)) == sorted(["''", "string(v)", "ToString::to_string(number(v))"])
    if ok_conv:
        for sh, site, _ in q.def_shapes(conv[0], 0, P):
            want_v = {"string(v)": 3, "ToString::to_string(number(v))": 2}.get(sh)
            if want_v is not None:
                ok_conv = ok_conv and has_fact(conv[0], site[0], P, ("variant_in", "v", (want_v,)))
    ctx.check(ok_conv, rule, fn, "names:conversion", "a name that is a JSON string is taken as it is, a number by serde_json's own decimal text, anything else reads as the empty name",
              detail=str([sorted(sh for sh, _, _ in q.def_shapes(c, 0, P)) for c in conv])[:300])
    ctx.check(a[3] == "Iterator::collect(Iterator::map(IntoIterator::into_iter(Option::unwrap_or_default(arg1.sources)),fn:Option::unwrap_or_default))", rule, fn, "new#3:sources",
              "sources come from the document's sources, null entries read as empty names", detail=a[3])
    ctx.check(a[4] == "Option::map(arg1.sources_content,\u03bb(Iterator::collect(IntoIterator::into_iter(p1))))", rule, fn, "new#4:contents", "contents come from sourcesContent", detail=a[4])
    sm = q.root_local(b.expr_of_operand({"k": "copy", "place": b.blocks[nb]["term"]["dest"]}))
    roles = {sm: "sm"}
    oks = __import__("rules.common", fromlist=["x"]).result_blocks(b, "Ok")
    for nm, want in (("set_source_root", "SourceMap::set_source_root(sm,arg1.source_root)"), ("set_debug_id", "SourceMap::set_debug_id(sm,Option::or(arg1.debug_id,arg1._debug_id_new))")):
        cs = [(bi, q.shape(b.expr_of_call(t), roles)) for bi, t in q.calls_to(b, "types::SourceMap::" + nm)]
        ok = len(cs) == 1 and cs[0][1] == want and bool(oks) and all(b.dominates(cs[0][0], o) for o in oks)
        ctx.check(ok, rule, fn, nm, "%s is applied before every Ok return%s" % (want, " ('debug_id' wins over 'debugId')" if nm == "set_debug_id" else ""), detail=str(cs))
    ig = [(bi, q.shape(b.expr_of_call(t), roles)) for bi, t in q.calls_to(b, "types::SourceMap::add_to_ignore_list")]
    it = [sh for l in sorted(b.var_names) for sh, _, _ in q.def_shapes(b, l, roles) if sh == "IntoIterator::into_iter(try(arg1.ignore_list))"]
    from rules.common import for_each_form
    fe = for_each_form(b, ["Iterator::flatten(IntoIterator::into_iter(arg1.ignore_list))", "IntoIterator::into_iter(try(arg1.ignore_list))", "Iterator::flatten(Option::into_iter(arg1.ignore_list))"])
    if fe is not None and not ig:
        sm_sh = q.shape(b.expr_of_local(sm)) if sm is not None else "?"
        ctx.check(len(fe[2]) == 1 and q.wild("SourceMap::add_to_ignore_list(*,arg2)", fe[2][0]) and bool(oks) and all(b.dominates(fe[0], o) for o in oks), rule, fn, "ignore_list",
                  "every ignoreList entry is applied (for_each over the list)", detail=str(fe[2]))
    else:
        # the loop's iterator: over the list inside the Option, however the Option is opened
        SRC = ("IntoIterator::into_iter(try(arg1.ignore_list))", "IntoIterator::into_iter(Iterator::flatten(IntoIterator::into_iter(arg1.ignore_list)))",
               "IntoIterator::into_iter(Iterator::flatten(Option::into_iter(arg1.ignore_list)))", "IntoIterator::into_iter(Option::unwrap_or_default(arg1.ignore_list))")
        itl = [l for l in range(len(b.locals)) if any(sh in SRC for sh, _, _ in q.def_shapes(b, l, roles))]
        r2 = dict(roles)
        for l in itl:
            r2[l] = "IGN"
        ig2 = [q.shape(b.expr_of_call(t), r2) for bi, t in q.calls_to(b, "types::SourceMap::add_to_ignore_list")]
        ctx.check(ig2 == ["SourceMap::add_to_ignore_list(sm,try(Iterator::next(IGN)))"] and bool(itl), rule, fn, "ignore_list", "every ignoreList entry is applied", detail=str(ig2))
    okv = [q.shape(b.expr_of_rvalue(s["rv"]), roles) for bi, si, s, it2 in b.locations() if not it2 and s["k"] == "assign" and s["place"]["l"] == 0 and s["rv"]["k"] == "agg" and s["rv"].get("variant") == "Ok"]
    ctx.check(okv == ["Result::Ok{0:sm}"], rule, fn, "returns-map", "that map is returned", detail=str(okv))
    # lenient names (C02.R7)
    c1 = closure_body(ctx, call.args[2])
    if ctx.check(c1 is not None, rule, fn, "names-closure", "the names conversion closure exists"):
        P1 = {q.first_param(c1): "arg2"}
        sw = [t for bi, t in [(i, c1.blocks[i]["term"]) for i in range(len(c1.blocks)) if not c1.blocks[i]["cleanup"]] if t["k"] == "switch" and q.shape(c1.expr_of_operand(t["discr"]), P1) == "discr(arg2)"]
        adt = None
        vals = sorted(v for v, _ in sw[0]["arms"]) if sw else []
        # serde_json::Value: Null=0 Bool=1 Number=2 String=3 Array=4 Object=5
        ctx.check(vals == [2, 3], rule, c1.path, "arms:number,string", "numbers and strings are converted, everything else reads as empty", detail=str(vals))
        calls = [q.shape(c1.expr_of_call(t), P1) for bi, t in c1.calls()]
        ctx.check(any(c == "ToString::to_string(number(arg2))" for c in calls), rule, c1.path, "number:to_string", "numeric names read as their decimal text", detail=str(calls)[:200])


def closure_body(ctx, e):
    """Body of the first closure - or crate-local function used as a value - mentioned in an
    expression (found at its use, not by its number or name)."""
    b = q.callable_body(e)
    if b is not None:
        return b
    for x in e.walk():
        if isinstance(x, Agg) and x.ak == "closure":
            return ctx.facts.body(x.closure, required=False)
    return None


def field_coverage(ctx, rule):
    """C01.R1: the raw fields read on each decode path vs the fields written non-None by the
    corresponding writer."""
    from rules import encrules
    f = ctx.facts

    def reads(path, adt="jsontypes::RawSourceMap"):
        out = set()
        for b in [ctx.body(path)] + list(ctx.facts.closures_of(path)):
            out |= reads_body(b, adt)
        return out

    def reads_body(b, adt):
        out = set()
        for bi, si, s, is_term in b.locations():
            ops = []
            if is_term and s["k"] == "call":
                ops = s["args"]
            elif not is_term and s["k"] == "assign":
                rv = s["rv"]
                ops = [rv[k] for k in ("op", "l", "r", "x") if isinstance(rv.get(k), dict)] + rv.get("ops", [])
                if rv["k"] in ("ref", "discr"):
                    ops.append({"k": "copy", "place": rv["place"]})
            for o in ops:
                if o.get("k") in ("copy", "move"):
                    for p in o["place"]["p"]:
                        if p.get("k") == "field" and p.get("adt") == adt:
                            out.add(p["n"])
        return out

    def written(path):
        b = ctx.body(path)
        agg = encrules.raw_aggregate(b)
        out = set()
        if agg:
            for fld, op in zip(agg[2].fields, agg[2].ops):
                if q.shape(op) != "Option::None{}":
                    out.add(fld)
        return out

    observables = {"file", "sources", "source_root", "sources_content", "names", "mappings", "range_mappings", "ignore_list", "debug_id"}
    r = reads(DEC)
    w = written(encrules.AS_RAW["regular"])
    ctx.check(observables <= r, rule, DEC, "reads", "the regular decoder reads every observable field", detail="missing: %s" % sorted(observables - r))
    ctx.check(observables <= w, rule, encrules.AS_RAW["regular"], "writes", "the regular writer writes every observable field", detail="missing: %s" % sorted(observables - w))
    extra_w = w - r - {"version"}
    extra_r = r - w - {"_debug_id_new"}
    ctx.check(not extra_w and not extra_r, rule, "regular", "symmetric", "apart from version (write-only) and debugId (read-only alias) reader and writer carry the same fields", detail="only written: %s; only read: %s" % (sorted(extra_w), sorted(extra_r)))
    ri = reads("decoder::decode_index")
    wi = written(encrules.AS_RAW["index"])
    ctx.check({"sections", "file"} <= ri and {"sections", "file"} <= wi, rule, "index", "sections+file", "index maps carry sections and file both ways", detail="read %s written %s" % (sorted(ri), sorted(wi)))
    rs = reads("decoder::decode_index", "jsontypes::RawSection") | reads("decoder::decode_index", "jsontypes::RawSectionOffset")
    ctx.check({"offset", "url", "map", "line", "column"} <= rs, rule, "index", "section-fields", "every section field (offset.line, offset.column, url, map) is read", detail=str(sorted(rs)))
    ctx.remark("index maps read x_facebook_offsets / x_metro_module_paths but do not re-emit them (not among the observables C01 lists)")
    h = ctx.body("hermes::decode_hermes")
    lit = [h.expr_of_rvalue(s["rv"]) for bi, si, s, it in h.locations() if not it and s["k"] == "assign" and s["rv"]["k"] == "agg" and s["rv"].get("adt") == "hermes::SourceMapHermes"]
    ok = len(lit) == 1 and q.shape(lit[0].field("raw_facebook_sources")) in ("Option::Some{0:try(Option::ok_or(Option::take(arg1.x_facebook_sources),Error::IncompatibleSourceMap{}))}",
                                                                             "Option::Some{0:try(Option::take(arg1.x_facebook_sources))}") \
        and q.shape(lit[0].field("sm")) == "try(decoder::decode_regular(arg1))"
    ctx.check(ok, rule, h.path, "hermes:retains-raw", "the Hermes decoder keeps the raw x_facebook_sources verbatim next to the regular map")
    encrules.hermes_payload(ctx, rule)


def rejections_exact(ctx, rule):
    """decode_regular fails for exactly the reviewed reasons: the three structural errors it constructs itself and
    whatever the segment parser / the range-mapping reader report. Any further error exit rejects documents the format
    allows (a "sanity check" on positions, a new limit) and needs review."""
    import re as _re
    b = ctx.body(DEC)
    fn = b.path
    from rules.common import error_exits
    errs = error_exits(b)
    allowed = {"construct:BadSegmentSize", "construct:BadSourceReference", "construct:BadNameReference", "propagate:decoder::decode_rmi", "propagate:vlq::parse_vlq_segment_into"}
    extra = sorted(set(errs) - allowed)
    ctx.check(not extra, rule, fn, "rejections:exact", "decode_regular rejects a document only for a bad segment size, a bad source or name reference, or what the VLQ / range-mapping readers report", detail=str(extra))
    ctx.check(allowed <= set(errs), rule, fn, "rejections:present", "each reviewed rejection is still there", detail=str(sorted(allowed - set(errs))))
    # the range-mapping reader: only the foreign-digit error
    r = ctx.body("decoder::decode_rmi")
    rex = error_exits(r)
    rerrs, rres = sorted(x.split(':', 1)[1] for x in rex if x.startswith('construct:')), sorted(x for x in rex if x.startswith('propagate:'))
    ctx.check(rerrs == ["InvalidBase64"] and not rres, rule, r.path, "rmi:rejections", "the range-mapping reader rejects only characters outside the base64 alphabet", detail=str(rerrs) + str(rres)[:100])


def hermes_regular_part(ctx, rule):
    """The regular part of a Hermes map is decoded (and validated) by decode_regular from the raw map as it was
    parsed: decode_hermes only takes x_facebook_sources out of it. Any other mutable access to the raw map before
    the hand-over (padding `sources`, editing `mappings`) would change what the index checks are made against."""
    h = ctx.body("hermes::decode_hermes")
    fn = h.path
    touched = []
    for b in [h] + list(ctx.facts.closures_of(fn)):
        if b is not h:
            continue
        for bi, si, st, it in b.locations():
            if it or st["k"] != "assign":
                continue
            pl = None
            if st["place"]["l"] == 1 and st["place"]["p"]:
                pl = st["place"]
            rv = st["rv"]
            if rv["k"] in ("ref", "rawptr") and rv.get("mut") and rv["place"]["l"] == 1:
                pl = rv["place"]
            if pl is not None:
                names = [x.get("n") for x in pl["p"] if x.get("k") == "field"]
                touched.append((names[0] if names else "<whole>", bi))
    bad = sorted(set(n for n, _ in touched if n != "x_facebook_sources"))
    ctx.check(not bad, rule, fn, "hermes:raw-untouched", "decode_hermes hands the raw map to decode_regular as parsed (it only takes x_facebook_sources out)", detail="also modified: %s" % bad)
    calls = [q.shape(h.expr_of_call(t)) for bi, t in q.calls_to(h, "decoder::decode_regular")]
    ctx.check(calls == ["decoder::decode_regular(arg1)"], rule, fn, "hermes:regular-decoder", "the regular part is decoded by decode_regular from that raw map", detail=str(calls))
    # decode_hermes fails only for a missing payload or a failing regular decode: a table that is shorter or longer than
    # `sources`, or that holds unparsable entries, is not a reason to refuse the document
    from rules.common import error_exits, has_fact, opt_fact
    errs = error_exits(h)
    allowed = {"propagate:decoder::decode_regular", "propagate:Option::ok_or", "propagate:Option::ok_or_else", "construct:IncompatibleSourceMap"}
    ctx.check(errs <= allowed and "propagate:decoder::decode_regular" in errs, rule, fn, "hermes:rejections", "decode_hermes fails only for a missing x_facebook_sources payload or a failing regular decode",
              detail=str(sorted(errs - allowed)))
    TAKE = ("Option::take(arg1.x_facebook_sources)", "mem::take(arg1.x_facebook_sources)", "arg1.x_facebook_sources")
    for sh, site, _e in q.def_shapes(h, 0, {}):
        if sh.startswith("Result::Err{") and "IncompatibleSourceMap" in sh:
            ok = any(has_fact(h, site[0], {}, *opt_fact("none", t)) for t in TAKE)
            ctx.check(ok, rule, fn, "hermes:incompatible-only-without-payload", "IncompatibleSourceMap is reported only when the x_facebook_sources key is absent", ctx.site(h, *site), detail=sh[:160])


def key_names(ctx, rule):
    """C02.R5: JSON key names and their binding to fields (from the derived impls)."""
    from rules import encrules
    from rules.common import str_array_const
    want = {
        "jsontypes::RawSourceMap": [("version", "version"), ("file", "file"), ("sources", "sources"), ("sourceRoot", "source_root"), ("sourcesContent", "sources_content"), ("sections", "sections"),
                                    ("names", "names"), ("rangeMappings", "range_mappings"), ("mappings", "mappings"), ("ignoreList", "ignore_list"), ("x_facebook_offsets", "x_facebook_offsets"),
                                    ("x_metro_module_paths", "x_metro_module_paths"), ("x_facebook_sources", "x_facebook_sources"), ("debug_id", "debug_id"), ("debugId", "_debug_id_new")],
        "jsontypes::RawSection": [("offset", "offset"), ("url", "url"), ("map", "map")],
        "jsontypes::RawSectionOffset": [("line", "line"), ("column", "column")],
        "jsontypes::FacebookScopeMapping": [("names", "names"), ("mappings", "mappings")],
    }
    for adt, pairs in want.items():
        c = [v for k, v in ctx.facts.consts.items() if k.endswith("for %s>::deserialize::FIELDS" % adt)]
        fields = str_array_const(c[0]) if c else None
        ctx.check(fields == [k for k, _ in pairs], rule, adt, "deserialize:keys", "the deserialiser of %s accepts exactly the v3 keys %s" % (adt.split("::")[-1], [k for k, _ in pairs]), detail=str(fields))
        ser = encrules._serialize_body(ctx.facts, adt)
        if ctx.check(ser is not None, rule, adt, "serialize:derived", "%s has a derived Serialize impl" % adt):
            keys = encrules.serde_keys(ser)
            got = sorted((k, v["field"]) for k, v in keys.items() if v["field"])
            ctx.check(got == sorted(pairs), rule, adt, "key->field", "each key is bound to the field of that meaning", detail=str(got))
    mn = [v for k, v in ctx.facts.consts.items() if k.endswith("for jsontypes::MinimalRawSourceMap>::deserialize::FIELDS")]
    fields = str_array_const(mn[0]) if mn else None
    ctx.check(fields == ["version", "file", "sources", "sourceRoot", "sourcesContent", "sections", "names", "mappings"], rule, "jsontypes::MinimalRawSourceMap", "keys",
              "the detection struct uses a subset of the same keys", detail=str(fields))
