"""G9: accessor table. Many rules speak about `token.raw.dst_col` etc. by name; this
rule pins what each trivial accessor and iterator actually returns, so that a rule relying on
an accessor's meaning is void if the accessor is changed."""
import q
from rules.common import has_fact

T = "types::Token::<'a>::"
SM = "types::SourceMap::"
SEC = "types::SourceMapSection::"
IDX = "types::SourceMapIndex::"

# path -> list of accepted complete return-shape lists (each alternative is the sorted list of
# shapes of every value stored to the return place)
TABLE = {
    T + "get_dst_line": [["arg1.raw.dst_line"]],
    T + "get_dst_col": [["arg1.raw.dst_col"]],
    T + "get_src_line": [["arg1.raw.src_line"]],
    T + "get_src_col": [["u32::saturating_add(arg1.raw.src_col,arg1.offset)"]],
    T + "get_src_id": [["arg1.raw.src_id"]],
    T + "get_name_id": [["arg1.raw.name_id"]],
    T + "is_range": [["arg1.raw.is_range"]],
    T + "has_source": [["Ne(Not(0),arg1.raw.src_id)"], ["Ne(4294967295,arg1.raw.src_id)"]],
    T + "get_source": [["Option::None{}", "SourceMap::get_source(arg1.sm,arg1.raw.src_id)"]],
    T + "get_name": [["Option::None{}", "SourceMap::get_name(arg1.sm,arg1.raw.name_id)"]],
    T + "has_name": [["Option::is_some(Token::get_name(arg1))"],
                     # the same without building the &str: false for the tombstone, otherwise "the id is inside the names table"
                     # (get_name is the tombstone test followed by names.get(id), both decided in this table)
                     ["0", "Lt(cast<usize>(arg1.raw.name_id),Vec::len(arg1.sm.names))"]],
    T + "get_dst": [["tuple(arg1.raw.dst_line,arg1.raw.dst_col)"]],
    T + "get_src": [["tuple(arg1.raw.src_line,Token::get_src_col(arg1))"]],
    T + "get_raw_token": [["arg1.raw"]],
    T + "sourcemap": [["arg1.sm"]],
    SM + "get_file": [["Option::as_ref(arg1.file)"]],
    SM + "get_source_root": [["Option::as_ref(arg1.source_root)"]],
    SM + "get_debug_id": [["arg1.debug_id"]],
    SM + "get_token_count": [["cast<u32>(Vec::len(arg1.tokens))"]],
    SM + "get_source_count": [["cast<u32>(Vec::len(arg1.sources))"]],
    SM + "get_name_count": [["cast<u32>(Vec::len(arg1.names))"]],
    SM + "get_name": [["slice::get(arg1.names,cast<usize>(arg2))"]],
    SM + "get_source": [["slice::get(Option::unwrap_or(Option::as_ref(arg1.sources_prefixed),arg1.sources),cast<usize>(arg2))"]],
    SM + "get_source_contents": [["Option::map(Option::and_then(slice::get(arg1.sources_content,cast<usize>(arg2)),fn:Option::as_ref),\u03bb(p1.source))"],
                                 ["Option::map(SourceMap::get_source_view(arg1,arg2),\u03bb(p1.source))"]],  # through the sibling accessor (checked above)
    SM + "get_source_view": [["Option::and_then(slice::get(arg1.sources_content,cast<usize>(arg2)),fn:Option::as_ref)"]],
    SM + "get_token": [["Option::map(slice::get(arg1.tokens,arg2),\u03bb(Token{raw:p1,sm:^arg1,idx:^arg2,offset:0}))"]],
    SM + "tokens": [["TokenIter{i:arg1,next_idx:0}"]],
    SM + "sources": [["SourceIter{i:arg1,next_idx:0}"]],
    SM + "names": [["NameIter{i:arg1,next_idx:0}"]],
    SM + "source_contents": [["SourceContentsIter{i:arg1,next_idx:0}"]],
    SM + "ignore_list": [["BTreeSet::iter(arg1.ignore_list)"]],
    SEC + "get_offset_line": [["arg1.offset.0"]],
    SEC + "get_offset_col": [["arg1.offset.1"]],
    SEC + "get_offset": [["arg1.offset"]],
    SEC + "get_url": [["Option::as_ref(arg1.url)"]],
    SEC + "get_sourcemap": [["Option::as_ref(arg1.map)"]],
    SEC + "new": [["SourceMapSection{offset:arg1,url:arg2,map:Option::map(arg3,fn:Box::new)}"]],
    IDX + "get_file": [["Option::as_ref(arg1.file)"]],
    IDX + "get_section": [["slice::get(arg1.sections,cast<usize>(arg2))"]],
    IDX + "sections": [["SourceMapSectionIter{i:arg1,next_idx:0}"]],
    IDX + "new": [["SourceMapIndex{file:arg1,sections:arg2,x_facebook_offsets:Option::None{},x_metro_module_paths:Option::None{}}"]],
    IDX + "new_ram_bundle_compatible": [["SourceMapIndex{file:arg1,sections:arg2,x_facebook_offsets:arg3,x_metro_module_paths:arg4}"]],
    "<types::TokenIter<'a> as core::iter::traits::iterator::Iterator>::next": [["Option::inspect(SourceMap::get_token(arg1.i,arg1.next_idx),closure:next::{closure#0})"],
                                                                              ["FromResidual::from_residual(break(Try::branch(SourceMap::get_token(arg1.i,arg1.next_idx))))", "Option::Some{0:try(SourceMap::get_token(arg1.i,arg1.next_idx))}"],
                                                                              ["Option::None{}", "Option::Some{0:try(SourceMap::get_token(arg1.i,arg1.next_idx))}"]],  # let-else
    "<types::SourceIter<'a> as core::iter::traits::iterator::Iterator>::next": [["Option::inspect(SourceMap::get_source(arg1.i,arg1.next_idx),closure:next::{closure#0})"],
                                                                              ["FromResidual::from_residual(break(Try::branch(SourceMap::get_source(arg1.i,arg1.next_idx))))", "Option::Some{0:try(SourceMap::get_source(arg1.i,arg1.next_idx))}"],
                                                                              ["Option::None{}", "Option::Some{0:try(SourceMap::get_source(arg1.i,arg1.next_idx))}"]],  # let-else
    "<types::NameIter<'a> as core::iter::traits::iterator::Iterator>::next": [["Option::inspect(SourceMap::get_name(arg1.i,arg1.next_idx),closure:next::{closure#0})"],
                                                                              ["FromResidual::from_residual(break(Try::branch(SourceMap::get_name(arg1.i,arg1.next_idx))))", "Option::Some{0:try(SourceMap::get_name(arg1.i,arg1.next_idx))}"],
                                                                              ["Option::None{}", "Option::Some{0:try(SourceMap::get_name(arg1.i,arg1.next_idx))}"]],  # let-else
    "<types::SourceMapSectionIter<'a> as core::iter::traits::iterator::Iterator>::next": [["Option::inspect(SourceMapIndex::get_section(arg1.i,arg1.next_idx),closure:next::{closure#0})"],
                                                                              ["FromResidual::from_residual(break(Try::branch(SourceMapIndex::get_section(arg1.i,arg1.next_idx))))", "Option::Some{0:try(SourceMapIndex::get_section(arg1.i,arg1.next_idx))}"]],
    "<types::SourceContentsIter<'a> as core::iter::traits::iterator::Iterator>::next": [["Option::None{}", "Option::Some{0:SourceMap::get_source_contents(arg1.i,arg1.next_idx)}"]],
    "<types::Token<'_> as core::cmp::PartialEq>::eq": [["PartialEq::eq(arg1.raw,arg2.raw)"],
                                                       ["1", "PartialEq::eq(arg1.raw,arg2.raw)"]],  # with a same-object shortcut (guarded below)
    "builder::SourceMapBuilder::get_source": [["slice::get(arg1.sources,cast<usize>(arg2))"]],
    "builder::SourceMapBuilder::get_file": [["Option::as_ref(arg1.file)"]],
    "builder::SourceMapBuilder::get_source_root": [["Option::as_ref(arg1.source_root)"]],
    "builder::SourceMapBuilder::add_source": [["SourceMapBuilder::add_source_with_id(arg1,arg2,Not(0))"]],
}

GUARDS = {
    # (path, returned shape) -> fact that must dominate that return
    (T + "get_source", "Option::None{}"): ("Eq", "Not(0)", "arg1.raw.src_id"),
    (T + "get_name", "Option::None{}"): ("Eq", "Not(0)", "arg1.raw.name_id"),
    (T + "has_name", "0"): ("Eq", "Not(0)", "arg1.raw.name_id"),
    (T + "has_name", "Lt(cast<usize>(arg1.raw.name_id),Vec::len(arg1.sm.names))"): ("Ne", "Not(0)", "arg1.raw.name_id"),
    ("<types::Token<'_> as core::cmp::PartialEq>::eq", "1"): ("true", "ptr::eq(arg1.raw,arg2.raw)", None),
    ("<types::SourceContentsIter<'a> as core::iter::traits::iterator::Iterator>::next", "Option::None{}"): ("Le", "SourceMap::get_source_count(arg1.i)", "arg1.next_idx"),
}


def returns(b):
    out = []
    for bi, si, s, it in b.locations():
        if not it and s["k"] == "assign" and s["place"]["l"] == 0 and not s["place"]["p"]:
            out.append((bi, q.shape(b.expr_of_rvalue(s["rv"]))))
        if it and s["k"] == "call" and s["dest"]["l"] == 0 and not s["dest"]["p"]:
            c = b.expr_of_call(s)
            ex = q.expand_plain_call(c)  # a constructor delegating to a more general one: what that one builds
            out.append((bi, ex if ex is not None and ex.startswith(q.nice(b.raw.get("impl_self") or "").split("::")[-1].split("<")[0] + "{") else q.shape(c)))
    return out


def no_global_state(ctx, rule):
    """The crate keeps no process-wide or per-thread state (`static`, `thread_local!`, lazy statics): every answer
    is a function of the arguments and of the object it is asked of, so no call can see leftovers of an earlier
    one (a scratch buffer or cache reused across calls is exactly what this excludes; one needs review)."""
    items = ctx.facts.raw.get("consts", [])
    statics = sorted(c["path"] for c in items if c.get("static"))
    ctx.check(not statics, rule, "crate", "no-statics", "no `static` item (thread-local or global) exists in the crate", detail=str(statics)[:300])
    ctx.floor(rule, "crate", "constant items seen by the extractor (the scan is not vacuous)", len(items), 5)
    # ... and no object carries a hidden memo: apart from SourceView's line index (whose discipline is C16's subject)
    # no struct of the crate has an interior-mutable field (Cell, RefCell, OnceLock, Mutex, atomics, ...), so `&self`
    # methods cannot remember earlier questions and answers cannot go stale behind a mutation
    import re as _re
    ALLOWED = {("sourceview::SourceView", "processed_until"), ("sourceview::SourceView", "lines")}
    hidden, n_fields = [], 0
    for path, a in sorted(ctx.facts.adts.items()):
        for v in a.get("variants", []):
            for fl in v.get("fields", []):
                n_fields += 1
                if _re.search(r"Cell<|OnceLock|OnceCell|Mutex<|RwLock<|Atomic|LazyLock|LazyCell|Condvar", fl["ty"]) and (path, fl["name"]) not in ALLOWED:
                    hidden.append("%s.%s: %s" % (path, fl["name"], fl["ty"][:60]))
    ctx.check(not hidden, rule, "crate", "no-hidden-memo", "no struct has an interior-mutable field besides SourceView's line index", detail=str(hidden)[:300])
    ctx.floor(rule, "crate", "struct fields scanned", n_fields, 60)


def wire_types_derived_only(ctx, rule):
    """The structs of the JSON wire format carry only derived serde code: no hand-written (de)serialiser
    (`deserialize_with`, `serialize_with`, `with`, `skip_serializing_if` helpers other than Option::is_none) sits in
    src/jsontypes.rs. A custom function there can make the reader front end (owned input) and the slice front end
    (borrowable input) disagree, or make what is written differ from what is read."""
    own = sorted(b.path for b in ctx.facts.bodies if b.promoted is None and b.path.startswith("jsontypes::") and not b.path.startswith("jsontypes::_") and b.kind in ("Fn", "AssocFn", "Closure") and not b.derived)
    ctx.check(not own, rule, "jsontypes", "derived-only", "module jsontypes contains no hand-written function", detail=str(own)[:300])
    n = len([b for b in ctx.facts.bodies if b.promoted is None and b.path.startswith("jsontypes::_")])
    ctx.floor(rule, "jsontypes", "derived serde bodies seen", n, 20)


def iterator_overrides(ctx, rule):
    """The crate's iterators define `next` only: every other Iterator method (nth, step_by, skip, count, last, ...)
    is the provided one built on `next`, so what `next` is shown to do is what all of them do."""
    n_it = 0
    for b in ctx.facts.bodies:
        if b.promoted is None and b.kind == "AssocFn" and not b.derived and (b.raw.get("impl_trait") or "") in (
                "core::iter::traits::iterator::Iterator", "core::iter::traits::double_ended::DoubleEndedIterator", "core::iter::traits::exact_size::ExactSizeIterator"):
            n_it += 1
            ctx.check(b.raw.get("name") in ("next", "size_hint") and b.raw["impl_trait"].endswith("::Iterator"), rule, b.path, "iterator:only-next",
                      "the iterator types of the crate implement `next` only (all adapters and positional methods derive from it; a `size_hint` is a capacity hint and yields nothing)")
    ctx.floor(rule, "iterators", "Iterator impls of the crate", n_it, 7)


def accessors(ctx, rule, only=None, min_n=None):
    n = 0
    for path, alts in sorted(TABLE.items()):
        if only is not None and not any(path.startswith(p) or p in path for p in only):
            continue
        b = ctx.body(path)
        rs = returns(b)
        got = sorted(sh for _, sh in rs)
        n += 1
        ok = any(got == sorted(a) for a in alts) or any(q.fold_question(got) == sorted(a) for a in alts)
        # (a value the closure form captures is the function's own argument in the `?` form: `^arg1` is `arg1`)
        ok = ok or any([x.replace("^", "") for x in q.fold_question(got)] == sorted(y.replace("^", "") for y in a) for a in alts)
        ctx.check(ok, rule, path, "returns", "%s returns what its name says (%s)" % (path.split("::")[-1], " | ".join(alts[0])), ctx.site(b), detail=str(got)[:300])
        for bi, sh in rs:
            g = GUARDS.get((path, sh))
            if g:
                ctx.check(has_fact(b, bi, {}, g, (g[0], g[2], g[1])), rule, path, "guard:%s" % sh[:30], "the %s answer is given exactly under %s(%s,%s)" % (sh, g[0], g[1], g[2]), ctx.site(b, bi))
    # iterator advance: +1, exactly once, after an element was obtained (in `next` or in the closure it hands to inspect)
    for it in ("TokenIter", "SourceIter", "NameIter", "SourceMapSectionIter"):
        p = "<types::%s<'a> as core::iter::traits::iterator::Iterator>::next" % it
        if only is not None and not any(x in p for x in only):
            continue
        nb = ctx.body(p)
        adv = []
        for cl in [nb] + list(ctx.facts.closures_of(p)):
            for bi, si, s, it2 in cl.locations():
                if not it2 and s["k"] == "assign" and s["place"]["p"] and s["place"]["p"][-1].get("n") == "next_idx":
                    sh = q.shape(cl.expr_of_rvalue(s["rv"])).replace("^", "")
                    guarded = cl is not nb or any(f.op == "variant_in" and f.l.startswith("Try::branch(") and f.r == (0,) for f in q.facts_at(cl, bi, {})) or \
                        any(f.op == "variant_in" and f.l.startswith("SourceMap::get_") and "arg1.next_idx" in f.l and f.r == (1,) for f in q.facts_at(cl, bi, {}))
                    adv.append((sh, guarded))
        ctx.check(adv == [("Add(1,arg1.next_idx)", True)], rule, p, "advance", "%s advances by one after each yielded element (and only then)" % it, detail=str(adv))
    sc = ctx.body("<types::SourceContentsIter<'a> as core::iter::traits::iterator::Iterator>::next") if (only is None or any("SourceContentsIter" in x for x in only)) else None
    if sc is not None:
        adv = [q.shape(sc.expr_of_rvalue(s["rv"])) for bi, si, s, it2 in sc.locations() if not it2 and s["k"] == "assign" and s["place"]["p"] and s["place"]["p"][-1].get("n") == "next_idx"]
        ctx.check(adv == ["Add(1,arg1.next_idx)"], rule, sc.path, "advance", "SourceContentsIter advances by one", detail=str(adv))
    # the crate's iterators define `next` only: every other Iterator method (nth, step_by, skip, count, last, ...) is the
    # provided one built on `next`, so what `next` is shown to do above is what all of them do. An override needs review.
    n_it = 0
    for b in ctx.facts.bodies:
        if b.promoted is None and b.kind == "AssocFn" and not b.derived and (b.raw.get("impl_trait") or "") in (
                "core::iter::traits::iterator::Iterator", "core::iter::traits::double_ended::DoubleEndedIterator", "core::iter::traits::exact_size::ExactSizeIterator"):
            n_it += 1
            ctx.check(b.raw.get("name") in ("next", "size_hint") and b.raw["impl_trait"].endswith("::Iterator"), rule, b.path, "iterator:only-next",
                      "the iterator types of the crate implement `next` only (all adapters and positional methods derive from it; a `size_hint` is a capacity hint and yields nothing)")
    ctx.floor(rule, "iterators", "Iterator impls of the crate", n_it, 7)
    ctx.floor(rule, "accessors", "accessors checked", n, min_n if min_n is not None else (10 if only else 50))
