"""C19: make_relative_path."""
import pf
import q
from mir import Agg, Const, Named, Var
from rules.common import has_fact
from rules.typesrules import closure_ret_shape

LAM = "\u03bb"

MRP = "utils::make_relative_path"
HELP = "utils::find_common_prefix_of_sorted_vec"


def _promoted_chars(ctx, path):
    out = []
    for pb in ctx.facts.by_path.get(path, []):
        if pb.promoted is None:
            continue
        vals = []
        for bi, si, s, it in pb.locations():
            if not it and s["k"] == "assign":
                for x in pb.expr_of_rvalue(s["rv"]).walk():
                    if isinstance(x, Const) and x.int is not None and x.ty == "char":
                        vals.append(x.int)
        if vals:
            out.append(sorted(set(vals)))
    return out


def components(ctx, rule):
    b = ctx.body(MRP)
    fn = b.path
    NONEMPTY = "%s(Not(str::is_empty(p1)))" % LAM
    SPL = "Iterator::collect(Iterator::filter(str::split(%s,array(47,92)),%s))"  # separators: exactly '/' and '\\'
    tp = [l for l in sorted(b.var_names) if [sh for sh, _, _ in q.def_shapes(b, l, {})] == [SPL % ("arg2", NONEMPTY)]]
    bp = [l for l in sorted(b.var_names) if [sh for sh, _, _ in q.def_shapes(b, l, {})] == [SPL % ("arg1", NONEMPTY)]]
    if not ctx.check(len(tp) == 1 and len(bp) == 1, rule, fn, "roles", "target and base are split on the separator set and their empty components dropped"):
        return None
    roles = {tp[0]: "target_path", bp[0]: "base_path"}
    seps = _promoted_chars(ctx, MRP)
    ctx.check(all(s == [47, 92] for s in seps), rule, fn, "separators", "the separator set is exactly {'/', '\\\\'} (also decided by value in the split shapes above)", detail=str(seps))
    pops = [bi for bi, t in q.calls_to(b, "Vec::<T, A>::pop") if q.root_local(q.arg_expr(b, t, 0)) == bp[0]]
    lens = [bi for bi, t in q.calls_to(b, "Vec::<T, A>::len") if q.root_local(q.arg_expr(b, t, 0)) == bp[0]]
    slc = [bi for bi, t in q.calls_to(b, "Vec::<T, A>::as_slice") if q.root_local(q.arg_expr(b, t, 0)) == bp[0]]
    ok = len(pops) == 1 and bool(lens) and all(b.dominates(pops[0], x) for x in lens + slc)
    ctx.check(ok, rule, fn, "pop-before-use", "the base file's own name is removed before the base directory's components are used")
    return roles


def same_prefix(ctx, rule):
    b = ctx.body(MRP)
    fn = b.path
    roles = components(ctx, rule)
    if roles is None:
        return
    pfx = [l for l in sorted(b.var_names) if (q.value_shape(b, l, {}) or "").startswith("Option::map_or(utils::find_common_prefix_of_sorted_vec(")]
    if not ctx.check(len(pfx) == 1, rule, fn, "prefix", "one common-prefix length"):
        return
    d = [q.value_shape(b, pfx[0], roles)]
    ctx.check(d in (["Option::map_or(utils::find_common_prefix_of_sorted_vec(var:Vec<Cow<[&str]>>),0,fn:slice::len)"],
                    ["Option::map_or(utils::find_common_prefix_of_sorted_vec(var:[Cow<[&str]>; 2]),0,fn:slice::len)"]), rule, fn, "prefix:def",  # the two lists in a Vec or in a 2-array
              "the prefix length is the length of the common prefix found by the helper (0 when there is none), with no arithmetic on it", detail=str(d))
    r = dict(roles)
    r[pfx[0]] = "prefix"
    takes = [q.shape(b.expr_of_call(t), r) for bi, t in b.calls() if q.nice(t.get("callee")) in ("Iterator::take", "vec::from_elem")]
    ctx.check(len(takes) == 1 and (q.wild("Iterator::take(repeat::repeat(*),Sub(Vec::len(base_path),prefix))", takes[0]) or q.wild("vec::from_elem(*,Sub(Vec::len(base_path),prefix))", takes[0])), rule, fn, "climb",
              "one '..' per base-directory component below the common prefix", detail=str(takes))
    tails = [q.shape(b.expr_of_call(t), r) for bi, t in q.calls_to(b, "Index::index") if "RangeFull" not in q.shape(b.expr_of_call(t), r) and not q.shape(b.expr_of_call(t), r).startswith("array(") and not q.shape(b.expr_of_call(t), r).startswith("var:[Cow<")]
    ctx.check(tails == ["target_path[RangeFrom{start:prefix}]"], rule, fn, "tail", "followed by the target's components after that same prefix", detail=str(tails))
    ext = [q.shape(b.expr_of_call(t), r) for bi, t in q.calls_to(b, "Vec::<T, A>::extend_from_slice")]
    ctx.check(len(ext) == 1 and ext[0].endswith(",target_path[RangeFrom{start:prefix}])"), rule, fn, "append", "the tail is appended to the climbs")
    # the helper sees exactly the two lists, sorted by length, and returns a prefix of the first (shortest)
    aggs = sorted(q.shape(b.expr_of_rvalue(s["rv"]), r) for bi, si, s, it in b.locations() if not it and s["k"] == "assign" and s["rv"]["k"] == "agg" and s["rv"].get("adt", "").endswith("Cow"))
    ctx.check(aggs == ["Cow::Borrowed{0:base_path}", "Cow::Borrowed{0:target_path}"], rule, fn, "items", "the helper is given exactly the target and base component lists", detail=str(aggs))
    srt = [q.shape(b.expr_of_call(t), r) for bi, t in b.calls() if q.nice(t.get("callee")) in ("slice::sort_by_key", "slice::sort_unstable_by_key")]
    ctx.check(len(srt) == 1 and q.wild("slice::sort*_by_key(*,fn:*len)", srt[0]), rule, fn, "sorted-by-len", "the lists are ordered by length before the helper runs (it indexes the first as the shortest)", detail=str(srt))
    h = ctx.body(HELP)
    sl = [q.shape(hb.expr_of_call(t)).replace("^", "") for hb in [h] + list(ctx.facts.closures_of(HELP)) for bi, t in q.calls_to(hb, "Index::index")]
    lead = [x for x in sl if q.wild("arg1[0][RangeToInclusive{end:*}]", x)]
    ctx.check(len(lead) == 1 and all(x in lead or x == "arg1[0]" for x in sl), rule, h.path, "prefix-of-first", "the helper returns a leading slice of the first (shortest) list", detail=str(sl))
    cmp_ = [q.shape(h.expr_of_call(t)) for bi, t in h.calls() if q.nice(t.get("callee")) in ("PartialEq::ne", "PartialEq::eq")]
    ENUM = "try(Iterator::next(var:Enumerate<Iter<&str>>))"
    ok = len(cmp_) == 1 and cmp_[0] == q.eqs("ne", "slice::get(try(Iterator::next(var:Iter<Cow<[&str]>>)),%s.0)" % ENUM, "Option::Some{0:%s.1}" % ENUM)
    ctx.check(ok, rule, h.path, "componentwise", "components are compared position by position with the non-panicking get", detail=str(cmp_)[:300])
    # the scan stops at the first mismatch (a *prefix*): the mismatch edge leaves the component loop
    inner = [bi for bi, t in q.calls_to(h, "Iterator::next") if "Enumerate<Iter<&str>>" in q.shape(q.arg_expr(h, t, 0))]
    outer = [bi for bi, t in q.calls_to(h, "Iterator::next") if "Iter<Cow<[&str]>>" in q.shape(q.arg_expr(h, t, 0))]
    for d in range(len(h.blocks)):
        t = h.blocks[d]["term"]
        if t["k"] == "switch" and not h.blocks[d]["cleanup"] and q.shape(h.expr_of_operand(t["discr"])).startswith("PartialEq::ne(") and "slice::get(" in q.shape(h.expr_of_operand(t["discr"])):
            mism = t["otherwise"]
            okb = len(inner) == 1 and len(outer) == 1 and not h.reaches(mism, inner[0], avoid=[outer[0]]) and mism != inner[0]
            ctx.check(okb, rule, h.path, "stop-at-first-mismatch", "the comparison of one list stops at the first differing component (later agreements do not extend the prefix)", ctx.site(h, d))
            same = [tb for v, tb in t["arms"] if v == 0]
            upd = [site for l in sorted(h.var_names) for sh, site, _ in q.def_shapes(h, l, {}) if sh == "Option::Some{0:%s.0}" % ENUM]
            ctx.check(bool(same) and len(upd) == 1 and (upd[0][0] == same[0] or h.dominates(same[0], upd[0][0])), rule, h.path, "extend-on-match", "the prefix is extended exactly on a matching component")
    mins = [q.shape(h.expr_of_call(t)) for bi, t in h.calls() if q.nice(t.get("callee")) in ("PartialOrd::lt", "PartialOrd::le", "Ord::min", "cmp::min")]
    ctx.check(len(mins) == 1, rule, h.path, "min-over-lists", "the shortest agreement over all lists is kept", detail=str(mins))


def separators(ctx, rule):
    b = ctx.body(MRP)
    fn = b.path
    joins = [(bi, b.expr_of_call(t)) for bi, t in q.calls_to(b, "slice::join")]
    reps = [b.expr_of_call(t) for bi, t in b.calls() if q.nice(t.get("callee")) in ("repeat::repeat", "vec::from_elem")]  # repeat(x).take(n).collect() or vec![x; n]
    if not ctx.check(len(joins) == 1 and len(reps) == 1, rule, fn, "join+repeat", "the result is one join over climbs and components"):
        return
    def const_str(e):
        for x in e.walk():
            if isinstance(x, Const) and x.str_value() is not None:
                return x.str_value()
        return None
    sv = const_str(joins[0][1].args[1])
    rv = const_str(reps[0].args[0])
    ctx.check(rv is not None and rv.rstrip("/") == "..", rule, fn, "climb:..", "each climb is '..'", detail=repr(rv))
    # string-shape abstraction: components from split+filter contain no separator; an element
    # that can be followed by another element needs the join separator to be a path separator
    ctx.check(sv in ("/",), rule, fn, "join:separator", "separator-free components (and climbs) are joined with a path separator: every element that can be followed by another is separated from it",
              detail="join(%r) over repeat(%r) and split components" % (sv, rv))
    ctx.check(not ((rv or "").endswith("/") and sv == "/"), rule, fn, "no-double-separator", "climbs do not already end in a separator when the join adds one")
    dots = [bi for bi, si, s, it in b.locations() if not it and s["k"] == "assign" for x in b.expr_of_rvalue(s["rv"]).walk() if isinstance(x, Const) and x.str_value() == "."]
    calls_dot = [bi for bi, t in b.calls() for x in b.expr_of_call(t).walk() if isinstance(x, Const) and x.str_value() == "."]
    db = sorted(set(dots + calls_dot))
    ok = bool(db) and all(has_fact(b, d, {}, ("true", "Vec::is_empty(var:Vec<&str>)", None)) for d in db) and has_fact(b, joins[0][0], {}, ("false", "Vec::is_empty(var:Vec<&str>)", None))
    ctx.check(ok, rule, fn, "dot", "'.' is returned exactly when there is nothing to climb and nothing to append")


def path_pf(ctx, rule):
    bodies = [ctx.body(MRP), ctx.body(HELP)] + list(ctx.facts.closures_of(MRP))
    pf.check_bodies(ctx, rule, bodies)
