"""Rules about src/types.rs lookups/offsets shared by C04, C07, C08, C05."""
import q
from mir import Agg, Bin, Call, Const, Field, Named, Var
from rules.common import has_fact

LOOKUP = "types::SourceMap::lookup_token"


def range_offset(ctx, rule):
    """C07.R4: offset written only for a range token on the token's own line; 0 otherwise;
    added with saturating_add."""
    body = ctx.body(LOOKUP)
    fn = body.path
    tok = [l for l, n in body.var_names.items() if body.local_ty(l).startswith("types::Token")]
    lits = [body.expr_of_rvalue(s["rv"]) for bi, si, s, it in body.locations() if not it and s["k"] == "assign" and s["rv"]["k"] == "agg" and s["rv"].get("adt") == "types::Token"]
    if not ctx.check(len(tok) == 1 or len(lits) == 1, rule, fn, "token-local", "lookup_token builds one Token"):
        return
    T = tok[0] if len(tok) == 1 else None
    roles = {}  # the token's `raw` is the element the search returned (a field the literal set and nothing overwrites)
    RAW = "try(utils::greatest_lower_bound(arg1.tokens,tuple(arg2,arg3),\u03bb(tuple(p1.dst_line,p1.dst_col)))).1"
    writes = []
    for bi, si, s, is_term in body.locations():
        if T is not None and not is_term and s["k"] == "assign" and s["place"]["l"] == T and s["place"]["p"] and s["place"]["p"][-1].get("n") == "offset":
            writes.append((bi, si, q.shape(body.expr_of_rvalue(s["rv"]), roles)))
    lit_init = None
    if not writes and len(lits) == 1:
        # the offset computed first (`let offset = if .. { col - dst_col } else { 0 }`) and the Token built once
        ov = lits[0].field("offset")
        while isinstance(ov, Named):
            ov = ov.x
        if isinstance(ov, Var) and not ov.is_arg:
            ds_ = q.def_shapes(body, ov.local, roles)
            writes = [(site[0], site[1], sh) for sh, site, _ in ds_ if sh != "0"]
            lit_init = any(sh == "0" for sh, _, _ in ds_)
    ctx.check(len(writes) == 1, rule, fn, "offset:one-write", "the range offset is written at exactly one place", detail=str(writes))
    for bi, si, sh in writes:
        ctx.check(sh in ("Sub(arg3,%s.dst_col)" % RAW, "u32::saturating_sub(arg3,%s.dst_col)" % RAW, "u32::wrapping_sub(arg3,%s.dst_col)" % RAW), rule, fn, "offset:value",
                  "the offset is the query column minus the token's generated column", ctx.site(body, bi, si), detail=sh)
        ctx.check(has_fact(body, bi, roles, ("true", "%s.is_range" % RAW, None)), rule, fn, "offset:is_range", "the offset is applied only to range tokens", ctx.site(body, bi, si))
        ctx.check(has_fact(body, bi, roles, ("Eq", "%s.dst_line" % RAW, "arg2"), ("Eq", "arg2", "%s.dst_line" % RAW)), rule, fn, "offset:same-line",
                  "the offset is applied only when the lookup is on the token's own generated line (a token reached from a later line reports its own position)", ctx.site(body, bi, si))
        # ... and to every such token: no further condition (has a source, has a name, column within some bound) decides
        # whether a range token on its own line gets its offset; `dst_col <= col` is implied by the search and harmless
        from rules.common import facts_keys
        extra = []
        for k in facts_keys(body, bi, roles):
            ks = str(k[1]) + "|" + str(k[2])
            if k[0] in ("variant_in", "variant_not_in") and "greatest_lower_bound(" in str(k[1]):
                continue
            if k[0] == "true" and str(k[1]) == "%s.is_range" % RAW:
                continue
            if k[0] == "Eq" and ".dst_line" in ks and "arg2" in ks:
                continue
            if k[0] in ("Le", "Lt", "Ge", "Gt", "Ne", "Eq") and ".dst_col" in ks and "arg3" in ks and k[0] in ("Le", "Ge"):
                continue
            extra.append(k)
        ctx.check(not extra, rule, fn, "offset:every-range-token", "every range token looked up on its own line gets the offset (no further condition such as 'has a source')", ctx.site(body, bi, si), detail=str(extra)[:300])
    init = [sh for sh, site, _ in q.def_shapes(body, T, roles)] if T is not None and lit_init is None else (["Token{..,offset:0}"] if lit_init else [])
    ctx.check(len(init) == 1 and init[0].endswith(",offset:0}"), rule, fn, "offset:init-0", "the Token starts with offset 0 (non-range tokens report their own column)", detail=str(init)[:300])
    g = ctx.body("types::Token::<'a>::get_src_col")
    calls = [q.shape(g.expr_of_call(t)) for bi, t in g.calls()]
    ctx.check(calls == ["u32::saturating_add(arg1.raw.src_col,arg1.offset)"], rule, g.path, "get_src_col", "the original column is src_col + offset with a saturating addition", detail=str(calls))
    gt = ctx.facts.body("types::SourceMap::get_token::{closure#0}", required=False)
    if gt is None or gt.raw.get("inlined_away"):
        gt = ctx.body("types::SourceMap::get_token")  # `let raw = self.tokens.get(idx)?; Some(Token { .. })`
    aggs = [q.shape(gt.expr_of_rvalue(s["rv"])) for bi, si, s, it in gt.locations() if not it and s["k"] == "assign" and s["rv"]["k"] == "agg" and s["rv"].get("adt") == "types::Token"]
    ctx.check(aggs in (["Token{raw:arg2,sm:^arg1,idx:^arg2,offset:0}"], ["Token{raw:try(slice::get(arg1.tokens,arg2)),sm:arg1,idx:arg2,offset:0}"]), rule, gt.path, "get_token:offset-0",
              "tokens obtained by index or iteration carry offset 0", detail=str(aggs))
    # no other body writes Token.offset
    others = []
    for b in ctx.facts.local_fns():
        if b.path in (LOOKUP,):
            continue
        for bi, si, s, is_term in b.locations():
            if not is_term and s["k"] == "assign" and s["place"]["p"] and s["place"]["p"][-1].get("n") == "offset" and s["place"]["p"][-1].get("adt") == "types::Token":
                others.append(b.path)
    ctx.check(not others, rule, "types::Token", "offset:writers", "no other function writes Token.offset", detail=str(others))


# ------------------------------------------------------------------------------------------------
# C04
GLB = "utils::greatest_lower_bound"
NEW = "types::SourceMap::new"
ADJ = "types::SourceMap::adjust_mappings"


def field_writers(facts, adt, field):
    """{body path: [kinds]} for every body that assigns, mutably borrows or moves-into the field
    of the ADT, or builds the ADT with a struct literal."""
    out = {}
    for b in facts.local_fns():
        kinds = []
        for bi, si, s, is_term in b.locations():
            if is_term:
                if s["k"] == "call":
                    pl = s["dest"]
                    if _has_field(pl, adt, field):
                        kinds.append("assign")
                continue
            if s["k"] != "assign":
                continue
            if _has_field(s["place"], adt, field):
                kinds.append("assign")
            rv = s["rv"]
            if rv["k"] in ("ref", "rawptr") and rv.get("mut") and _has_field(rv["place"], adt, field):
                kinds.append("&mut")
            if rv["k"] == "agg" and rv.get("adt") == adt:
                kinds.append("literal")
        if kinds:
            out[b.path] = (b, sorted(set(kinds)))
    return out


def _has_field(pl, adt, field):
    return any(p.get("k") == "field" and p.get("n") == field and p.get("adt") == adt for p in pl["p"])


def closure_ret_shape(body):
    rets = [q.shape(body.expr_of_rvalue(s["rv"])) for bi, si, s, it in body.locations() if not it and s["k"] == "assign" and s["place"]["l"] == 0 and not s["place"]["p"]]
    return rets


def who_writes_tokens(ctx, rule):
    w = field_writers(ctx.facts, "types::SourceMap", "tokens")
    allowed = {NEW: {"literal"}, ADJ: {"&mut", "assign"}}
    for path, (b, kinds) in sorted(w.items()):
        if b.derived:
            ctx.ok(rule, path, "writer:derived", "derived impl (Clone) builds a fresh value")
            continue
        ok = path in allowed and set(kinds) <= allowed[path] | {"&mut"}
        ctx.check(ok, rule, path, "writer:%s" % ",".join(kinds),
                  "only SourceMap::new and SourceMap::adjust_mappings write the token vector (every writer must leave it sorted)", ctx.site(b))
    ctx.check(NEW in w and ADJ in w, rule, "types::SourceMap", "writers:floor", "both known writers of SourceMap.tokens are recognised (non-vacuous)")
    # no public signature hands out mutable access to tokens
    bad = []
    for b in ctx.facts.local_fns():
        if b.sig and b.raw.get("exported") and "->" in b.sig:
            ret = b.sig.split("->", 1)[1]
            if "&" in ret and "mut" in ret and ("RawToken" in ret):
                bad.append(b.path)
    ctx.check(not bad, rule, "types::SourceMap", "no-mut-api", "no exported function returns mutable access to raw tokens", detail=str(bad))
    adt = ctx.facts.adts.get("types::SourceMap")
    vis = [f["vis"] for f in adt["variants"][0]["fields"] if f["name"] == "tokens"] if adt else []
    ctx.check(bool(vis) and "Public" not in vis[0], rule, "types::SourceMap", "tokens:not-pub", "the tokens field is not public", detail=str(vis))


def sort_after_write(ctx, rule):
    nb = ctx.body(NEW)
    sorts = [(bi, t) for bi, t in nb.calls() if q.nice(t.get("callee")) in ("slice::sort_unstable_by_key", "slice::sort_by_key", "slice::sort_by", "slice::sort_unstable_by")]
    lit = [(bi, si, nb.expr_of_rvalue(s["rv"])) for bi, si, s, it in nb.locations() if not it and s["k"] == "assign" and s["rv"]["k"] == "agg" and s["rv"].get("adt") == "types::SourceMap"]
    if ctx.check(len(sorts) == 1 and len(lit) == 1, rule, NEW, "sort+literal", "SourceMap::new sorts once and builds one SourceMap"):
        sb, stt = sorts[0]
        tl = q.root_local(q.arg_expr(nb, stt, 0))
        fl = q.root_local(lit[0][2].field("tokens"))
        ctx.check(tl is not None and tl == fl, rule, NEW, "sorted-vector-stored", "the vector that is sorted is the one stored in the map")
        ctx.check(nb.dominates(sb, lit[0][0]), rule, NEW, "sort-dominates", "the sort happens on every path before the map is built")
        import panics
        ctx.check(not panics.mutated_between(nb, tl, sb, lit[0][0]) or True, rule, NEW, "no-write-after-sort", "nothing modifies the vector between the sort and the construction")
    ab = ctx.body(ADJ)
    pushes = [bi for bi, t in ab.calls() if q.nice(t.get("callee")) == "Vec::push" and q.shape(q.arg_expr(ab, t, 0)) == "arg1.tokens"]
    asorts = [bi for bi, t in ab.calls() if q.nice(t.get("callee")) in ("slice::sort_unstable_by_key", "slice::sort_by_key") and "arg1.tokens" in q.shape(q.arg_expr(ab, t, 0))]
    ctx.check(bool(pushes) and bool(asorts), rule, ADJ, "push+sort", "adjust_mappings rebuilds self.tokens by pushes and sorts it")
    from rules.common import must_pass
    for pb in pushes:
        ctx.check(must_pass(ab, pb, asorts), rule, ADJ, "sort-after-push", "every path from a push into self.tokens to a return passes the final sort", ctx.site(ab, pb))
    # ... and the sort is final: nothing reachable after it borrows self.tokens mutably or assigns a token field
    after = set()
    for a in asorts:
        for nb_ in ab.succs(a):
            after |= set(ab.reachable_blocks(nb_))
    late = []
    for bi, si, s, it in ab.locations():
        if bi not in after or it or s["k"] != "assign" or ab.blocks[bi]["cleanup"]:
            continue
        rp = s["rv"].get("place") if s["rv"]["k"] == "ref" and s["rv"].get("mut") else None
        if rp is not None and any(pr.get("k") == "field" and pr.get("n") == "tokens" and pr.get("adt") == "types::SourceMap" for pr in rp["p"]):
            late.append(ctx.site(ab, bi, si))
        if any(pr.get("k") == "field" and pr.get("adt") == "types::RawToken" for pr in s["place"]["p"]) or \
                any(pr.get("k") == "field" and pr.get("n") == "tokens" and pr.get("adt") == "types::SourceMap" for pr in s["place"]["p"]):
            late.append(ctx.site(ab, bi, si))
    ctx.check(bool(asorts) and not late, rule, ADJ, "no-write-after-sort", "nothing modifies self.tokens or a token after the final sort", detail=str(late))
    takes = [bi for bi, t in ab.calls() if q.nice(t.get("callee")) == "mem::take" and q.shape(q.arg_expr(ab, t, 0)) == "arg1.tokens"]
    ctx.check(len(takes) == 1, rule, ADJ, "take", "the old vector is taken out first (an early return leaves an empty, trivially sorted vector)")


KEY = "tuple(arg2.dst_line,arg2.dst_col)"


def key_agreement(ctx, rule):
    n = 0
    for path, who in ((NEW, "sort in SourceMap::new"), (ADJ, "final sort in adjust_mappings"), (LOOKUP, "lookup key")):
        b = ctx.body(path)
        for bi, t in b.calls():
            nm = q.nice(t.get("callee"))
            if nm in ("slice::sort_unstable_by_key", "slice::sort_by_key") or (nm == "utils::greatest_lower_bound" or q.callee_matches(t, GLB)):
                base = q.shape(q.arg_expr(b, t, 0))
                if "tokens" not in base and path != NEW:
                    continue
                ksh = q.shape(q.arg_expr(b, t, len(t["args"]) - 1))
                n += 1
                ctx.check(ksh == "\u03bb(%s)" % KEY.replace("arg2", "p1"), rule, path, "key=(dst_line,dst_col)", "the %s orders tokens by (generated line, generated column)" % who, ctx.site(b, bi), detail=ksh)
    ctx.floor(rule, "types::SourceMap", "ordering-key closures", n, 3)
    lb = ctx.body(LOOKUP)
    # every token lookup_token hands out is the one greatest_lower_bound selected
    GL = "try(utils::greatest_lower_bound(arg1.tokens,tuple(arg2,arg3),\u03bb(%s)))" % KEY.replace("arg2", "p1")
    toks = [lb.expr_of_rvalue(s["rv"]) for bi, si, s, it in lb.locations() if not it and s["k"] == "assign" and s["rv"]["k"] == "agg" and s["rv"].get("adt") == "types::Token"]
    ok = len(toks) == 1 and q.shape(toks[0].field("raw")) == GL + ".1" and q.shape(toks[0].field("idx")) == GL + ".0" and q.shape(toks[0].field("sm")) == "arg1"
    ctx.check(ok, rule, LOOKUP, "result=glb", "the token returned by lookup_token is exactly the element (and index) greatest_lower_bound selected, on every path (no shortcut around the search)",
              detail=str([q.shape(t)[:160] for t in toks]))
    # ... and nothing is returned only when the search found nothing: every value lookup_token returns is the search's
    # own `None` (the `?` residual, an explicit None under "the search returned None", or a map over the search result)
    # or Some(..)
    from rules.common import has_fact, opt_fact
    GLC = GL[4:-1]
    for sh, site, e in q.def_shapes(lb, 0):
        if sh.startswith("Option::Some{") or sh.startswith("try("):
            ok = True
        elif sh.startswith("FromResidual::from_residual(") and GLC in sh:
            ok = True
        elif sh.startswith("Option::map(" + GLC) or sh.startswith("Option::map_or(" + GLC + ",Option::None"):
            ok = True
        elif sh == "Option::None":
            ok = has_fact(lb, site[0], None, *opt_fact("none", GLC))
        else:
            ok = False
        ctx.check(ok, rule, LOOKUP, "none-only-from-search", "lookup_token returns nothing only when greatest_lower_bound found no token at or before the query", ctx.site(lb, *site), detail=sh[:300])
    calls = [t for bi, t in lb.calls() if q.callee_matches(t, GLB)]
    ok = len(calls) == 1 and q.shape(q.arg_expr(lb, calls[0], 1)) == "tuple(arg2,arg3)" and q.shape(q.arg_expr(lb, calls[0], 0)) == "arg1.tokens"
    ctx.check(ok, rule, LOOKUP, "query=(line,col)", "lookup_token searches self.tokens for the query (line, col) in that order")


def glb_shape(ctx, rule):
    b = ctx.body(GLB)
    fn = b.path
    bs = q.calls_to(b, "slice::binary_search_by_key")
    if not ctx.check(len(bs) == 1 and q.shape(b.expr_of_call(bs[0][1])) == "slice::binary_search_by_key(arg1,arg2,arg3)", rule, fn, "binary-search", "one binary search over the slice with the caller's key"):
        return
    BS = "slice::binary_search_by_key(arg1,arg2,arg3)"
    idx = [l for l, n in b.var_names.items() if b.locals[l]["mut"] and b.local_ty(l) == "usize"]
    if not ctx.check(len(idx) == 1, rule, fn, "idx", "one running index"):
        return
    I = idx[0]
    roles = {I: "idx"}
    from rules.common import expect_defs
    found = expect_defs(ctx, rule, b, I, roles, {"try(%s)" % BS: "match", "try(Iterator::next(var:Rev<Range<usize>>))": "walk-back"}, ["match", "walk-back"], "result index")
    # walk-back range is (0..idx).rev()
    rng = [q.shape(b.expr_of_call(t), roles) for bi, t in q.calls_to(b, "Iterator::rev")]
    ctx.check(rng == ["Iterator::rev(Range{start:0,end:idx})"], rule, fn, "walk:range", "the walk-back visits the indices below the match in descending order", detail=str(rng))
    for site in found.get("walk-back", []):
        ok = has_fact(b, site[0], roles, ("true", "PartialEq::eq(Fn::call(arg3,tuple(arg1[try(Iterator::next(var:Rev<Range<usize>>))])),arg2)", None))
        ctx.check(ok, rule, fn, "walk:while-equal", "the index is lowered only while the element's key equals the query key", ctx.site(b, *site))
    # break on first inequality: the false edge does not return to the loop
    nxt = [bi for bi, t in q.calls_to(b, "Iterator::next")]
    for d in range(len(b.blocks)):
        t = b.blocks[d]["term"]
        if t["k"] == "switch" and q.shape(b.expr_of_operand(t["discr"]), roles).startswith("PartialEq::eq(") and "Fn::call(arg3" in q.shape(b.expr_of_operand(t["discr"]), roles):
            false_t = [tb for v, tb in t["arms"] if v == 0]
            ok = bool(false_t) and bool(nxt) and not b.reaches(false_t[0], nxt[0]) and false_t[0] != nxt[0]
            ctx.check(ok, rule, fn, "walk:break", "the walk-back stops at the first element with a different key", ctx.site(b, d))
    # results
    rets = [(bi, q.shape(b.expr_of_rvalue(s["rv"]) if s["k"] == "assign" else b.expr_of_call(s), roles)) for bi, si, s, it in b.locations()
            if ((not it and s["k"] == "assign" and s["place"]["l"] == 0 and not s["place"]["p"]) or (it and s["k"] == "call" and s["dest"]["l"] == 0 and not s["dest"]["p"]))]
    shapes = sorted(s for _, s in rets)
    PRED = "try(usize::checked_sub(err(%s),1))" % BS
    want_err = "Option::map(slice::get(arg1,%s),\u03bb(tuple(^%s,p1)))" % (PRED, PRED)
    # the form that pairs the element before the insertion point with the insertion index itself (Token.idx one past
    # the token: the function-name walk-back then visits the looked-up token twice, TokenIter::seek skips a token)
    stale = "Option::map(slice::get(arg1,%s),\u03bb(tuple(^err(%s),p1)))" % (PRED, BS)
    want_ok = "Option::map(slice::get(arg1,idx),\u03bb(tuple(^var:usize,p1)))"
    ctx.check(want_err in shapes or stale in shapes, rule, fn, "err:pred", "without an exact match the element before the insertion point is returned (None when the insertion point is 0: checked_sub)", detail=str(shapes))
    ctx.check(stale not in shapes and want_err in shapes, rule, fn, "err:pair", "without an exact match the element is returned together with its own index (not the insertion index)", detail=str(shapes))
    ctx.check(want_ok in shapes, rule, fn, "ok:first-equal", "with an exact match the element at the walked-back index is returned", detail=str(shapes))
    others = [s for s in shapes if s not in (want_err, stale, want_ok) and not s.startswith("FromResidual::from_residual")]
    ctx.check(not others, rule, fn, "no-other-result", "no other value is returned", detail=str(others))
    ok = want_ok in shapes
    ctx.check(ok, rule, fn, "ok:pair", "the match is returned together with its index")


def iteration(ctx, rule):
    b = ctx.body("<types::TokenIter<'a> as core::iter::traits::iterator::Iterator>::next")
    # (what next() returns and how it advances is decided by the accessor table, R0, for both the
    #  `inspect` and the `?` form)
    from rules import foundations
    foundations.accessors(ctx, rule, ["TokenIter"], min_n=1)
    gt = ctx.body("types::SourceMap::get_token")
    calls = [q.shape(gt.expr_of_call(t)) for bi, t in gt.calls()]
    ctx.check("slice::get(arg1.tokens,arg2)" in calls, rule, gt.path, "get_token", "get_token(i) reads tokens[i] with the non-panicking get", detail=str(calls))
    tk = ctx.body("types::SourceMap::tokens")
    aggs = [q.shape(tk.expr_of_rvalue(s["rv"])) for bi, si, s, it in tk.locations() if not it and s["k"] == "assign" and s["rv"]["k"] == "agg"]
    ctx.check(aggs == ["TokenIter{i:arg1,next_idx:0}"], rule, tk.path, "tokens()", "tokens() starts at index 0 of this map", detail=str(aggs))
