"""C06 - malformed mappings are rejected, never silently mis-decoded."""
import q
from rules import decoderrules, vlqrules
from rules.common import error_construct_blocks, run_rules

EXPLANATION = ("C06: every rejection the property names is shown to be a guard that dominates the use it protects: "
               "(R1) value-partition reachability over the segment length proves that 2-, 3- and >5-field segments reach "
               "BadSegmentSize and never the token construction; (R2/R2b) the values stored as source/name index are the "
               "constant !0 or were compared with 0 and the right array length while still 64-bit; (R3) the VLQ reader's "
               "leftover/no-values/overflow/foreign-byte guards; (R4) every error variant is still constructed; (R5) the "
               "range-mapping bitfield reader rejects foreign bytes."
               " (R8) the arrays the indices were checked against reach the map unshortened; (R9) kind dispatch cannot route a regular map around decode_regular; (R10) decode_hermes hands the raw map over as parsed."
               " (R11) the decode loop accumulators are reset/advanced only as the v3 format says, so an index that passed its range check is the index stored."
               " (R12) decode_index decodes every raw section of an index map (one section per raw section, none skipped), so the checks above apply to every embedded map.")
NOT_DECIDED = "nothing value-level beyond the listed guards; table contents are decided by C11.R1."


def r4(ctx):
    want = {"decoder::decode_regular": ["BadSegmentSize", "BadSourceReference", "BadNameReference"],
            "vlq::parse_vlq_segment_into": ["VlqLeftover", "VlqNoValues", "VlqOverflow", "InvalidBase64"],
            "decoder::decode_rmi": ["InvalidBase64"]}
    n = 0
    for fn, variants in want.items():
        body = ctx.body(fn)
        for v in variants:
            sites = q.err_variant_constructions(body, v)
            n += len(sites)
            ctx.check(bool(sites), "C06.R4", fn, "constructs:%s" % v, "Error::%s is constructed in %s (a rejection that is never constructed has been deleted)" % (v, fn))
    ctx.floor("C06.R4", "errors", "error constructions", n, 8)


RULES = {
    # index maps: every raw section is decoded (none skipped, overwritten or decoded lazily), so a malformed embedded map
    # cannot hide behind another section
    "C06.R12": lambda ctx: __import__("rules.bldrules", fromlist=["x"]).sections_sorted(ctx, "C06.R12"),
    # no segment is skipped on its way to the arity and range checks (accumulator rule: every parsed segment is processed)
    "C06.R11": lambda ctx: __import__("rules.decoderrules", fromlist=["x"]).accumulators(ctx, "C06.R11"),
    "C06.RG": lambda ctx: __import__("rules.foundations", fromlist=["x"]).no_global_state(ctx, "C06.RG"),
    "C06.R10": lambda ctx: __import__("rules.decoderrules", fromlist=["x"]).hermes_regular_part(ctx, "C06.R10"),
    # what was validated is what is stored (the arrays the indices were checked against reach the map unshortened), and
    # the mappings are validated at all (kind dispatch cannot route a regular map around decode_regular)
    "C06.R8": lambda ctx: __import__("rules.decoderrules", fromlist=["x"]).handover(ctx, "C06.R8"),
    "C06.R9": lambda ctx: __import__("rules.decoderrules", fromlist=["x"]).dispatch(ctx, "C06.R9"),
    "C06.R7": lambda ctx: __import__("rules.decoderrules", fromlist=["x"]).range_reader(ctx, "C06.R7"),
    "C06.R6": lambda ctx: __import__("rules.decoderrules", fromlist=["x"]).section_errors(ctx, "C06.R6"),
    "C06.RL": lambda ctx: __import__("rules.common", fromlist=["x"]).loop_exit_rule(ctx, "C06.RL", {'decoder::decode_regular': 0, 'vlq::parse_vlq_segment_into': 0}),
    "C06.R1": lambda ctx: decoderrules.arity(ctx, "C06.R1"),
    "C06.R2": lambda ctx: decoderrules.sanitised_indices(ctx, "C06.R2"),
    "C06.R3": lambda ctx: vlqrules.reader_shape(ctx, "C06.R3"),
    "C06.R4": r4,
    "C06.R5": lambda ctx: decoderrules.rmi_reader(ctx, "C06.R5"),
}


def check(ctx):
    run_rules(ctx, RULES)
