"""C11 - VLQ codec exactness (structural clauses)."""
from rules import vlqrules
from rules.common import guarded

EXPLANATION = ("C11: decides the structural clauses of the VLQ codec: (R1) the alphabet and reverse tables, compared "
               "exhaustively over all 256 entries from the compiler-evaluated constants; (R2) the bit layout of writer and "
               "reader (sign in bit 0, 5-bit groups, continuation bit 5, shift step 5, do-while emission) read from the "
               "definitions of the running variables in MIR; (R3) the reader's error guards (leftover, no values, checked "
               "shift, foreign-byte sentinel).")
NOT_DECIDED = "decode(encode(xs)) == xs and canonical-text idempotence as value-level statements over the integer ranges."
ASSUMPTIONS = ["|n| < 2^62 for encode_vlq inputs (the map encoder only passes differences of two u32)"]


def check(ctx):
    guarded(ctx, "C11.R1", "vlq::<consts>", lambda: vlqrules.tables(ctx, "C11.R1"))
    guarded(ctx, "C11.R2w", vlqrules.WRITER, lambda: vlqrules.writer_shape(ctx, "C11.R2w"))
    guarded(ctx, "C11.R2r", vlqrules.READER, lambda: vlqrules.reader_shape(ctx, "C11.R2r"))
