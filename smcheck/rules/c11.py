"""C11 - VLQ codec exactness (structural clauses)."""
from rules import vlqrules
from rules.common import run_rules

EXPLANATION = ("C11: decides the structural clauses of the VLQ codec: (R1) the alphabet and reverse tables, compared "
               "exhaustively over all 256 entries from the compiler-evaluated constants; (R2) the bit layout of writer and "
               "reader (sign in bit 0, 5-bit groups, continuation bit 5, shift step 5, do-while emission) read from the "
               "definitions of the running variables in MIR; (R3) the reader's error guards (leftover, no values, checked "
               "shift, foreign-byte sentinel); (R4) panic-freedom of the codec under the 62-bit precondition.")
NOT_DECIDED = "decode(encode(xs)) == xs and canonical-text idempotence as value-level statements over the integer ranges."
ASSUMPTIONS = ["|n| < 2^62 for encode_vlq inputs (the map encoder only passes differences of two u32)"]


def r4(ctx):
    import pf
    pf.check_bodies(ctx, "C11.R4", [ctx.body(vlqrules.READER), ctx.body(vlqrules.WRITER), ctx.body("vlq::parse_vlq_segment"), ctx.body("vlq::generate_vlq_segment")])


RULES = {
    "C11.RG": lambda ctx: __import__("rules.foundations", fromlist=["x"]).no_global_state(ctx, "C11.RG"),
    "C11.RL": lambda ctx: __import__("rules.common", fromlist=["x"]).loop_exit_rule(ctx, "C11.RL", {'vlq::parse_vlq_segment_into': 0, 'vlq::encode_vlq': 1, 'vlq::generate_vlq_segment': 0}),
    "C11.R1": lambda ctx: vlqrules.tables(ctx, "C11.R1"),
    "C11.R2w": lambda ctx: vlqrules.writer_shape(ctx, "C11.R2w"),
    "C11.R2r": lambda ctx: vlqrules.reader_shape(ctx, "C11.R2r"),
    "C11.R3": lambda ctx: vlqrules.wrappers(ctx, "C11.R3"),
    "C11.R4": r4,
}


def check(ctx):
    run_rules(ctx, RULES)
