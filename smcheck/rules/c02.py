"""C02 - decoding follows the Source Map v3 wire format."""
from rules import bldrules, decoderrules, typesrules
from rules.common import run_rules

EXPLANATION = ("C02: the decoder's structure is compared with the frozen v3 table: (R1) generated line = index of the ';' "
               "piece, five accumulators updated from fields 0..4 in the v3 order, only the generated column reset per line; "
               "(R2) arity gating by value-partition reachability over the segment length and !0 tombstones; (R3) kind "
               "dispatch over all four presence combinations; (R4) debug_id.or(debugId); (R5) key names and key->field "
               "binding from the derived serde impls; (R6) the sourceRoot joining rule over all 16 predicate combinations "
               "and cache coherence; (R7) lenient conversions; (R8) tokens sorted on construction."
               " (R10) the data-URL entry point: preamble and alphabet; (R11) decode_hermes hands the raw map to decode_regular as parsed."
               " (R12) decode_regular rejects only for the reviewed reasons (no added error exits); (RW) the wire structs RawSourceMap/RawSection carry derived serde impls only, so key names and optionality are exactly what the attributes say.")
NOT_DECIDED = "equality with an independent decoder on all documents (value-level)."

RULES = {
    "C02.RW": lambda ctx: __import__("rules.foundations", fromlist=["x"]).wire_types_derived_only(ctx, "C02.RW"),
    "C02.R12": lambda ctx: decoderrules.rejections_exact(ctx, "C02.R12"),
    "C02.RG": lambda ctx: __import__("rules.foundations", fromlist=["x"]).no_global_state(ctx, "C02.RG"),
    "C02.R11": lambda ctx: __import__("rules.decoderrules", fromlist=["x"]).hermes_regular_part(ctx, "C02.R11"),
    # the data-URL entry point: preamble and alphabet of the reader
    "C02.R10": lambda ctx: __import__("rules.detrules", fromlist=["x"]).data_url_pairing(ctx, "C02.R10"),
    "C02.R8v": lambda ctx: __import__("rules.vlqrules", fromlist=["x"]).reader_shape(ctx, "C02.R8v"),
    "C02.RL": lambda ctx: __import__("rules.common", fromlist=["x"]).loop_exit_rule(ctx, "C02.RL", {'decoder::decode_regular': 0, 'decoder::decode_index': 0, 'decoder::decode_rmi': 0}),
    "C02.R1": lambda ctx: decoderrules.accumulators(ctx, "C02.R1"),
    "C02.R1b": lambda ctx: decoderrules.range_reader(ctx, "C02.R1b"),
    "C02.R2": lambda ctx: decoderrules.arity(ctx, "C02.R2"),
    "C02.R3": lambda ctx: decoderrules.dispatch(ctx, "C02.R3"),
    "C02.R4": lambda ctx: decoderrules.handover(ctx, "C02.R4"),
    "C02.R5": lambda ctx: decoderrules.key_names(ctx, "C02.R5"),
    "C02.R6": lambda ctx: bldrules.prefix_source(ctx, "C02.R6"),
    "C02.R6b": lambda ctx: bldrules.cache_coherence(ctx, "C02.R6b"),
    "C02.R0": lambda ctx: __import__("rules.foundations", fromlist=["x"]).accessors(ctx, "C02.R0", None),
    "C02.R9a": lambda ctx: __import__("rules.hdrrules", fromlist=["x"]).stream_expected(ctx, "C02.R9a") and None,
    "C02.R9b": lambda ctx: __import__("rules.hdrrules", fromlist=["x"]).slice_expected(ctx, "C02.R9b") and None,
    "C02.R9c": lambda ctx: __import__("rules.hdrrules", fromlist=["x"]).chunk_independence(ctx, "C02.R9c"),
    "C02.R8": lambda ctx: typesrules.sort_after_write(ctx, "C02.R8"),
    "C02.R8b": lambda ctx: typesrules.key_agreement(ctx, "C02.R8b"),
}


def check(ctx):
    run_rules(ctx, RULES)
