"""Rules about src/vlq.rs shared by C03, C06 and C11."""
import absint
import q
from mir import Bin, Call, Cast, Const, Index, Named, Un, Var
from rules.common import (RFC4648, const_bytes, error_construct_blocks, error_returned, expect_defs, has_fact,
                          must_pass, residual_blocks, result_blocks, strip_casts)

READER = "vlq::parse_vlq_segment_into"
WRITER = "vlq::encode_vlq"


def tables(ctx, rule):
    """C11.R1: alphabet table and reverse table, exhaustively over all 256 entries."""
    f = ctx.facts
    fn = "vlq::<consts>"
    chars = f.consts.get("vlq::B64_CHARS")
    rev = f.consts.get("vlq::B64")
    if not ctx.check(chars is not None and rev is not None, rule, fn, "tables-present",
                     "constants vlq::B64_CHARS and vlq::B64 exist and were evaluated by the compiler"):
        return
    cb = bytes(const_bytes(chars))
    rb = rev["alloc"]["bytes"]
    ctx.check(cb == RFC4648, rule, fn, "B64_CHARS=rfc4648", "B64_CHARS equals the RFC 4648 base64 alphabet (64 entries)",
              detail="found %r" % cb)
    ctx.check(len(rb) == 256, rule, fn, "B64:len", "reverse table has 256 entries")
    bad = []
    signed = [b - 256 if b > 127 else b for b in rb]
    for i in range(64):
        if i < len(cb) and signed[cb[i]] != i:
            bad.append("B64[%r]=%d want %d" % (chr(cb[i]), signed[cb[i]], i))
    ctx.check(not bad, rule, fn, "B64:inverse", "B64[B64_CHARS[i]] == i for all 64 digits", detail="; ".join(bad[:5]))
    foreign = [i for i in range(256) if i not in cb]
    nonneg = [i for i in foreign if signed[i] >= 0]
    ctx.check(not nonneg, rule, fn, "B64:foreign-negative", "all 192 non-alphabet bytes map to a negative sentinel",
              detail="non-negative entries for bytes %s" % nonneg[:8])
    ctx.count("table_entries_compared", 256 + 64)


def reader_roles(ctx, body):
    """Identify cur / shift / enc / rv by structure, not by name."""
    roles = {}
    # rv: parameter whose pointee is pushed to
    pushes = q.calls_to(body, "Vec::<T, A>::push")
    push = None
    for bi, t in pushes:
        a0 = q.root_local(q.arg_expr(body, t, 0))
        if a0 is not None and a0 <= body.arg_count:
            push = (bi, t)
            roles[a0] = "rv"
    if push is None:
        raise ValueError("no Vec::push into a parameter found")
    cur = None
    for l in range(len(body.locals)):
        if body.local_ty(l) != "i64":
            continue
        for sh_, site, e in q.def_shapes(body, l, {l: "cur"}):
            if (sh_.startswith("Add(cur,") or sh_.startswith("BitOr(cur,")) and "checked_shl(" in sh_:
                cur = l
    if cur is None:
        cur = q.root_local(strip_casts(q.arg_expr(body, push[1], 1)))
    if cur is None:
        raise ValueError("no accumulator found")
    roles[cur] = "cur"
    # shift: second operand of checked_shl (or shift amount)
    shl = q.calls_to(body, "checked_shl")
    if shl:
        sh = q.root_local(strip_casts(q.arg_expr(body, shl[0][1], 1)))
        if sh is not None:
            roles[sh] = "shift"
    # enc: value derived from the reverse table
    cands = []
    for l in range(len(body.locals)):
        if body.var_names.get(l) is None:
            continue
        for sh_, site, e in q.def_shapes(body, l, {}):
            x = strip_casts(e)
            if isinstance(x, Index):
                base = strip_casts(x.x)
                if isinstance(base, Const) and base.c.get("uneval") == "vlq::B64":
                    cands.append(l)
    # the digit as the arithmetic sees it: the widened (i64) value when the table entry is also bound on its own
    wide = [l for l in cands if body.local_ty(l) == "i64"]
    for l in (wide or cands)[:1] if len(wide or cands) == 1 else (wide or cands):
        roles[l] = "enc"
    return roles, push


def reader_shape(ctx, rule):
    """C11.R2 reader half + C06.R3 a-d."""
    body = ctx.body(READER)
    fn = body.path
    roles, push = reader_roles(ctx, body)
    inv = {v: k for k, v in roles.items()}
    for need in ("cur", "shift", "enc", "rv"):
        if not ctx.check(need in inv, rule, fn, "role:%s" % need, "the reader has a recognisable %s variable" % need):
            return
    cur, shift, enc = inv["cur"], inv["shift"], inv["enc"]

    # enc = sign-preserving widening of B64[c as usize]
    encs = q.def_shapes(body, enc, roles)
    ok_enc = []
    for BYTE in ("try(Iterator::next(var:Bytes))", "try(Iterator::next(var:Iter<u8>))"):  # `segment.bytes()` / `segment.as_bytes()`
        ok_enc += [s for s, _, _ in encs if s in ("from<i64>(vlq::B64[cast<usize>(%s)])" % BYTE, "cast<i64>(vlq::B64[cast<usize>(%s)])" % BYTE, "from<i64>(vlq::B64[from<usize>(%s)])" % BYTE)]
    ctx.check(len(encs) == 1 and len(ok_enc) == 1, rule, fn, "enc:table-load",
              "the digit is loaded from the reverse table B64 at the input byte (widened to usize, never narrowed) and widened sign-preservingly to i64",
              detail=str([s for s, _, _ in encs]))
    its = [sh for l in range(len(body.locals)) for sh, _, _ in q.def_shapes(body, l, {}) if sh in ("IntoIterator::into_iter(str::bytes(arg1))", "str::bytes(arg1)", "IntoIterator::into_iter(str::as_bytes(arg1))", "slice::iter(str::as_bytes(arg1))")]
    ctx.check("IntoIterator::into_iter(str::bytes(arg1))" in its or "IntoIterator::into_iter(str::as_bytes(arg1))" in its or "slice::iter(str::as_bytes(arg1))" in its, rule, fn, "enc:every-byte",
              "the digits are the bytes of the segment, one table load per byte (a multi-byte character is a sequence of foreign bytes, not a truncated code point)", detail=str(its))

    # accumulator definitions
    allowed = {"0": "zero", "Shr(cur,1)": "drop-sign-bit", "Neg(cur)": "negate"}
    for v in ("BitAnd(31,enc)", "Rem(enc,32)"):
        for op in ("Add", "BitOr"):
            allowed["%s(cur,try(i64::checked_shl(%s,shift)))" % (op, v)] = "accumulate"  # (`.ok_or(VlqOverflow)?` or let-else: the payload; the error kind is checked below)
    found = expect_defs(ctx, rule, body, cur, roles, allowed, ["zero", "accumulate"], "accumulator")
    expect_defs(ctx, rule, body, shift, roles, {"0": "zero", "Add(5,shift)": "step5"}, ["zero", "step5"], "shift")
    ctx.check(body.local_ty(cur) == "i64", rule, fn, "accumulator:i64", "the accumulator is 64 bits wide (13 digits fit, the 14th overflows the shift)")

    # (c) checked shift: the None edge constructs VlqOverflow and returns it
    shl = q.calls_to(body, "checked_shl")
    ctx.check(len(shl) == 1, rule, fn, "checked_shl", "digits are shifted into the accumulator with exactly one checked_shl")
    ov = error_construct_blocks(body, "VlqOverflow")
    ctx.check(bool(ov), rule, fn, "VlqOverflow:constructed", "Error::VlqOverflow is constructed in the reader")
    raw_shl = [t for bi, t in body.calls() if False]
    # no unchecked Shl on the digit value
    unchecked = []
    for bi, si, s, is_term in body.locations():
        if not is_term and s["k"] == "assign" and s["rv"]["k"] == "bin" and s["rv"]["op"] in ("Shl", "ShlUnchecked"):
            unchecked.append(ctx.site(body, bi, si))
    ctx.check(not unchecked, rule, fn, "no-unchecked-shl", "no unchecked << in the reader", detail=str(unchecked))

    # every digit goes through the checked shift and advances the shift: no path through one
    # iteration of the digit loop avoids them (except the foreign-byte rejection)
    heads = [bi for bi, t in q.calls_to(body, "Iterator::next")]
    if ctx.check(len(heads) == 1 and len(shl) == 1, rule, fn, "digit-loop", "one digit loop with one checked shift"):
        head = heads[0]
        entry = body.defs[enc][0][0]
        errs_ = set(result_blocks(body, "Err")) | set(residual_blocks(body))
        steps = [s_[0] for s_ in q.def_shapes(body, shift, roles) if s_[0] == "Add(5,shift)"]
        step_blocks = [site[0] for sh_, site, _ in q.def_shapes(body, shift, roles) if sh_ == "Add(5,shift)"]

        def every_path(through):
            seen = {entry}
            stack = [entry]
            while stack:
                x = stack.pop()
                for nx in body.succ[x]:
                    if nx in through or nx in errs_:
                        continue
                    if nx == head:
                        return False
                    if nx not in seen:
                        seen.add(nx)
                        stack.append(nx)
            return True
        ctx.check(every_path({shl[0][0]}), rule, fn, "checked_shl:every-digit", "every digit (zero payload included) passes the checked shift, so a 14th digit always overflows", ctx.site(body, shl[0][0]))
        ctx.check(bool(step_blocks) and every_path(set(step_blocks)), rule, fn, "shift:every-digit", "the shift advances by 5 for every digit")
    allp = q.calls_to(body, "Vec::<T, A>::push")
    ctx.check(len(allp) == 1 and q.shape(q.arg_expr(body, allp[0][1], 0), roles) == "rv", rule, fn, "push:only-decoded-values",
              "there is exactly one place where a value is appended to the output (no shortcut pushes a value that did not go through the digit arithmetic)", detail=str(len(allp)))
    # continuation test: push dominated by Shr(enc,5) == 0
    pb = push[0]
    cont_ok = has_fact(body, pb, roles, ("Eq", "0", "Shr(enc,5)"), ("Eq", "0", "BitAnd(32,enc)"), ("Eq", "0", "Div(enc,32)"))
    ctx.check(cont_ok, rule, fn, "push:cont==0", "a value is pushed only when the continuation bit (bit 5) of the digit is clear", ctx.site(body, pb))
    # what is pushed: symbolic execution of every path from the accumulation to the push. With ACC the
    # accumulated value, the pushed value is ACC >> 1, negated exactly when bit 0 of ACC is set -
    # whether the code updates the accumulator in place, binds fresh locals or calls a helper.
    acc_sites = found.get("accumulate", [])
    if ctx.check(len(acc_sites) == 1, rule, fn, "accumulate:one", "digits are accumulated at one place"):
        ab, ai = acc_sites[0]
        start_i = ai + 1 if ai < len(body.blocks[ab]["stmts"]) else None
        if start_i is None:
            # the accumulation is the result of a call terminator: continue in its successor
            ab, start_i = body.blocks[ab]["term"].get("t"), 0
        paths = absint.sym_paths(body, ab, start_i, pb, {cur: "ACC"}, avoid=[heads[0]] if len(heads) == 1 else ())
        ok = bool(paths)
        seen_par = set()
        detail = []
        for pth in paths or []:
            val = q.shape(body.expr_of_operand(push[1]["args"][1], depth=0), pth["store"])
            par = None
            for sh_, taken in pth["conds"]:
                p_ = _parity(sh_, taken)
                if p_ is not None:
                    par = p_ if par is None or par == p_ else "conflict"
            detail.append((par, val))
            seen_par.add(par)
            if par == "odd":
                ok = ok and val == "Neg(Shr(ACC,1))"
            elif par == "even":
                ok = ok and val == "Shr(ACC,1)"
            else:
                ok = False
        ctx.check(ok and seen_par == {"odd", "even"}, rule, fn, "push:value",
                  "the pushed value is the accumulated value shifted right by one, negated exactly when its bit 0 (read before the shift) is set", ctx.site(body, pb), detail=str(detail)[:400])
    # after the push the state is reset (zero defs dominated by the push block)
    zeros_after = [s for s in found.get("zero", []) if s[0] != 0 and body.dominates(pb, s[0]) or s[0] == body.blocks[pb]["term"].get("t")]
    ctx.check(bool(zeros_after), rule, fn, "reset-after-push", "the accumulator is reset to 0 after each pushed value")

    # (a)/(b): Ok(()) only with cur == 0, shift == 0, rv non-empty
    oks = result_blocks(body, "Ok")
    ctx.check(len(oks) >= 1, rule, fn, "ok-exit", "the reader has an Ok exit")
    for ob in oks:
        ctx.check(has_fact(body, ob, roles, ("Eq", "0", "cur")), rule, fn, "ok:cur==0", "Ok is returned only when no partial value is pending (cur == 0)", ctx.site(body, ob))
        ctx.check(has_fact(body, ob, roles, ("Eq", "0", "shift")), rule, fn, "ok:shift==0", "Ok is returned only when no continuation is pending (shift == 0)", ctx.site(body, ob))
        ctx.check(has_fact(body, ob, roles, ("false", "Vec::is_empty(rv)", None)), rule, fn, "ok:non-empty",
                  "Ok is returned only when at least one value was produced", ctx.site(body, ob))
    for var, why in (("VlqLeftover", "cut-off value"), ("VlqNoValues", "empty input")):
        bl = error_construct_blocks(body, var)
        ctx.check(bool(bl) and all(error_returned(body, b) for b in bl), rule, fn, "%s:returned" % var,
                  "Error::%s is constructed and returned for a %s" % (var, why))

    # the reader rejects nothing else: every error construction is one of the four kinds, each
    # under its own condition (a narrower accepted domain than the writer's would break round trips)
    loops = dict(body.loops())
    in_loop = set()
    for h, bl in loops.items():
        in_loop |= bl
    allv = {}
    for bi, si, s, is_term in body.locations():
        if not is_term and s["k"] == "assign" and s["rv"]["k"] == "agg" and s["rv"].get("adt", "").endswith("errors::Error"):
            allv.setdefault(s["rv"]["variant"], []).append((bi, si))
    ctx.check(set(allv) == {"VlqOverflow", "VlqLeftover", "VlqNoValues", "InvalidBase64"}, rule, fn, "rejections:kinds",
              "the reader constructs exactly the error kinds InvalidBase64, VlqOverflow, VlqLeftover, VlqNoValues", detail=str(sorted(allv)))
    for bi, si in allv.get("VlqOverflow", []):
        used = [q.shape(body.expr_of_call(t), roles) for b2, t in body.calls() if b2 == bi or body.blocks[bi]["term"] is t]
        t = body.blocks[bi]["term"]
        ok = t["k"] == "call" and q.nice(t.get("callee")) in ("Option::ok_or", "Option::ok_or_else") and "checked_shl(" in q.shape(body.expr_of_call(t), roles)
        if not ok:
            # `let Some(shifted) = val.checked_shl(shift) else { fail!(VlqOverflow) }`: built where the checked shift is known to have failed
            from rules.common import opt_fact as _of
            ok = has_fact(body, bi, roles, *_of("none", "i64::checked_shl(*)"))
        ctx.check(ok, rule, fn, "VlqOverflow:only-from-checked_shl", "VlqOverflow is produced only by the failing checked shift (values of up to 13 digits are accepted)", ctx.site(body, bi, si))
    for bi, si in allv.get("VlqLeftover", []) + allv.get("VlqNoValues", []):
        ctx.check(bi not in in_loop, rule, fn, "end-of-input-errors", "leftover / no-values are decided after the whole segment was read", ctx.site(body, bi, si))
    for bi, si in allv.get("InvalidBase64", []):
        ctx.check(has_fact(body, bi, roles, ("Lt", "enc", "0"), ("Le", "enc", "-1"), ("Lt", "vlq::B64[*]", "0"), ("Le", "vlq::B64[*]", "-1")), rule, fn, "InvalidBase64:only-negative", "InvalidBase64 is produced only for the negative sentinel", ctx.site(body, bi, si))
    err_blocks = set(result_blocks(body, "Err")) | set(residual_blocks(body))
    ctx.check(len(err_blocks) == 4, rule, fn, "rejections:count", "the reader has exactly four error exits (foreign byte, shift overflow, leftover, no values)", detail=str(sorted(err_blocks)))
    # (d) sentinel discipline
    sentinel(ctx, rule, body, roles, enc)


def _parity(shape, taken):
    """Which parity of ACC does taking this branch establish? (None: the test is about something else)"""
    tests = {"BitAnd(1,ACC)": "val", "Rem(ACC,2)": "val", "Ne(0,BitAnd(1,ACC))": "ne0", "Eq(0,BitAnd(1,ACC))": "eq0", "Eq(1,BitAnd(1,ACC))": "eq1", "Ne(1,BitAnd(1,ACC))": "ne1",
             "Ne(0,Rem(ACC,2))": "ne0", "Eq(0,Rem(ACC,2))": "eq0"}
    kind = tests.get(shape)
    if kind is None:
        return None
    if isinstance(taken, tuple):  # ("not", listed values): the otherwise edge
        listed = set(taken[1])
        if kind == "val":
            return "odd" if listed == {0} else ("even" if listed == {1} else None)
        truth = 1 if listed == {0} else (0 if listed == {1} else None)
    else:
        if kind == "val":
            return "even" if taken == 0 else "odd"
        truth = taken
    if truth is None:
        return None
    odd_when_true = kind in ("ne0", "eq1")
    return "odd" if bool(truth) == odd_when_true else "even"


def sentinel(ctx, rule, body, roles, enc):
    fn = body.path
    uses = []
    for bi, si, s, is_term in body.locations():
        if is_term or s["k"] != "assign":
            continue
        rv = s["rv"]
        if rv["k"] in ("bin", "un"):
            e = body.expr_of_rvalue(rv)
            ops = [e.l, e.r] if isinstance(e, Bin) else [e.x]
            if any(q.root_local(o) == enc for o in ops):
                if isinstance(e, Bin) and e.op in ("Lt", "Le", "Gt", "Ge", "Eq", "Ne"):
                    continue  # the test itself
                uses.append((bi, si, q.shape(e, roles)))
    ctx.check(bool(uses), rule, fn, "sentinel:uses", "arithmetic uses of the table value were found (non-vacuous)")
    for bi, si, sh in uses:
        # (the test may be made on the table entry before it is widened: the widening preserves the sign)
        ok = has_fact(body, bi, roles, *[(op, c, x) for x in ("enc", "vlq::B64[*]") for op, c in (("Le", "0"), ("Lt", "-1"), ("Ne", "-1"))])
        ctx.check(ok, rule, fn, "sentinel:%s" % sh,
                  "the value loaded from the reverse table is tested for the negative (foreign byte) sentinel before it is used in arithmetic",
                  ctx.site(body, bi, si), detail="use %s is not dominated by a non-negativity test of the table value" % sh)
    # the negative edge must return an error
    negs = []
    for d in range(len(body.blocks)):
        t = body.blocks[d]["term"]
        if t["k"] != "switch":
            continue
        e = body.expr_of_operand(t["discr"])
        sh = q.shape(e, roles)
        if q.wild("*vlq::B64[*]*", sh) and "enc" not in sh:
            import re as _re
            sh = _re.sub(r"vlq::B64\[[^\]]*\]", "enc", sh)
        if sh in ("Lt(enc,0)", "Le(0,enc)", "Lt(-1,enc)", "Le(enc,-1)", "Eq(-1,enc)", "Ne(-1,enc)"):
            neg_when_true = sh in ("Lt(enc,0)", "Le(enc,-1)", "Eq(-1,enc)")
            for v, tb in t["arms"]:
                pass
            true_target = t["otherwise"]
            false_target = [tb for v, tb in t["arms"] if v == 0]
            tgt = true_target if neg_when_true else (false_target[0] if false_target else None)
            negs.append(tgt)
    errs = set(result_blocks(body, "Err")) | set(residual_blocks(body))
    ctx.check(bool(negs) and all(tb is not None and must_pass(body, tb, errs) for tb in negs), rule, fn, "sentinel:rejects",
              "the foreign-byte branch returns an error on every path (it does not skip or substitute the byte)")


def writer_shape(ctx, rule):
    """C11.R2 writer half / C03.R4."""
    body = ctx.body(WRITER)
    fn = body.path
    # digit: local used (cast to usize) as index into B64_CHARS
    digit = None
    idx_sites = []
    for bi, si, s, is_term in body.locations():
        if not is_term and s["k"] == "assign":
            e = body.expr_of_rvalue(s["rv"])
            for x in e.walk():
                if isinstance(x, Index):
                    base = strip_casts(x.x)
                    if isinstance(base, Const) and base.c.get("uneval") == "vlq::B64_CHARS":
                        digit = q.root_local(strip_casts(x.i))
                        idx_sites.append((bi, si))
    if not ctx.check(digit is not None, rule, fn, "digit:index", "each digit is emitted through the alphabet table B64_CHARS[digit]"):
        return
    roles = {digit: "digit"}
    # num: local that digit is masked from
    num = None
    for sh, site, e in q.def_shapes(body, digit, roles):
        e = e.unname()
        if isinstance(e, Bin) and e.op in ("BitAnd", "Rem"):
            num = q.root_local(strip_casts(e.l)) if not isinstance(strip_casts(e.l), Const) else q.root_local(strip_casts(e.r))
    if not ctx.check(num is not None, rule, fn, "num:role", "the digit is derived from a running value by masking"):
        return
    roles[num] = "num"
    arg = 2
    expect_defs(ctx, rule, body, digit, roles,
                {"BitAnd(31,num)": "low5", "Rem(num,32)": "low5", "BitOr(Shl(1,5),digit)": "set-cont", "BitOr(32,digit)": "set-cont",
                 "Add(32,digit)": "set-cont",
                 # the digit as one if/else value: `if num > 0 { low | (1 << 5) } else { low }`
                 "BitOr(BitAnd(31,num),Shl(1,5))": "set-cont", "BitOr(Shl(1,5),BitAnd(31,num))": "set-cont", "BitOr(32,BitAnd(31,num))": "set-cont", "BitOr(BitAnd(31,num),32)": "set-cont"},
                ["low5", "set-cont"], "digit")
    found = expect_defs(ctx, rule, body, num, roles,
                        {"Shl(arg2,1)": "positive", "Mul(2,arg2)": "positive",
                         "Add(1,Shl(Neg(arg2),1))": "negative",
                         "BitOr(1,Shl(Neg(arg2),1))": "negative",
                         "Shr(num,5)": "next-group", "Div(num,32)": "next-group"}, ["positive", "negative", "next-group"], "running value")
    for site in found.get("negative", []):
        ctx.check(has_fact(body, site[0], roles, ("Lt", "arg2", "0")), rule, fn, "negative:guard", "sign bit 1 is used exactly for negative inputs", ctx.site(body, *site))
    for site in found.get("positive", []):
        ctx.check(has_fact(body, site[0], roles, ("Le", "0", "arg2")), rule, fn, "positive:guard", "sign bit 0 is used exactly for non-negative inputs", ctx.site(body, *site))
    # continuation flag set iff remainder non-zero (after the shift)
    for sh, site, e in q.def_shapes(body, digit, roles):
        if sh.startswith("BitOr") or sh.startswith("Add"):
            ok = has_fact(body, site[0], roles, ("Lt", "0", "num"), ("Ne", "0", "num"))
            ctx.check(ok, rule, fn, "cont:iff-remainder", "the continuation bit is set exactly when further groups remain", ctx.site(body, *site))
            shr = found.get("next-group", [])
            ctx.check(bool(shr) and all(body.dominates(s[0], site[0]) for s in shr), rule, fn, "cont:after-shift",
                      "the remainder is computed (>>= 5) before the continuation decision")
    # do-while: the push dominates the exit test; exit under num == 0
    pushes = q.calls_to(body, "String::push")
    ctx.check(len(pushes) == 1, rule, fn, "push:one", "exactly one character is pushed per group")
    for rb in body.return_blocks():
        ctx.check(has_fact(body, rb, roles, ("Eq", "0", "num"), ("Le", "num", "0")), rule, fn, "exit:num==0", "the loop ends exactly when no bits remain", ctx.site(body, rb))
        ctx.check(bool(pushes) and body.dominates(pushes[0][0], rb), rule, fn, "exit:after-one-digit", "at least one digit is emitted before the loop can end (0 encodes as 'A')")
    ctx.check(body.local_ty(num) == "i64", rule, fn, "num:i64", "the writer works on 64-bit values")


def wrappers(ctx, rule):
    """The public entry points add nothing to the codec: parse_vlq_segment decodes into a fresh
    vector and returns exactly that vector (or the reader's error); generate_vlq_segment appends
    the encoding of every number, in order, to a fresh string."""
    p = ctx.body("vlq::parse_vlq_segment")
    vecs = [l for l in range(len(p.locals)) if p.local_ty(l).endswith("Vec<i64>") and l > p.arg_count and [sh for sh, _, _ in q.def_shapes(p, l, {})] == ["Vec::new()"]]
    ok = len(vecs) == 1
    if ok:
        r = {vecs[0]: "RV"}
        calls = [q.shape(p.expr_of_call(t), r) for bi, t in p.calls() if t.get("resolved_local")]
        rets = sorted(sh for sh, _, _ in q.def_shapes(p, 0, r))
        ok = calls == ["vlq::parse_vlq_segment_into(arg1,RV)"] and rets in (["FromResidual::from_residual(break(Try::branch(vlq::parse_vlq_segment_into(arg1,RV))))", "Result::Ok{0:RV}"],
                                                                           ["Result::Err{0:err(vlq::parse_vlq_segment_into(arg1,RV))}", "Result::Ok{0:RV}"])  # `?` or the explicit match handing the error on
    ctx.check(ok, rule, p.path, "parse:fresh-vector", "parse_vlq_segment decodes into a vector created in this call and returns it as it is (no state survives between calls, nothing is added or dropped)",
              detail=str([sh for sh, _, _ in q.def_shapes(p, 0, {})]))
    g = ctx.body("vlq::generate_vlq_segment")
    strs = [l for l in range(len(g.locals)) if g.local_ty(l).endswith("string::String") and l > g.arg_count and [sh for sh, _, _ in q.def_shapes(g, l, {})] == ["String::new()"]]
    ok = len(strs) == 1
    if ok:
        r = {strs[0]: "OUT"}
        calls = [q.shape(g.expr_of_call(t), r) for bi, t in g.calls() if t.get("resolved_local")]
        its = [sh for l in range(len(g.locals)) for sh, _, _ in q.def_shapes(g, l, {}) if sh == "IntoIterator::into_iter(arg1)"]
        rets = [sh for sh, _, _ in q.def_shapes(g, 0, r)]
        ok = calls == ["vlq::encode_vlq(OUT,try(Iterator::next(var:Iter<i64>)))"] and bool(its) and rets in (["Result::Ok{0:OUT}"], ["OUT"])
        from rules.common import for_each_form
        fe = for_each_form(g, ["slice::iter(arg1)", "IntoIterator::into_iter(arg1)"])
        if not ok and fe is not None:
            ok = len(fe[2]) == 1 and q.wild("vlq::encode_vlq(*,arg2)", fe[2][0]) and calls == [] and rets in (["Result::Ok{0:OUT}"], ["OUT"]) and all(g.dominates(fe[0], r) for r in g.return_blocks())
    ctx.check(ok, rule, g.path, "generate:every-number", "generate_vlq_segment encodes every number of the slice, in order, into one fresh string")
