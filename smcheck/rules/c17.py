"""C17 - function-name resolution finds the original name of the enclosing function."""
from rules import fnrules
from rules.common import run_rules

EXPLANATION = ("C17: (R1) the pairing rule (name of the current token, when its text is the minified name and the peeked "
               "preceding token's text is the keyword 'function', window of 128, early None for non-identifiers); (R2) unit "
               "discipline of the reverse token iterator (UTF-16 columns vs UTF-8 byte offsets, cache tuple order, same-line "
               "reuse, non-panicking slices); (R3) identifier classes decided over all ASCII code points and sampled "
               "non-ASCII ones against the Unicode tables' verdict, (R3b) strip_identifier's end offset is always a char "
               "boundary and the slice exclusive; (R4) panic-freedom."
               " (R5) views are fresh and never reset in place; (R6) the line splitting get_line performs;"
               " (R7) lookup_token hands out the element greatest_lower_bound selected together with the index it returned, and (R8) greatest_lower_bound pairs every element with its own index, so the walk-back's `idx - 1` is the preceding token.")
NOT_DECIDED = "that the right declaration is found for all programs (heuristic by design)."

RULES = {
    # the walk-back starts from the looked-up token and steps to `idx - 1`: the index lookup_token stores must be the
    # index of the token it returns (F13: the insertion index was stored on an inexact match)
    "C17.R7": lambda ctx: __import__("rules.typesrules", fromlist=["x"]).key_agreement(ctx, "C17.R7"),
    "C17.R8": lambda ctx: __import__("rules.typesrules", fromlist=["x"]).glb_shape(ctx, "C17.R8"),
    "C17.RG": lambda ctx: __import__("rules.foundations", fromlist=["x"]).no_global_state(ctx, "C17.RG"),
    # resolution reads the minified text through SourceView::get_line: the line splitting and the freshness of views
    "C17.R5": lambda ctx: __import__("rules.svrules", fromlist=["x"]).fresh_views(ctx, "C17.R5"),
    "C17.R6": lambda ctx: __import__("rules.svrules", fromlist=["x"]).c15_r1_protocol(ctx, "C17.R6"),
    "C17.RL": lambda ctx: __import__("rules.common", fromlist=["x"]).loop_exit_rule(ctx, "C17.RL", {'sourceview::SourceView::get_original_function_name': 1, 'js_identifiers::strip_identifier': 1, "<sourceview::RevTokenIter<'view, 'map> as core::iter::traits::iterator::Iterator>::next": 2}),
    "C17.R1": lambda ctx: fnrules.pairing(ctx, "C17.R1"),
    "C17.R2": lambda ctx: fnrules.rev_iter(ctx, "C17.R2"),
    "C17.R3": lambda ctx: fnrules.classes(ctx, "C17.R3"),
    "C17.R3b": lambda ctx: fnrules.strip_shape(ctx, "C17.R3b"),
    "C17.R0": lambda ctx: __import__("rules.foundations", fromlist=["x"]).accessors(ctx, "C17.R0", ['types::Token', 'TokenIter', 'types::SourceMap::get_token']),
    "C17.R4": lambda ctx: fnrules.fn_pf(ctx, "C17.R4"),
}


def check(ctx):
    run_rules(ctx, RULES)
