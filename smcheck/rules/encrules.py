"""Rules about src/encoder.rs shared by C01, C03, C07 (and C05 via requirements)."""
import absint
import q
from callgraph import CallGraph
from mir import Agg, Bin, Call, Const, Named, Ref, Var
from rules.common import RFC4648, expect_defs, has_fact, opt_fact

SM = "encoder::serialize_mappings"
SRM = "encoder::serialize_range_mappings"
DIFF = "encoder::encode_vlq_diff"
V3_ORDER = ["get_dst_col", "get_src_id", "get_src_line", "get_src_col", "get_name_id"]
AS_RAW = {
    "regular": "<types::SourceMap as encoder::Encodable>::as_raw_sourcemap",
    "index": "<types::SourceMapIndex as encoder::Encodable>::as_raw_sourcemap",
    "decoded": "<types::DecodedMap as encoder::Encodable>::as_raw_sourcemap",
    "hermes": "<hermes::SourceMapHermes as encoder::Encodable>::as_raw_sourcemap",
}


def loop_roles(body):
    """token / idx: the two components of the enumerate() item over sm.tokens()."""
    roles = {}
    for l, n in body.var_names.items():
        for sh, site, e in q.def_shapes(body, l, {}):
            if sh == "try(Iterator::next(var:Enumerate<TokenIter>)).1":
                roles[l] = "token"
            elif sh == "try(Iterator::next(var:Enumerate<TokenIter>)).0":
                roles[l] = "idx"
    return roles


def loop_entry(body, roles):
    inv = {v: k for k, v in roles.items()}
    return body.defs[inv["token"]][0][0]


def loop_head(body):
    for bi, t in q.calls_to(body, "Iterator::next"):
        if "Enumerate<TokenIter>" in q.shape(q.arg_expr(body, t, 0)):
            return bi
    raise ValueError("token loop not found")


def tokens_iterated(ctx, rule, body):
    ok = any(sh == "IntoIterator::into_iter(Iterator::enumerate(SourceMap::tokens(arg1)))" for l in body.var_names for sh, _, _ in q.def_shapes(body, l, {}))
    ctx.check(ok, rule, body.path, "iterates:tokens().enumerate()", "the loop runs over sm.tokens().enumerate() (every token, in order, with its ordinal)")


def diff_calls(body, roles):
    """[(bb, getter name, prev local)] for each encode_vlq_diff call."""
    out = []
    for bi, t in q.calls_to(body, DIFF):
        a = q.shape(q.arg_expr(body, t, 1), roles)
        p = q.root_local(q.arg_expr(body, t, 2))
        out.append((bi, a, p))
    return out


# -------------------------------------------------------------------------------------------
def field_order(ctx, rule):
    """C01.R4 / C03.R1 encoder half: five deltas in the v3 order, each against the variable that
    is next assigned from the same getter; source fields under has_source, name under has_name."""
    body = ctx.body(SM)
    fn = body.path
    roles = loop_roles(body)
    if not ctx.check(set(roles.values()) == {"token", "idx"}, rule, fn, "roles", "the token loop variables are recognisable"):
        return
    tokens_iterated(ctx, rule, body)
    calls = diff_calls(body, roles)
    ctx.floor(rule, fn, "encode_vlq_diff calls", len(calls), 5)
    # order along the dominance chain
    calls_sorted = sorted(calls, key=lambda c: len(body.dominators_of(c[0])))
    getters = [a for _, a, _ in calls_sorted]
    FIELD = {"get_dst_col": "token.raw.dst_col", "get_src_id": "token.raw.src_id", "get_src_line": "token.raw.src_line", "get_name_id": "token.raw.name_id"}
    want = [FIELD.get(g, "Token::%s(token)" % g) for g in V3_ORDER]
    NAME_OF = {v: k for k, v in FIELD.items()}
    ctx.check(getters == want, rule, fn, "order", "the deltas are emitted in the v3 order dst_col, src_id, src_line, src_col, name_id", detail=str(getters))
    chain_ok = all(body.dominates(calls_sorted[i][0], calls_sorted[i + 1][0]) for i in range(len(calls_sorted) - 1))
    ctx.check(chain_ok, rule, fn, "order:chain", "each delta call dominates the next one (a straight-line sequence per token)")
    prevs = [p for _, _, p in calls_sorted]
    ctx.check(len(set(prevs)) == len(prevs) and None not in prevs, rule, fn, "prev:distinct", "each field has its own 'previous value' variable")
    for bi, a, p in calls_sorted:
        if p is None:
            continue
        pr = dict(roles)
        pr[p] = "P"
        shapes = [(sh, site) for sh, site, _ in q.def_shapes(body, p, pr)]
        nonzero = [(sh, site) for sh, site in shapes if sh != "0"]
        g = NAME_OF.get(a) or a.split("::")[1].split("(")[0]
        ctx.check(bool(nonzero) and all(sh == a for sh, _ in nonzero), rule, fn, "prev:%s:updated-from-same-getter" % g,
                  "the variable the %s delta is taken against is updated from %s of the same token (delta against the previous *emitted* value)" % (g, g),
                  detail=str(shapes))
        ctx.check(all(body.dominates(bi, site[0]) and site[0] != bi for sh, site in nonzero), rule, fn, "prev:%s:update-after-use" % g,
                  "the update happens after the delta was written, in the same iteration")
        # ... and on every path: once the delta of a field was written, the token loop cannot come round again without the
        # field's previous value having been updated (an update under a further condition leaves a stale value behind)
        heads_ = [hb for hb, _ in body.loops() if body.dominates(hb, bi) and bi in dict(body.loops())[hb]]
        upd = [site[0] for sh, site in nonzero]
        if heads_ and upd:
            outer = min(heads_, key=lambda hb: len(body.dominators_of(hb)))
            nxt_ = [x for x in body.succ[bi] if not body.blocks[x]["cleanup"]]
            from rules.common import loop_passes as _lp
            ctx.check(all(_lp(body, x, outer, upd) for x in nxt_), rule, fn, "prev:%s:update-always" % g,
                      "after the %s delta was written the previous value is updated on every path to the next token" % g, ctx.site(body, bi))
        src_guard = has_fact(body, bi, roles, ("true", "Token::has_source(token)", None))
        name_guard = has_fact(body, bi, roles, ("true", "Token::has_name(token)", None))
        if g == "get_dst_col":
            ctx.check(not src_guard and not name_guard, rule, fn, "guard:%s" % g, "the generated column is written for every emitted token")
        elif g == "get_name_id":
            ctx.check(src_guard and name_guard, rule, fn, "guard:%s" % g, "the name delta is written only for tokens with a source and a name")
        else:
            ctx.check(src_guard and not name_guard, rule, fn, "guard:%s" % g, "the source deltas are written exactly for tokens with a source")
    b2 = ctx.body(DIFF)
    calls = q.calls_to(b2, "vlq::encode_vlq")
    ok = len(calls) == 1 and q.shape(q.arg_expr(b2, calls[0][1], 1)) == "Sub(from<i64>(arg2),from<i64>(arg3))"
    ctx.check(ok, rule, b2.path, "diff", "encode_vlq_diff(a, b) encodes a - b computed in i64 (current minus previous)")


def resets(ctx, rule):
    """C01.R3 encoder half: inside the loop only the generated-column state is reset, and only
    when the line changes."""
    body = ctx.body(SM)
    fn = body.path
    roles = loop_roles(body)
    calls = diff_calls(body, roles)
    by_prev = {p: a for _, a, p in calls}
    init_bb = None
    reset = {}
    for p, a in by_prev.items():
        if p is None:
            continue
        for sh, site, _ in q.def_shapes(body, p, roles):
            if sh == "0":
                head = loop_head(body)
                in_loop = body.reaches(head, site[0]) and body.reaches(site[0], head)
                if in_loop:
                    reset.setdefault(a, []).append(site)
    ctx.check(set(reset) == {"token.raw.dst_col"}, rule, fn, "reset-set",
              "inside the token loop exactly the generated-column state is reset (source, original line/column and name state run across lines)", detail=str(sorted(reset)))
    line_locals = _line_local(body, roles)
    if ctx.check(len(line_locals) == 1, rule, fn, "line-var", "the current generated line is tracked in one variable"):
        lr = dict(roles)
        lr[line_locals[0]] = "L"
        for a, sites in reset.items():
            for site in sites:
                ctx.check(has_fact(body, site[0], lr, ("Ne", "L", "token.raw.dst_line"), ("Ne", "token.raw.dst_line", "L")), rule, fn,
                          "reset:on-line-change", "the column state is reset exactly when the token starts a new line", ctx.site(body, *site))
                # ... whenever it does: nothing but the line test decides the reset (a reset under a further condition leaves the
                # old line's column in the state for some first-on-line tokens)
                from rules.common import facts_keys as _fk
                extra = [k for k in _fk(body, site[0], lr) if not (k[0] in ("Ne", "Eq") and "L" in (str(k[1]), str(k[2])) and "token.raw.dst_line" in (str(k[1]), str(k[2])))
                         and not (k[0] in ("variant_in", "variant_not_in") and "Iterator::next(" in str(k[1]))]
                ctx.check(not extra, rule, fn, "reset:whenever-line-changes", "the column state is reset for every token that starts a new line (no further condition)", ctx.site(body, *site), detail=str(extra)[:300])


def _line_local(body, roles):
    out = []
    for d in range(len(body.blocks)):
        t = body.blocks[d]["term"]
        if t["k"] == "switch":
            e = body.expr_of_operand(t["discr"])
            while isinstance(e, Named):
                e = e.x
            if isinstance(e, Bin) and e.op in ("Ne", "Eq"):
                for x, y in ((e.l, e.r), (e.r, e.l)):
                    if q.shape(x, roles) == "token.raw.dst_line":
                        l = q.root_local(y)
                        if l is not None and l not in out:
                            out.append(l)
    return out


def separators(ctx, rule, fn_path=SM, push="String::push"):
    """C03.R1: one ';' per line advanced, ',' between segments of a line, nothing else."""
    body = ctx.body(fn_path)
    fn = body.path
    roles = loop_roles(body)
    lls = _line_local(body, roles)
    if not ctx.check(len(lls) == 1, rule, fn, "line-var", "the current generated line is tracked in one variable"):
        return
    L = lls[0]
    lr = dict(roles)
    lr[L] = "L"
    found = expect_defs(ctx, rule, body, L, lr, {"0": "zero", "Add(1,L)": "advance"}, ["zero", "advance"], "line counter")
    semis = [(bi, t) for bi, t in q.calls_to(body, push) if q.shape(q.arg_expr(body, t, 1)) == "59"]
    commas = [(bi, t) for bi, t in q.calls_to(body, push) if q.shape(q.arg_expr(body, t, 1)) == "44"]
    ctx.check(len(semis) == 1, rule, fn, "semicolon:one-site", "';' is pushed at exactly one place")
    for bi, t in semis:
        ctx.check(has_fact(body, bi, lr, ("Ne", "L", "token.raw.dst_line"), ("Ne", "token.raw.dst_line", "L")), rule, fn, "semicolon:guard",
                  "';' is pushed only while the line counter differs from the token's line", ctx.site(body, bi))
        adv = found.get("advance", [])
        ok = bool(adv) and all(body.dominates(bi, s[0]) for s in adv) and all(body.reaches(s[0], bi) for s in adv)
        ctx.check(ok, rule, fn, "semicolon:per-line", "each ';' is followed by exactly one increment of the line counter inside the same loop")
    if fn_path == SM:
        ctx.check(len(commas) == 1, rule, fn, "comma:one-site", "',' is pushed at exactly one place")
        for bi, t in commas:
            same_line = has_fact(body, bi, lr, ("Eq", "L", "token.raw.dst_line"), ("Eq", "token.raw.dst_line", "L"))
            not_first = has_fact(body, bi, lr, ("Lt", "0", "idx"), ("Ne", "0", "idx"))
            not_dup = has_fact(body, bi, lr, ("false", "PartialEq::eq(Option::Some{0:token},Option::as_ref(SourceMap::get_token(arg1,Sub(idx,1))))", None))
            ctx.check(same_line, rule, fn, "comma:same-line", "',' separates segments of the same line only", ctx.site(body, bi))
            ctx.check(not_first and not_dup, rule, fn, "comma:not-first-not-dup", "',' is written before every emitted segment except the first of the map / of a line", ctx.site(body, bi))
    others = [q.shape(q.arg_expr(body, t, 1)) for bi, t in q.calls_to(body, push) if q.shape(q.arg_expr(body, t, 1)) not in ("59", "44")]
    ctx.check(not others, rule, fn, "no-other-literals", "no other literal characters are pushed into the mappings text", detail=str(others))


def only_duplicates_skipped(ctx, rule, fn_path=SM):
    """C01.R6 / C07.R3: the only way an iteration ends without emitting is the exact-duplicate test."""
    body = ctx.body(fn_path)
    fn = body.path
    roles = loop_roles(body)
    head = loop_head(body)
    entry = loop_entry(body, roles)
    # the emission point: first delta call (mappings) / the range-flag decision (range mappings)
    if fn_path == SM:
        emit = [bi for bi, a, p in diff_calls(body, roles) if a == "token.raw.dst_col"]
    else:
        emit = [bi for bi, t in q.calls_to(body, "Token::is_range")]
    if not ctx.check(len(emit) == 1, rule, fn, "emit-point", "there is exactly one emission point per token"):
        return
    dup_edges = []
    for d in range(len(body.blocks)):
        t = body.blocks[d]["term"]
        if t["k"] == "switch" and q.shape(body.expr_of_operand(t["discr"]), roles) == q.eqs("eq", "Option::Some{0:token}", "Option::as_ref(SourceMap::get_token(arg1,Sub(idx,1)))"):
            dup_edges.append((d, t["otherwise"]))
    ctx.check(len(dup_edges) == 1, rule, fn, "dup-test", "the duplicate test compares the whole token with its predecessor get_token(idx - 1)")
    # remove emission block and dup-true edge: the loop head must be unreachable from the body entry
    avoid = set(emit)
    seen = {entry}
    stack = [entry]
    reach_head = False
    while stack:
        x = stack.pop()
        for s in body.succ[x]:
            if (x, s) in dup_edges or s in avoid:
                continue
            if s == head:
                reach_head = True
            if s not in seen:
                seen.add(s)
                stack.append(s)
    ctx.check(not reach_head, rule, fn, "skip-only-dups", "an iteration ends without emitting only through the exact-duplicate test (no other skip path)")
    for d, tb in dup_edges:
        same_line = has_fact(body, d, {**roles, **{l: "L" for l in _line_local(body, roles)}}, ("Eq", "L", "token.raw.dst_line"), ("Eq", "token.raw.dst_line", "L"))
        ctx.check(same_line, rule, fn, "dup:same-line", "the duplicate test is made only against a predecessor on the same line", ctx.site(body, d))
        ctx.check(has_fact(body, d, roles, ("Lt", "0", "idx")), rule, fn, "dup:idx>0", "... and only when a predecessor exists", ctx.site(body, d))
        ctx.check(not body.reaches(tb, emit[0], avoid=[head]) and tb != emit[0], rule, fn, "dup:skipped", "an exact duplicate is skipped: nothing is emitted for it in this iteration (both writers agree on what a segment is)", ctx.site(body, d))
    teq = ctx.body("<types::Token<'_> as core::cmp::PartialEq>::eq")
    ok = any(q.shape(teq.expr_of_call(t)) == q.eqs("eq", "arg1.raw", "arg2.raw") for bi, t in teq.calls())
    ctx.check(ok, rule, teq.path, "token-eq", "Token equality compares the whole RawToken")
    raw_eq = [b for b in ctx.facts.bodies if b.impl_self == "types::RawToken" and b.impl_trait == "core::cmp::PartialEq" and b.promoted is None]
    adt = ctx.facts.adts.get("types::RawToken")
    nf = len(adt["variants"][0]["fields"]) if adt else 0
    ctx.check(bool(raw_eq) and all(b.derived for b in raw_eq) and nf == 7, rule, "types::RawToken", "derived-eq", "RawToken: PartialEq is derived over all %d fields" % nf)


def raw_aggregate(body):
    for bi, si, s, is_term in body.locations():
        if not is_term and s["k"] == "assign" and s["rv"]["k"] == "agg" and s["rv"].get("adt") == "jsontypes::RawSourceMap":
            return bi, si, body.expr_of_rvalue(s["rv"])
    return None


def version(ctx, rule):
    for kind in ("regular", "index"):
        body = ctx.body(AS_RAW[kind])
        agg = raw_aggregate(body)
        ok = agg is not None and q.shape(agg[2].field("version")) == "Option::Some{0:3}"
        ctx.check(ok, rule, body.path, "version=3", "the %s map is written with version 3" % kind)
    h = ctx.body(AS_RAW["hermes"])
    ok = any(q.callee_matches(t, AS_RAW["regular"]) for bi, t in h.calls())
    ctx.check(ok, rule, h.path, "hermes:via-regular", "the Hermes map is written through the regular map's raw form")
    d = ctx.body(AS_RAW["decoded"])
    tgts = sorted(q.nice(t.get("resolved") or t.get("callee")) for bi, t in d.calls())
    ctx.check(tgts == ["SourceMap::as_raw_sourcemap", "SourceMapHermes::as_raw_sourcemap", "SourceMapIndex::as_raw_sourcemap"], rule, d.path, "dispatch",
              "DecodedMap dispatches to the regular, index and Hermes writers", detail=str(tgts))


def who_calls_vlq(ctx, rule):
    cg = CallGraph(ctx.facts)
    import pf as _pf
    callers = sorted(set(_pf._root(c) for c in cg.callers("vlq::encode_vlq")))  # a closure counts as its function
    ctx.check(callers == sorted([DIFF, "vlq::generate_vlq_segment"]), rule, "vlq::encode_vlq", "callers",
              "encode_vlq is called only by encode_vlq_diff (difference of two widened u32) and the public generate_vlq_segment", detail=str(callers))
    c2 = sorted(set(_pf._root(c) for c in cg.callers(DIFF)))
    ctx.check(c2 == [SM], rule, DIFF, "callers", "encode_vlq_diff is called only by serialize_mappings", detail=str(c2))
    b2 = ctx.body(DIFF)
    calls = q.calls_to(b2, "vlq::encode_vlq")
    ok = len(calls) == 1 and q.shape(q.arg_expr(b2, calls[0][1], 1)) == "Sub(from<i64>(arg2),from<i64>(arg3))"
    ctx.check(ok and b2.sig and "u32, u32" in b2.sig, rule, DIFF, "operand", "the encoded number is the i64 difference of two u32 (|n| < 2^32)")


def optional_keys(ctx, rule):
    """C03.R2: optional keys carry skip_serializing_if = is_none and the encoder produces None
    (not Some(empty)) for absent values."""
    ser = _serialize_body(ctx.facts, "jsontypes::RawSourceMap")
    if not ctx.check(ser is not None, rule, "jsontypes::RawSourceMap", "derive", "RawSourceMap has a derived Serialize impl"):
        return
    keys = serde_keys(ser)
    want_skip = ["file", "sourceRoot", "sourcesContent", "sections", "names", "rangeMappings", "mappings", "ignoreList",
                 "x_facebook_offsets", "x_metro_module_paths", "x_facebook_sources", "debug_id", "debugId"]
    for k in want_skip:
        ent = keys.get(k)
        ctx.check(ent is not None and ent["skip"], rule, ser.path, "skip:%s" % k, "key %r is left out (skip_serializing_if = Option::is_none) when the map has no value" % k,
                  detail=str(ent))
        if ent is not None and ent["skip"]:
            ctx.check(q.wild("Option::is_none(arg1.*)", str(ent.get("skip_pred"))), rule, ser.path, "skip-pred:%s" % k,
                      "key %r is left out only when the value is None (an empty list is still written: `\"sections\":[]` is what makes a document an index map)" % k, detail=str(ent.get("skip_pred")))
    ctx.check("version" in keys and "sources" in keys, rule, ser.path, "keys:version,sources", "version and sources are always written")
    body = ctx.body(AS_RAW["regular"])
    agg = raw_aggregate(body)
    if not ctx.check(agg is not None, rule, body.path, "aggregate", "the regular writer builds one RawSourceMap"):
        return
    bi, si, a = agg
    il = q.root_local(a.field("ignore_list"))
    shapes = dict((sh, site) for sh, site, _ in q.def_shapes(body, il, {})) if il is not None else {}
    none_ok = any(sh == "Option::None{}" and has_fact(body, site[0], {}, ("true", "BTreeSet::is_empty(arg1.ignore_list)", None)) for sh, site in shapes.items())
    some_ok = any(sh.startswith("Option::Some{0:Iterator::collect(BTreeSet::iter(arg1.ignore_list))") for sh in shapes)
    ctx.check(none_ok and some_ok and len(shapes) == 2, rule, body.path, "ignore_list", "ignoreList is None for an empty ignore list and the collected set otherwise", detail=str(list(shapes)))
    sc = q.root_local(a.field("sources_content"))
    shapes = [sh for sh, site, _ in q.def_shapes(body, sc, {})] if sc is not None else []
    pure = ["Option::Some{0:Iterator::collect(Iterator::map(SourceMap::source_contents(arg1),%s(Option::map(p1,%s(%s)))))}" % (LAM, LAM, c % "p1") for c in STRING_COPY] + \
           ["Option::Some{0:Iterator::collect(Iterator::map(SourceMap::source_contents(arg1),%s(Option::map(p1,fn:%s))))}" % (LAM, c.split("(")[0]) for c in STRING_COPY]
    ok = len(shapes) == 2 and "Option::None{}" in shapes and any(q.wild("Option::Some{0:Iterator::collect(Iterator::map(SourceMap::source_contents(arg1),closure:*))}", x) or x in pure for x in shapes)
    ctx.check(ok, rule, body.path, "sources_content",
              "sourcesContent is None unless at least one source has contents, and the collected contents otherwise", detail=str(shapes))
    copies = [c % "p1" for c in STRING_COPY]
    for f, wants in (("file", ["Option::map(SourceMap::get_file(arg1),%s(Value::String{0:%s}))" % (LAM, c) for c in copies]),
                     ("source_root", ["Option::map(SourceMap::get_source_root(arg1),%s(%s))" % (LAM, c) for c in copies] + ["Option::map(SourceMap::get_source_root(arg1),fn:%s)" % c.split("(")[0] for c in copies]),
                     ("debug_id", ["arg1.debug_id"]), ("sections", ["Option::None{}"]), ("x_facebook_sources", ["Option::None{}"]), ("_debug_id_new", ["Option::None{}"]),
                     ("sources", ["Option::Some{0:Iterator::collect(Iterator::map(slice::iter(arg1.sources),%s(Option::Some{0:%s})))}" % (LAM, c) for c in copies]),
                     ("names", ["Option::Some{0:Iterator::collect(Iterator::map(SourceMap::names(arg1),%s(Value::String{0:%s})))}" % (LAM, c) for c in copies]),
                     ("mappings", ["Option::Some{0:encoder::serialize_mappings(arg1)}"]), ("range_mappings", ["encoder::serialize_range_mappings(arg1)"])):
        sh = q.shape(a.field(f))
        ctx.check(sh in wants, rule, body.path, "field:%s" % f, "RawSourceMap.%s is filled from %s" % (f, wants[0]), detail=sh)
    _element_closures(ctx, rule, body, a)


LAM = "\u03bb"
STRING_COPY = ("ToString::to_string(%s)", "ToOwned::to_owned(%s)", "str::to_owned(%s)", "str::to_string(%s)", "from<String>(%s)", "String::from(%s)")


def _closure_in(e):
    for x in e.walk():
        if isinstance(x, Agg) and x.ak == "closure":
            return x
    return None


def _element_closures(ctx, rule, body, a):
    """The closures the regular writer maps over file / sourceRoot / sources / names / contents copy
    each element unchanged, and the `have contents` flag is a monotone latch that is set for
    every source that has contents."""
    # contents
    sc = q.root_local(a.field("sources_content"))
    cl = None
    for sh, site, e in (q.def_shapes(body, sc, {}) if sc is not None else []):
        cl = cl or _closure_in(e)
    cb = ctx.facts.body(cl.closure, required=False) if cl is not None else None
    if cb is None or (cl is not None and len(cl.ops) == 0):
        # flag computed after the fact: `contents.iter().any(Option::is_some)` over the collected copies
        ANY = "Iterator::any(slice::iter(*),fn:Option::is_some)"
        okp = True
        for sh, site, _ in (q.def_shapes(body, sc, {}) if sc is not None else []):
            okp = okp and has_fact(body, site[0], {}, ("false" if sh == "Option::None{}" else "true", ANY, None))
        ctx.check(okp and sc is not None, rule, body.path, "closure:contents",
                  "sourcesContent is written exactly when some collected entry is present (any(Option::is_some) over the copied contents)")
        return
    if not ctx.check(len(cl.ops) == 1, rule, body.path, "closure:contents", "the contents go through a closure capturing exactly the `have contents` flag"):
        return
    cap = cl.ops[0]
    flag = q.root_local(cap)
    ok = isinstance(cap, Ref) and cap.mut and flag is not None and body.local_ty(flag) == "bool"
    if not ctx.check(ok, rule, body.path, "latch:capture", "the closure captures a `&mut bool`", detail=str(cap)):
        return
    inits = [sh for sh, site, _ in q.def_shapes(body, flag, {})]
    borrows = [1 for bi, si, s, it in body.locations() if not it and s["k"] == "assign" and s["rv"]["k"] == "ref" and s["rv"]["place"]["l"] == flag]
    ctx.check(inits == ["0"] and len(borrows) == 1, rule, body.path, "latch:init", "the flag starts false and only the contents closure can write it", detail="%s borrows=%d" % (inits, len(borrows)))
    sc = q.root_local(a.field("sources_content"))
    for sh, site, _ in (q.def_shapes(body, sc, {}) if sc is not None else []):
        if sh == "Option::None{}":
            ctx.check(has_fact(body, site[0], {flag: "FLAG"}, ("false", "FLAG", None)), rule, body.path, "latch:none", "sourcesContent is None only when the flag is still false", ctx.site(body, *site))
        else:
            ctx.check(has_fact(body, site[0], {flag: "FLAG"}, ("true", "FLAG", None)), rule, body.path, "latch:some", "sourcesContent is written when the flag is set", ctx.site(body, *site))
    # inside the closure: stores through the captured reference
    stores = []
    for bi, si, s, it in cb.locations():
        if it or s["k"] != "assign":
            continue
        pl = s["place"]
        if pl["p"] and pl["p"][0]["k"] == "deref" and pl.get("ty") == "bool":
            stores.append((bi, q.shape(cb.expr_of_rvalue(s["rv"]))))
    ctx.check(bool(stores) and all(v == "1" for _, v in stores), rule, cb.path, "latch:monotone", "the closure only ever sets the flag to true (one source with contents is enough)", detail=str(stores))
    defs = q.def_shapes(cb, 0, {})
    somes = [(sh, site) for sh, site, _ in defs if sh != "Option::None{}"]
    nones = [(sh, site) for sh, site, _ in defs if sh == "Option::None{}"]
    acc = ["Option::Some{0:%s}" % (c % "try(arg2)") for c in STRING_COPY]
    ok = len(somes) == 1 and somes[0][0] in acc and len(nones) == 1
    ctx.check(ok, rule, cb.path, "contents:copy", "present contents are copied unchanged, absent contents stay None", detail=str([d[0] for d in defs]))
    if ok:
        sb = somes[0][1][0]
        ctx.check(any(cb.dominates(b, sb) for b, _ in stores), rule, cb.path, "latch:set-on-some", "the flag is set whenever a source has contents", ctx.site(cb, sb))
        ctx.check(has_fact(cb, nones[0][1][0], {}, *opt_fact("none", "arg2")), rule, cb.path, "contents:none-only-absent", "None is produced only for a source without contents",
                  ctx.site(cb, nones[0][1][0]))


def _serialize_body(facts, adt):
    for b in facts.bodies:
        if b.promoted is None and b.derived and b.impl_self == adt and b.impl_trait and b.impl_trait.endswith("ser::Serialize") and b.name == "serialize":
            return b
    return None


def serde_keys(ser):
    """{json key: {field, skip}} read from the MIR of a derived Serialize impl."""
    keys = {}
    for bi, t in ser.calls():
        nm = q.nice(t.get("callee"))
        if nm == "SerializeStruct::serialize_field":
            k = q.arg_expr(ser, t, 1)
            v = q.shape(q.arg_expr(ser, t, 2))
            ks = k.unname().str_value() if isinstance(k.unname(), Const) else None
            if ks is not None:
                ent = keys.setdefault(ks, {"field": None, "skip": False})
                ent["field"] = v.split(".")[-1]
        elif nm == "SerializeStruct::skip_field":
            k = q.arg_expr(ser, t, 1)
            ks = k.unname().str_value() if isinstance(k.unname(), Const) else None
            if ks is not None:
                ent = keys.setdefault(ks, {"field": None, "skip": False})
                ent["skip"] = True
                # the predicate under which the key is left out
                preds = [q.shape(c.discr) for c in q.path_conditions(ser, bi) if c.truth() is True and isinstance(c.discr.unname() if hasattr(c.discr, "unname") else c.discr, Call)]
                ent["skip_pred"] = preds[-1] if preds else None
    return keys


def serde_symmetry(ctx, rule):
    """Whatever the writer may leave out, the reader must tolerate: a key with
    skip_serializing_if must belong to an Option field (serde reads a missing Option as None)
    - otherwise the crate cannot decode its own output."""
    n = 0
    for adt in ("jsontypes::RawSourceMap", "jsontypes::RawSection", "jsontypes::RawSectionOffset", "jsontypes::FacebookScopeMapping"):
        ser = _serialize_body(ctx.facts, adt)
        a = ctx.facts.adts.get(adt)
        if not ctx.check(ser is not None and a is not None, rule, adt, "derive", "%s has derived serde impls" % adt.split("::")[-1]):
            continue
        types = {f["name"]: f["ty"] for f in a["variants"][0]["fields"]}
        keys = serde_keys(ser)
        for k, v in sorted(keys.items()):
            n += 1
            if v["skip"]:
                fty = types.get(v["field"], "?")
                ctx.check(fty.startswith("core::option::Option<"), rule, adt, "skippable:%s" % k,
                          "key %r can be left out on output only because its field is an Option (a missing key reads back as None)" % k, detail="field %s: %s" % (v["field"], fty))
            else:
                ctx.ok(rule, adt, "always:%s" % k, "key %r is always written" % k)
    ctx.floor(rule, "jsontypes", "serialised keys", n, 20)


def sections(ctx, rule):
    """C01.R5 / C03.R5 encoder half."""
    body = ctx.body(AS_RAW["index"])
    agg = raw_aggregate(body)
    if not ctx.check(agg is not None, rule, body.path, "aggregate", "the index writer builds one RawSourceMap"):
        return
    a = agg[2]
    sh = q.shape(a.field("sections"))
    ctx.check(q.wild("Option::Some{0:Iterator::collect(Iterator::map(SourceMapIndex::sections(arg1),closure:*))}", sh) or q.wild("Option::Some{0:Iterator::collect(Iterator::map(SourceMapIndex::sections(arg1),fn:*))}", sh) or q.wild("Option::Some{0:Iterator::collect(Iterator::map(SourceMapIndex::sections(arg1),\u03bb(RawSection{*})))}", sh), rule, body.path, "sections:all", "every section is written, in order", detail=sh)
    ctx.check(q.shape(a.field("file")).startswith("Option::map(SourceMapIndex::get_file(arg1)"), rule, body.path, "file", "the index file name is written")
    fsh = q.shape(a.field("file"))
    ctx.check(fsh in ["Option::map(SourceMapIndex::get_file(arg1),%s(Value::String{0:%s}))" % (LAM, c % "p1") for c in STRING_COPY], rule, body.path, "file:copy", "... unchanged", detail=fsh)
    cl = q.callable_body(a.field("sections"))
    if not ctx.check(cl is not None, rule, body.path, "sections:closure", "the per-section writer is recognisable"):
        return
    P = {q.first_param(cl): "arg2"}  # the section, whether the writer is a closure or a function
    secs = [cl.expr_of_rvalue(s["rv"]) for bi, si, s, it in cl.locations() if not it and s["k"] == "assign" and s["rv"]["k"] == "agg" and s["rv"].get("adt") == "jsontypes::RawSection"]
    if not ctx.check(len(secs) == 1, rule, cl.path, "RawSection", "one RawSection is built per section"):
        return
    s = secs[0]
    ctx.check(q.shape(s.field("offset"), P) == "RawSectionOffset{line:arg2.offset.0,column:arg2.offset.1}", rule, cl.path, "offset",
              "offset.line / offset.column carry the section's line / column offset (not swapped)", detail=q.shape(s.field("offset"), P))
    ush = q.shape(s.field("url"), P)
    ctx.check(ush in ["Option::map(SourceMapSection::get_url(arg2),fn:%s)" % c.split("(")[0] for c in STRING_COPY], rule, cl.path, "url", "the section url is written unchanged", detail=ush)
    msh = q.shape(s.field("map"), P)
    ctx.check(msh == "Option::map(SourceMapSection::get_sourcemap(arg2),%s(Box::new(DecodedMap::as_raw_sourcemap(p1))))" % LAM, rule, cl.path, "map",
              "the embedded map is written when present, converted recursively and whole through DecodedMap::as_raw_sourcemap", detail=msh)
    dsh = [sh for sh, _, _ in q.def_shapes(cl, 0, {})]
    ctx.check(len(dsh) == 1 and dsh[0].startswith("RawSection{") and not any(cl.blocks[b]["term"]["k"] == "switch" for b in cl.reachable_blocks()), rule, cl.path, "section:unconditional",
              "every section is converted the same way (no case distinction)", detail=str(dsh)[:200])
    # section offsets accessors
    for g, idx in (("get_offset_line", "0"), ("get_offset_col", "1")):
        b = ctx.body("types::SourceMapSection::%s" % g)
        rets = [q.shape(b.expr_of_rvalue(s["rv"])) for bi, si, s, it in b.locations() if not it and s["k"] == "assign" and s["place"]["l"] == 0]
        ctx.check(rets == ["arg1.offset.%s" % idx], rule, b.path, "getter", "%s returns offset.%s" % (g, idx), detail=str(rets))


def whole_document(ctx, rule):
    """The serialiser hands the whole raw map to serde_json's writer and reports its errors: every
    byte of the document reaches the sink or the call fails (no partial `Write::write`, no
    swallowed error)."""
    e = ctx.body("encoder::encode")
    calls = [q.shape(e.expr_of_call(t)) for bi, t in e.calls() if q.nice(t.get("callee")) not in ("Try::branch", "FromResidual::from_residual", "From::from")]
    ok = calls == ["Encodable::as_raw_sourcemap(arg1)", "ser::to_writer(arg2,Encodable::as_raw_sourcemap(arg1))"]
    rets = sorted(sh for sh, _, _ in q.def_shapes(e, 0, {}))
    ok = ok and any(r.startswith("FromResidual::from_residual(break(Try::branch(ser::to_writer(") for r in rets) and any(r.startswith("Result::Ok{") for r in rets) and len(rets) == 2
    # the same as a tail expression: `to_writer(..).map_err(Error::from)` (Ok(()) passes through, the error is converted)
    W = "ser::to_writer(arg2,Encodable::as_raw_sourcemap(arg1))"
    ok = ok or (calls == ["Encodable::as_raw_sourcemap(arg1)", W, "Result::map_err(%s,fn:From::from)" % W] and rets == ["Result::map_err(%s,fn:From::from)" % W])
    ctx.check(ok, rule, e.path, "to_writer", "encode serialises the raw map with serde_json::to_writer into the caller's sink and propagates its error", detail=str(calls) + str(rets)[:200])
    from callgraph import CallGraph
    cg = CallGraph(ctx.facts)
    users = sorted(set(__import__("pf")._root(c) for c in cg.callers("encoder::encode")))
    # every serialising entry point reaches encode: directly, or through another map's to_writer
    entry = [b.path for b in ctx.facts.local_fns() if b.kind == "AssocFn" and (b.path.endswith("::to_writer") or b.path.endswith("::to_data_url")) and (b.path.startswith("types::") or b.path.startswith("hermes::"))]
    def reaches(p, seen=()):
        if p in users:
            return True
        callees = set()
        for bi, t in ctx.body(p).calls():
            c = t.get("resolved") or t.get("callee") or ""
            if t.get("resolved_local") and (c.endswith("::to_writer") or c.endswith("::to_data_url")) and c not in seen and c != p:
                callees.add(c)
        return any(reaches(c, tuple(seen) + (p,)) for c in callees)
    # (further callers of encode - new convenience wrappers - are harmless: the rule is about what the entry points reach)
    ok = len([u for u in users if u.endswith("::to_writer") or u.endswith("::to_data_url")]) >= 3 and len(entry) >= 5 and all(reaches(p) for p in entry)
    ctx.check(ok, rule, e.path, "callers", "every to_writer / to_data_url goes through encode (directly or through another map's to_writer)", detail=str(users) + " entry points: " + str(entry))


def hermes_payload(ctx, rule):
    h = ctx.body(AS_RAW["hermes"])
    calls = [q.shape(h.expr_of_call(t)) for bi, t in h.calls()]
    ok = any(q.wild("Clone::clone_from(*x_facebook_sources,arg1.raw_facebook_sources)", c) for c in calls)
    if not ok:
        # the same with struct update syntax: RawSourceMap { x_facebook_sources: raw.clone(), ..self.sm.as_raw_sourcemap() }
        lit = [h.expr_of_rvalue(s2["rv"]) for bi, si, s2, it in h.locations() if not it and s2["k"] == "assign" and s2["rv"]["k"] == "agg" and s2["rv"].get("adt") == "jsontypes::RawSourceMap"]
        if len(lit) == 1:
            REG = "SourceMap::as_raw_sourcemap(arg1.sm)"
            ok = all((q.shape(op) == "arg1.raw_facebook_sources") if fld == "x_facebook_sources" else (q.shape(op) == "%s.%s" % (REG, fld)) for fld, op in zip(lit[0].fields, lit[0].ops))
    ctx.check(ok, rule, h.path, "x_facebook_sources", "the Hermes writer re-emits the retained raw x_facebook_sources", detail=str(calls))


# ------------------------------------------------------------------------------------------------
# C07: range mappings writer
def rm_roles(body):
    roles = loop_roles(body)
    return roles


def range_writer(ctx, rule, parts=("R1", "R2", "R3")):
    """C07.R1-R3: advance-before-use, bounded bit write, ordinal = emitted segment ordinal."""
    real = ctx
    if set(parts) != {"R1", "R2", "R3"}:
        ctx = _Filter(real, parts)
    body = ctx.body(SRM)
    fn = body.path
    roles = loop_roles(body)
    if not ctx.check(set(roles.values()) == {"token", "idx"}, rule, fn, "roles", "the token loop variables are recognisable"):
        return
    tokens_iterated(ctx, rule, body)
    # the buffers the writer fills start empty in every call (nothing carried over from an earlier map)
    for l in sorted(body.var_names):
        if body.locals[l]["mut"] and body.local_ty(l).startswith("alloc::vec::Vec<u8"):
            ds = [sh for sh, _, _ in q.def_shapes(body, l, {})]
            ctx.check(bool(ds) and all(d in ("Vec::new()", "Default::default()") or d.startswith("Vec::with_capacity(") for d in ds), rule, fn, "fresh:%s" % body.var_names[l],
                      "the buffer `%s` is created empty in the call that fills it" % body.var_names[l], detail=str(ds))
    sets = q.calls_to(body, "BitSlice::set")
    if not ctx.check(len(sets) == 1, rule, fn, "bitset:one", "range flags are written at exactly one place"):
        return
    sb, st = sets[0]
    ctx.check(has_fact(body, sb, roles, ("true", "token.raw.is_range", None)), rule, fn, "bitset:is_range", "a bit is set exactly for range tokens", ctx.site(body, sb))
    ctx.check(q.shape(q.arg_expr(body, st, 2)) == "1", rule, fn, "bitset:true", "the bit is set to true")
    from rules.common import loop_passes
    rng_sw = [d for d in range(len(body.blocks)) if body.blocks[d]["term"]["k"] == "switch" and q.shape(body.expr_of_operand(body.blocks[d]["term"]["discr"]), roles) == "token.raw.is_range"]
    if ctx.check(len(rng_sw) == 1, rule, fn, "R1:is_range-test", "the range flag of the token is tested once"):
        yes = body.blocks[rng_sw[0]]["term"]["otherwise"]
        ctx.check(loop_passes(body, yes, loop_head(body), [sb]), rule, fn, "R1:every-range-token", "the bit is written for *every* range token (no further condition such as 'has a source')", ctx.site(body, sb))
    n_local = q.root_local(q.arg_expr(body, st, 1))
    # follow copies to the running ordinal
    ord_local = n_local
    for _ in range(3):
        ds = q.def_shapes(body, ord_local, roles)
        if len(ds) == 1 and isinstance(ds[0][2].unname(), Var):
            ord_local = ds[0][2].unname().local
        else:
            break
    r = dict(roles)
    r[ord_local] = "ORD"
    found = expect_defs(ctx, rule, body, ord_local, r, {"0": "zero", "Add(1,ORD)": "count"}, ["zero", "count"], "segment ordinal")
    lls = _line_local(body, roles)
    if not ctx.check(len(lls) == 1, rule, fn, "line-var", "the current generated line is tracked in one variable"):
        return
    lr = dict(r)
    lr[lls[0]] = "L"
    head = loop_head(body)
    # R1: the ordinal is reset when the line changes, before it is used for this token
    zs = [s for s in found.get("zero", []) if body.reaches(head, s[0]) and body.reaches(s[0], head)]
    ok = bool(zs) and all(has_fact(body, s[0], lr, ("Ne", "L", "token.raw.dst_line"), ("Ne", "token.raw.dst_line", "L")) for s in zs)
    ctx.check(ok, rule, fn, "R1:reset-on-line-change", "the per-line ordinal restarts when the token starts a new line")
    ctx.check(bool(zs) and all(body.reaches(s[0], sb) and not body.reaches(sb, s[0]) or _same_iter_before(body, head, s[0], sb) for s in zs), rule, fn, "R1:advance-before-use",
              "the line is advanced (and the ordinal restarted) before the token's flag is written in the same iteration")
    # the line variable is advanced in a loop of its own until it equals the token's line (a jump
    # over several empty lines writes several ';'), not by a single step per token
    incs = [site[0] for sh, site, _ in q.def_shapes(body, lls[0], lr) if sh == "Add(1,L)"]
    inner_ok = False
    for inc in incs:
        encl = sorted([set(bl) for h, bl in body.loops() if inc in bl], key=len)
        if len(encl) >= 2:
            tests = [q.shape(body.expr_of_operand(body.blocks[d]["term"]["discr"]), lr) for d in encl[0] if body.blocks[d]["term"]["k"] == "switch"]
            inner_ok = any(q.same_test(x, "Ne(L,token.raw.dst_line)") or q.same_test(x, "Ne(token.raw.dst_line,L)") or q.same_test(x, "Lt(L,token.raw.dst_line)") for x in tests)
    ctx.check(len(incs) == 1 and inner_ok, rule, fn, "R1:advance-loop", "the current line is advanced one by one in an inner loop until it reaches the token's line (one ';' per skipped line)")
    semis = [(bi, t) for bi, t in q.calls_to(body, "Vec::<T, A>::push") if q.shape(q.arg_expr(body, t, 1)) == "59"]
    ctx.check(len(semis) == 1 and _same_iter_before(body, head, semis[0][0], sb), rule, fn, "R1:semicolon-before-flag",
              "the ';' separators for the token's line are written before its flag (the flag lands on the token's own line)")
    # R3: ordinal counts exactly the emitted segments: incremented on every non-skipped iteration
    cnt = found.get("count", [])
    ok = len(cnt) == 1
    if ok:
        cb = cnt[0][0]
        # every path from the emission point (is_range test) to the loop head passes the increment
        emit = [bi for bi, t in q.calls_to(body, "Token::is_range")]
        ok = bool(emit) and _must_pass_to(body, emit[0], head, {cb}) and not has_fact(body, cb, lr, ("true", "token.raw.is_range", None))
    ctx.check(ok, rule, fn, "R3:ordinal-counts-emitted", "the ordinal advances once for every emitted (non-duplicate) token, range or not")
    # R2: resize dominates set with new length derived from the bit index
    rs = q.calls_to(body, "Vec::<T, A>::resize")
    data = deep_root(q.arg_expr(body, st, 0))
    r2 = dict(lr)
    if n_local is not None and n_local != ord_local:
        r2[n_local] = "NUM"
    else:
        r2[ord_local] = "NUM"
    ok = False
    for rb, rt in rs:
        if q.root_local(q.arg_expr(body, rt, 0)) != data:
            continue
        newlen = q.shape(q.arg_expr(body, rt, 1), r2)
        if newlen in ("Add(1,Div(NUM,8))", "Add(1,Shr(NUM,3))") and body.reaches(rb, sb):
            # every path to the set either resized or saw len > num/8
            # every path to the set either resized or saw len > num/8: the only condition that may
            # guard the resize is exactly len <= num/8 (no guard at all is fine too)
            guard_ok = True
            conds = [f for f in q.facts_at(body, rb, r2) if f.cond.bb not in [c.bb for c in q.path_conditions(body, sb)]]
            for f in conds:
                if f.key() not in (("Le", "Vec::len(var:Vec<u8>)", "Div(NUM,8)"), ("Le", "Vec::len(var:Vec<u8>)", "Shr(NUM,3)"), ("Lt", "Vec::len(var:Vec<u8>)", "Add(1,Div(NUM,8))")):
                    guard_ok = False
            ok = guard_ok
    ctx.check(ok, rule, fn, "R2:bounded-bit-write", "before bit NUM is set the byte buffer is grown to NUM / 8 + 1 bytes unless it is already that long")
    # the flush flag: encode_rmi is only called while the flag says "bits were set since the last
    # flush", and flushing (encode + clear) always lowers the flag before it is tested again -
    # encode_rmi never sees the emptied buffer (it slices bits[..last + 1])
    encs = q.calls_to(body, "encoder::encode_rmi")
    flags = set()
    for eb_, et in encs:
        for c in q.path_conditions(body, eb_):
            if c.truth() is True and isinstance(c.discr.unname() if hasattr(c.discr, "unname") else c.discr, Var):
                x = c.discr.unname() if hasattr(c.discr, "unname") else c.discr
                if body.local_ty(x.local) == "bool":
                    flags.add(x.local)
    if ctx.check(len(flags) == 1 and len(encs) == 2, rule, fn, "R2:flush-flag", "both flushes of the bit buffer are guarded by one `bits pending` flag", detail=str(sorted(flags))):
        HAD = flags.pop()
        fr = {HAD: "HAD"}
        ctx.check(all(has_fact(body, eb_, fr, ("true", "HAD", None)) for eb_, _ in encs), rule, fn, "R2:flush-only-when-pending", "encode_rmi runs only when the flag is set")
        lowers = set(site[0] for sh, site, _ in q.def_shapes(body, HAD, fr) if sh == "0")
        raises = [site[0] for sh, site, _ in q.def_shapes(body, HAD, fr) if sh == "1"]
        tests = [d for d in range(len(body.blocks)) if body.blocks[d]["term"]["k"] == "switch" and q.shape(body.expr_of_operand(body.blocks[d]["term"]["discr"]), fr) == "HAD"]
        clears = [bi for bi, t in q.calls_to(body, "Vec::<T, A>::clear") if q.root_local(q.arg_expr(body, t, 0)) == data]
        ok = bool(clears) and all(_must_pass_to(body, c, t, lowers) for c in clears for t in tests)
        ctx.check(ok, rule, fn, "R2:flag-lowered-after-flush", "after the buffer is flushed and cleared the flag is lowered before it can be tested again (no second flush of the emptied buffer)")
        ctx.check(bool(raises) and all(body.dominates(r, sb) or r == sb or body.reaches(r, sb, avoid=[head]) or body.reaches(sb, r, avoid=[head]) for r in raises), rule, fn, "R2:flag-raised-with-bit",
                  "the flag is raised in the iteration that sets a bit")
    # the two latches of the writer - "bits pending on this line" and "no range token seen yet" - are switched for *every*
    # bit that is set: no path through an iteration reaches the bit write, or leaves it, without each of them having
    # been assigned (a latch set under a further condition loses the line's bits, or the whole key, for the other tokens)
    hd_ = loop_head(body)
    hb_ = body.blocks[hd_]["term"].get("t") if hd_ is not None else None
    it_entry = [tb for v, tb in body.blocks[hb_]["term"].get("arms", []) if v == 1] if hb_ is not None and body.blocks[hb_]["term"]["k"] == "switch" else []
    for l_ in sorted(body.var_names):
        if body.local_ty(l_) != "bool" or not body.locals[l_]["mut"]:
            continue
        ds_ = [(sh, site) for sh, site, _ in q.def_shapes(body, l_, {})]
        if sorted(set(sh for sh, _ in ds_)) != ["0", "1"]:
            continue
        init = [sh for sh, site in ds_ if not body.reaches(hd_, site[0])]
        in_loop_raise = [site[0] for sh, site in ds_ if body.reaches(hd_, site[0]) and sh != (init[0] if init else None) and body.dominates(rng_sw[0], site[0])] if rng_sw else []
        if not in_loop_raise or not it_entry:
            continue
        before = not body.reaches(it_entry[0], sb, avoid=in_loop_raise + [hd_])
        after = all(loop_passes(body, x, hd_, in_loop_raise) for x in body.succ[sb] if not body.blocks[x]["cleanup"])
        ctx.check(before or after, rule, fn, "R2:latch-with-every-bit:%s" % body.var_names[l_], "the latch `%s` is switched in every iteration that sets a range bit (not under a further condition)" % body.var_names[l_],
                  ctx.site(body, in_loop_raise[0]))
    # flush: encode_rmi called only with had_rmi, before ';' and at the end
    enc = q.calls_to(body, "encoder::encode_rmi")
    ctx.check(len(enc) == 2, rule, fn, "R2:flush:sites", "the per-line bitfield is flushed at a line change and at the end")
    for eb, et in enc:
        flags = [c for c in q.path_conditions(body, eb) if c.dty == "bool" and c.truth() is True and isinstance(c.discr.unname() if hasattr(c.discr, "unname") else c.discr, Var)]
        ctx.check(bool(flags), rule, fn, "R2:flush:had_rmi", "the bitfield is flushed only when a range bit was written on the line (buffer non-empty)", ctx.site(body, eb))
    clears = q.calls_to(body, "Vec::<T, A>::clear")
    ctx.check(any(q.root_local(q.arg_expr(body, t, 0)) == data for bi, t in clears), rule, fn, "R2:flush:clear", "the bit buffer is cleared after a line is flushed")


class _Filter:
    """Forward only the obligations whose construct starts with one of the wanted parts (roles
    and floors are always forwarded)."""

    def __init__(self, ctx, parts):
        self._ctx = ctx
        self._parts = tuple(parts)

    def __getattr__(self, k):
        return getattr(self._ctx, k)

    def _want(self, construct):
        c = str(construct)
        if c[:2] in ("R1", "R2", "R3"):
            return c.startswith(self._parts)
        return "R1" in self._parts or c.startswith(("roles", "bitset:one", "line-var"))

    def check(self, cond, rule, fn, construct, what, site=None, detail=None):
        if self._want(construct):
            return self._ctx.check(cond, rule, fn, construct, what, site, detail)
        return bool(cond)

    def ok(self, rule, fn, construct, what, site=None, detail=None):
        if self._want(construct):
            self._ctx.ok(rule, fn, construct, what, site, detail)

    def bad(self, rule, fn, construct, what, site=None, detail=None):
        if self._want(construct):
            self._ctx.bad(rule, fn, construct, what, site, detail)

    def floor(self, *a, **k):
        return self._ctx.floor(*a, **k)


def deep_root(e):
    """Base local of an expression, through immutable bindings and view-creating calls."""
    from mir import Deref, Ref, Cast
    for _ in range(12):
        while isinstance(e, (Named, Ref, Deref, Cast)):
            e = e.x
        if isinstance(e, Call) and e.args:
            e = e.args[0]
            continue
        return q.root_local(e)
    return None


def _same_iter_before(body, head, a, b):
    """a is executed before b in the same loop iteration: b reachable from a without passing the loop head."""
    return body.reaches(a, b, avoid=[head]) or a == b


def _must_pass_to(body, start, target, through):
    seen = {start}
    stack = [start]
    while stack:
        x = stack.pop()
        for s in body.succ[x]:
            if s in through:
                continue
            if s == target:
                return False
            if s not in seen:
                seen.add(s)
                stack.append(s)
    return True


def rmi_codec(ctx, rule):
    """C07.R6: encode_byte and decode_rmi are inverse RFC 4648 tables; 6-bit groups, Lsb0, u8."""
    from rules import decoderrules
    eb = ctx.body("encoder::encode_rmi::encode_byte")
    table = {}
    for v in range(256):
        env = absint._ArgEnv(1, v)
        table[v] = absint.eval_pred(eb, env)
    bad = [v for v in range(64) if table[v] != RFC4648[v]]
    ctx.check(not bad, rule, eb.path, "encode_byte:table", "encode_byte maps 0..63 to the RFC 4648 alphabet (value-set over all inputs)", detail=str(bad[:5]))
    pan = [v for v in range(64, 256) if table[v] is not None]
    ctx.check(not pan, rule, eb.path, "encode_byte:domain", "values >= 64 reach the (unreachable in context) panic arm only")
    ctx.count("encode_byte_values", 256)
    dec = ctx.body("decoder::decode_rmi")
    dtable, rejects, _ = decoderrules.byte_table(ctx, rule, dec)
    if dtable is not None:
        inv_bad = [v for v in range(64) if dtable.get(RFC4648[v]) != v]
        ctx.check(not inv_bad, rule, dec.path, "inverse", "decode_rmi(encode_byte(v)) == v for all 64 digits", detail=str(inv_bad[:5]))
    enc = ctx.body("encoder::encode_rmi")
    tree = [enc] + list(ctx.facts.closures_of("encoder::encode_rmi"))  # the per-group work may sit in a closure (map / for_each)
    ch = [(b2, x) for b2 in tree for x in q.calls_to(b2, "BitSlice::chunks")]
    ok = len(ch) == 1 and q.shape(q.arg_expr(ch[0][0], ch[0][1][1], 1)) == "6"
    ctx.check(ok, rule, enc.path, "chunks(6)", "the writer emits 6-bit groups")
    loads = [x for b2 in tree for x in q.calls_to(b2, "BitField::load")]
    ctx.check(len(loads) == 1 and loads[0][1]["dest"]["ty"] == "u8", rule, enc.path, "load::<u8>", "each group is loaded as u8")
    ebs = [q.shape(b2.expr_of_call(t)).replace("^", "") for b2 in tree for bi, t in q.calls_to(b2, "encoder::encode_rmi::encode_byte")]
    ctx.check(len(ebs) == 1 and q.wild("encode_rmi::encode_byte(BitField::load(*))", ebs[0]), rule, enc.path, "digit-per-group", "every 6-bit group becomes one digit through encode_byte", detail=str(ebs))
    views = [t for bi, t in enc.calls() if q.nice(t.get("callee")) == "BitView::view_bits"]
    ok = bool(views) and all(any("Lsb0" in a for a in t.get("callee_args", [])) for t in views)
    ctx.check(ok, rule, enc.path, "Lsb0", "bits are viewed least-significant-bit first")
    st = q.calls_to(dec, "BitField::store_le")
    ok = len(st) == 1 and q.wild("arg2[Range{start:Mul(6,*),end:Mul(6,Add(1,*))}]", q.shape(q.arg_expr(dec, st[0][1], 0)))
    ctx.check(ok, rule, dec.path, "store:6-bit", "the reader stores each digit into bits 6*i .. 6*(i+1)")
    ctx.check(dec.sig is not None and "BitVec<u8>" in dec.sig, rule, dec.path, "BitVec<u8,Lsb0>", "the reader's bit vector has u8 storage (default order Lsb0)")
    rz = q.calls_to(dec, "BitVec::resize")
    ok = len(rz) == 1 and q.shape(q.arg_expr(dec, rz[0][1], 1)) in ("Mul(6,str::len(arg1))", "Mul(6,slice::len(str::as_bytes(arg1)))")
    ctx.check(ok, rule, dec.path, "resize:6*len", "the reader sizes the bit vector to 6 bits per digit")
    cl = [bi for bi, t in q.calls_to(dec, "BitVec::clear") if q.shape(q.arg_expr(dec, t, 0)) == "arg2"]
    rets = dec.return_blocks()
    # every return is behind the clear, and behind the re-fill unless the line's text is empty (then there is nothing to fill:
    # an early `return Ok(())` after the clear leaves the vector empty, which is what resize(0) would)
    def _filled_or_empty(r):
        if dec.dominates(rz[0][0], r):
            return True
        return has_fact(dec, r, {}, ("true", "str::is_empty(arg1)", None), ("true", "slice::is_empty(str::as_bytes(arg1))", None), ("Eq", "0", "str::len(arg1)"), ("Eq", "0", "slice::len(str::as_bytes(arg1))"))
    rsites = sorted(set(site[0] for _, site, _ in q.def_shapes(dec, 0, {}))) or rets
    fresh = len(cl) == 1 and len(rz) == 1 and dec.dominates(cl[0], rz[0][0]) and all(dec.dominates(cl[0], r) and _filled_or_empty(r) for r in rsites) and q.shape(q.arg_expr(dec, rz[0][1], 2)) == "0"
    ctx.check(fresh, rule, dec.path, "fresh-per-line",
              "the reused bit vector is cleared and unconditionally re-filled with zero bits for every line (no flag of an earlier line can survive into a later one)")
    # trailing zero trimming in the writer: bits[..last + 1]
    idx = [q.shape(enc.expr_of_call(t)) for bi, t in q.calls_to(enc, "Index::index")]
    ctx.check(any(s == "BitView::view_bits(arg2)[RangeTo{end:Add(1,var:usize)}]" for s in idx), rule, enc.path, "trim", "trailing zero bits are trimmed after the last set bit")
