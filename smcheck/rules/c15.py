"""C15 - SourceView lines and UTF-16 slices."""
from rules import svrules
from rules.common import run_rules

EXPLANATION = ("C15: (R1) the line-terminator protocol of get_line (scan predicate decided over all 256 byte values, CRLF "
               "merge, progress arithmetic, strict finished test, piece taken before the merge); (R2) unit discipline of "
               "get_line_slice (UTF-16 counter vs UTF-8 byte offsets, non-panicking final slice, overflow-free col+span); "
               "(R3) iterator and line_count plumbing; (R4) monotone state (answers cannot depend on request order); "
               "(R5) panic-freedom of the line API."
               " (R6) the crate's iterators implement `next` only.")
NOT_DECIDED = "that line i equals the i-th piece of the text as a value-level statement."

RULES = {
    "C15.RG": lambda ctx: __import__("rules.foundations", fromlist=["x"]).no_global_state(ctx, "C15.RG"),
    "C15.R6": lambda ctx: __import__("rules.foundations", fromlist=["x"]).iterator_overrides(ctx, "C15.R6"),
    "C15.RL": lambda ctx: __import__("rules.common", fromlist=["x"]).loop_exit_rule(ctx, "C15.RL", {'sourceview::SourceView::get_line': 1, 'sourceview::SourceView::get_line_slice': 3}),
    "C15.R1": svrules.c15_r1_protocol,
    "C15.R2": svrules.c15_r2_units,
    "C15.R3": svrules.c15_r3_iter,
    "C15.R4b": lambda ctx: svrules.fresh_views(ctx, "C15.R4b"),
    "C15.R4": lambda ctx: svrules.r5_monotone(ctx, "C15.R4"),
    "C15.R5": svrules.c15_r5_pf,
}


def check(ctx):
    run_rules(ctx, RULES)
