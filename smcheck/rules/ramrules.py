"""C20: indexed RAM bundles (feature ram_bundle)."""
import absint
import pf
import q
from mir import Agg, Call, Const, Named, Var
from rules.common import error_construct_blocks, has_fact, result_blocks

IRB = "ram_bundle::IndexedRamBundle::<'a>::"
PARSE, GETM, STARTUP = IRB + "parse", IRB + "get_module", IRB + "startup_code"
ISRB = "ram_bundle::is_ram_bundle_slice"
ITER = "<ram_bundle::RamBundleModuleIter<'a> as core::iter::traits::iterator::Iterator>::next"


def layout(ctx, rule):
    f = ctx.facts
    want = {"ram_bundle::RamBundleHeader": (["magic", "module_count", "startup_code_size"], 12, [0, 4, 8]), "ram_bundle::ModuleEntry": (["offset", "length"], 8, [0, 4])}
    for adt, (fields, size, offs) in want.items():
        a = f.adts.get(adt)
        if not ctx.check(a is not None, rule, adt, "exists", "%s exists" % adt):
            continue
        got = [(x["name"], x["ty"]) for x in a["variants"][0]["fields"]]
        ctx.check(got == [(n, "u32") for n in fields], rule, adt, "fields", "fields %s in this order, all u32 (Metro's indexed RAM bundle layout)" % fields, detail=str(got))
        ctx.check(a["repr_c"] and a["repr_packed"] and a.get("size") == size and a.get("offsets") == offs, rule, adt, "repr", "repr(C, packed), %d bytes, field offsets %s" % (size, offs),
                  detail="repr_c=%s packed=%s size=%s offsets=%s" % (a["repr_c"], a["repr_packed"], a.get("size"), a.get("offsets")))
    m = f.consts.get("ram_bundle::RAM_BUNDLE_MAGIC")
    ctx.check(m is not None and m.get("int") == 0xFB0BD1E5, rule, "ram_bundle::RAM_BUNDLE_MAGIC", "magic", "the magic number is 0xFB0BD1E5", detail=str(m.get("int") if m else None))
    vm = ctx.body("ram_bundle::RamBundleHeader::is_valid_magic")
    rets = [q.shape(vm.expr_of_rvalue(s["rv"])) for bi, si, s, it in vm.locations() if not it and s["k"] == "assign" and s["place"]["l"] == 0]
    ctx.check(rets in (["Eq(arg1.magic,ram_bundle::RAM_BUNDLE_MAGIC)"], ["Eq(ram_bundle::RAM_BUNDLE_MAGIC,arg1.magic)"], ["Eq(4211855845,arg1.magic)"]), rule, vm.path, "is_valid_magic", "the header is valid exactly when its magic field equals the constant", detail=str(rets))
    # every structured read is little-endian and of the right type
    n = 0
    for p in (PARSE, GETM, ISRB):
        b = ctx.body(p)
        for bi, t in b.calls():
            if q.nice(t.get("callee")) == "Pread::pread_with":
                sh = q.shape(b.expr_of_call(t))
                tys = [a for a in t.get("callee_args", []) if "ram_bundle::" in a]
                if tys:
                    n += 1
                    ctx.check(sh.endswith(",endian::LE)"), rule, p, "LE:%s" % tys[0].split("::")[-1], "%s is read little-endian" % tys[0].split("::")[-1], ctx.site(b, bi), detail=sh[:200])
    ctx.floor(rule, "ram_bundle", "structured reads", n, 3)
    for adt in want:
        impl = [b for b in ctx.facts.bodies if b.promoted is None and b.impl_self == adt and b.impl_trait and b.impl_trait.endswith("TryFromCtx")]
        ctx.check(bool(impl) and all(b.derived or True for b in impl), rule, adt, "pread-derive", "%s is read through the derived scroll::Pread implementation" % adt.split("::")[-1])


def parse_rejections(ctx, rule):
    """IndexedRamBundle::parse refuses a buffer only for a short header or a wrong magic: table and module bounds are
    checked where they are used (get_module / startup_code), so a bundle without module data still parses."""
    import re as _re
    b = ctx.body(PARSE)
    from rules.common import error_exits
    errs = error_exits(b)
    allowed = {"construct:InvalidRamBundleMagic", "propagate:Pread::pread_with"}
    ctx.check(set(errs) == allowed, rule, PARSE, "parse:rejections", "parse fails only for a header that cannot be read or a wrong magic", detail=str(sorted(errs)))


def buffer_access(ctx, rule):
    """C20.R2: the byte buffer is touched only through bounds-checked pread_with."""
    for p in (PARSE, GETM, STARTUP, ISRB):
        b = ctx.body(p)
        idx = [q.shape(b.expr_of_call(t)) for bi, t in b.calls() if q.nice(t.get("callee")) in ("Index::index", "IndexMut::index_mut", "slice::get_unchecked", "slice::split_at", "slice::as_ptr", "raw::from_raw_parts")]
        asserts = [1 for bi, t in b.asserts() if t["msg"]["k"] == "BoundsCheck"]
        ctx.check(not idx and not asserts, rule, p, "no-indexing", "no indexing, slicing or raw access of the byte buffer (only scroll's bounds-checked pread_with)", detail=str(idx))
        pr = [bi for bi, t in b.calls() if q.nice(t.get("callee")) == "Pread::pread_with"]
        ctx.check(bool(pr), rule, p, "pread", "the buffer is read with pread_with")


def guards(ctx, rule):
    b = ctx.body(PARSE)
    H = "try(Pread::pread_with(arg1,0,endian::LE))"
    oks = result_blocks(b, "Ok")
    ctx.check(bool(oks) and all(has_fact(b, o, {}, ("true", "RamBundleHeader::is_valid_magic(%s)" % H, None)) for o in oks), rule, PARSE, "magic-before-ok", "parse succeeds only for a header with the right magic")
    eb = error_construct_blocks(b, "InvalidRamBundleMagic")
    ctx.check(bool(eb) and all(has_fact(b, e, {}, ("false", "RamBundleHeader::is_valid_magic(%s)" % H, None)) for e in eb), rule, PARSE, "InvalidRamBundleMagic", "a wrong magic is reported as InvalidRamBundleMagic")
    lit = [b.expr_of_rvalue(s["rv"]) for bi, si, s, it in b.locations() if not it and s["k"] == "assign" and s["rv"]["k"] == "agg" and s["rv"].get("adt") == "ram_bundle::IndexedRamBundle"]
    if ctx.check(len(lit) == 1, rule, PARSE, "literal", "parse builds one IndexedRamBundle"):
        a = lit[0]
        ctx.check(q.shape(a.field("module_count")) == "cast<usize>(%s.module_count)" % H, rule, PARSE, "module_count", "the module count is the header's module_count, widened", detail=q.shape(a.field("module_count")))
        ctx.check(q.shape(a.field("startup_code_size")) == "cast<usize>(%s.startup_code_size)" % H, rule, PARSE, "startup_code_size", "the startup code size is the header's, widened", detail=q.shape(a.field("startup_code_size")))
        so = q.shape(a.field("startup_code_offset"))
        ctx.check(so in ("Add(Mul(cast<usize>(%s.module_count),size_of<ModuleEntry>),size_of<RamBundleHeader>)" % H, "Add(Mul(size_of<ModuleEntry>,cast<usize>(%s.module_count)),size_of<RamBundleHeader>)" % H), rule, PARSE,
                  "startup_code_offset", "startup code starts after the header and module_count table entries (widened before multiplying)", detail=so)
        ctx.check(q.shape(a.field("bytes")) == "arg1", rule, PARSE, "bytes", "the bundle keeps the given buffer")
    g = ctx.body(GETM)
    E = "try(Pread::pread_with(arg1.bytes,Add(Mul(arg2,size_of<ModuleEntry>),size_of<RamBundleHeader>),endian::LE))"
    reads = [(bi, q.shape(g.expr_of_call(t))) for bi, t in g.calls() if q.nice(t.get("callee")) == "Pread::pread_with"]
    ent = [bi for bi, sh in reads if sh == "Pread::pread_with(arg1.bytes,Add(Mul(arg2,size_of<ModuleEntry>),size_of<RamBundleHeader>),endian::LE)"]
    ctx.check(len(ent) == 1, rule, GETM, "entry-offset", "the table entry of module id is read at sizeof(header) + id * sizeof(entry)", detail=str(reads)[:300])
    for e in ent:
        ctx.check(has_fact(g, e, {}, ("Lt", "arg2", "arg1.module_count")), rule, GETM, "id<count", "only for id < module_count", ctx.site(g, e))
    eb = error_construct_blocks(g, "InvalidRamBundleIndex")
    ctx.check(bool(eb) and all(has_fact(g, x, {}, ("Le", "arg1.module_count", "arg2")) for x in eb), rule, GETM, "InvalidRamBundleIndex", "ids past the table are reported as InvalidRamBundleIndex")
    nones = [bi for bi, si, s, it in g.locations() if not it and s["k"] == "assign" and s["place"]["l"] == 0 and q.shape(g.expr_of_rvalue(s["rv"])) == "Result::Ok{0:Option::None{}}"]
    ctx.check(bool(nones) and all(has_fact(g, x, {}, ("true", "ModuleEntry::is_empty(%s)" % E, None)) for x in nones), rule, GETM, "empty-slot", "an all-zero table entry yields Ok(None)")
    ie = ctx.body("ram_bundle::ModuleEntry::is_empty")
    bad = []
    for o in (0, 1):
        for l in (0, 1):
            r = absint.eval_pred(ie, {"arg1.offset": o * 5, "arg1.length": l * 7})
            if r != int(o == 0 and l == 0):
                bad.append((o, l, r))
    ctx.check(not bad, rule, ie.path, "is_empty", "an entry is empty exactly when offset and length are both 0", detail=str(bad))
    eb = error_construct_blocks(g, "InvalidRamBundleEntry")
    ctx.check(bool(eb) and all(has_fact(g, x, {}, ("Eq", "0", "%s.length" % E)) for x in eb), rule, GETM, "InvalidRamBundleEntry", "length 0 with a non-zero offset is reported as InvalidRamBundleEntry")
    data = [(bi, sh) for bi, sh in reads if sh.startswith("Pread::pread_with(arg1.bytes,Add(arg1.startup_code_offset,")]
    want = "Pread::pread_with(arg1.bytes,Add(arg1.startup_code_offset,cast<usize>(%s.offset)),cast<usize>(Sub(%s.length,1)))" % (E, E)
    ctx.check([sh for _, sh in data] == [want], rule, GETM, "data", "module bytes start at startup offset + entry.offset (widened before adding) and have length - 1 bytes (the trailing NUL is dropped)", detail=str(data)[:400])
    for bi, sh in data:
        ctx.check(has_fact(g, bi, {}, ("Ne", "0", "%s.length" % E)), rule, GETM, "length>0", "the length is known to be non-zero before 1 is subtracted", ctx.site(g, bi))
    s = ctx.body(STARTUP)
    calls = [q.shape(s.expr_of_call(t)) for bi, t in s.calls()]
    ctx.check("Pread::pread_with(arg1.bytes,arg1.startup_code_offset,arg1.startup_code_size)" in calls, rule, STARTUP, "startup", "startup code is the declared number of bytes at the startup offset", detail=str(calls)[:200])
    # no u32 arithmetic except the guarded length - 1
    for p in (PARSE, GETM):
        b2 = ctx.body(p)
        narrow = [t["msg"] for bi, t in b2.asserts() if t["msg"]["k"] == "Overflow" and t["msg"].get("ty") == "u32"]
        ctx.check(len(narrow) == (1 if p == GETM else 0), rule, p, "widen-before-arith", "header/entry fields are widened to usize before + and * (the only u32 operation is the guarded length - 1)", detail=str([m.get("op") for m in narrow]))


def iterator(ctx, rule):
    b = ctx.body(ITER)
    calls = [q.shape(b.expr_of_call(t)) for bi, t in b.calls()]
    # combinator form of the same loop: the first id whose lookup is not Ok(None) is yielded
    # (`Ok(Some(m))` as `Some(Ok(m))`, `Err(e)` as `Some(Err(e))`: Result::transpose), ids in range order
    comb = "Iterator::find_map(Iterator::by_ref(arg1.range),\u03bb(Result::transpose(RamBundle::get_module(^arg1.ram_bundle,p1))))"
    if [sh for sh, _, _ in q.def_shapes(b, 0, {})] == [comb]:
        ctx.ok(rule, ITER, "ids-in-order", "ids are visited in increasing order through the stored range (find_map over by_ref)")
        ctx.ok(rule, ITER, "yields", "present modules and errors are yielded, the end of the range ends the iteration (find_map + transpose)")
        ctx.ok(rule, ITER, "skip-empty", "empty slots (Ok(None)) are skipped (transpose maps them to None)")
        _iter_range(ctx, rule)
        return
    ctx.check("Iterator::by_ref(arg1.range)" in calls and "RamBundle::get_module(arg1.ram_bundle,try(Iterator::next(var:&mut Range<usize>)))" in calls, rule, ITER, "ids-in-order", "ids are visited in increasing order through the stored range", detail=str(calls))
    GM = "RamBundle::get_module(arg1.ram_bundle,try(Iterator::next(var:&mut Range<usize>)))"
    # the loop with the three cases folded by transpose: `if let Some(r) = get_module(id).transpose() { return Some(r) }`
    TR = "Result::transpose(%s)" % GM
    if sorted(sh for sh, _, _ in q.def_shapes(b, 0, {})) == ["Option::None{}", "Option::Some{0:try(%s)}" % TR]:
        head = [bi for bi, t in q.calls_to(b, "Iterator::next")]
        some_sites = [site[0] for sh, site, _ in q.def_shapes(b, 0, {}) if sh.startswith("Option::Some{")]
        none_sites = [site[0] for sh, site, _ in q.def_shapes(b, 0, {}) if sh == "Option::None{}"]
        ok = bool(head) and all(has_fact(b, x, {}, *__import__("rules.common", fromlist=["x"]).opt_fact("some", TR)) for x in some_sites) \
            and all(has_fact(b, x, {}, *__import__("rules.common", fromlist=["x"]).opt_fact("none", "Iterator::next(var:&mut Range<usize>)")) for x in none_sites)
        ctx.check(ok, rule, ITER, "yields", "present modules and errors are yielded, the end of the range ends the iteration (loop + transpose)")
        # an empty slot (transpose gives None) goes on to the next id
        skip = False
        for d in range(len(b.blocks)):
            t = b.blocks[d]["term"]
            if t["k"] == "switch" and q.shape(b.expr_of_operand(t["discr"])) == "discr(%s)" % TR:
                none_t = [tb for v, tb in t["arms"] if v == 0] or ([t["otherwise"]] if [v for v, _ in t["arms"]] == [1] else [])
                skip = bool(none_t) and bool(head) and (none_t[0] == head[0] or b.reaches(none_t[0], head[0])) and not any(x in b.reachable_blocks(none_t[0], avoid=head) for x in some_sites)
        ctx.check(skip, rule, ITER, "skip-empty", "empty slots (Ok(None)) are skipped")
        _iter_range(ctx, rule)
        return
    rets = [(bi, q.shape(b.expr_of_rvalue(s["rv"]))) for bi, si, s, it in b.locations() if not it and s["k"] == "assign" and s["place"]["l"] == 0 and not s["place"]["p"]]
    shapes = sorted(sh for _, sh in rets)
    ctx.check(shapes == ["Option::None{}", "Option::Some{0:Result::Err{0:err(%s)}}" % GM, "Option::Some{0:Result::Ok{0:try(try(%s))}}" % GM], rule, ITER, "yields", "present modules and errors are yielded, the end of the range ends the iteration", detail=str(shapes))
    head = [bi for bi, t in q.calls_to(b, "Iterator::next")]
    # Ok(None) continues
    for d in range(len(b.blocks)):
        t = b.blocks[d]["term"]
        if t["k"] == "switch" and q.shape(b.expr_of_operand(t["discr"])) == "discr(try(%s))" % GM:
            none_t = [tb for v, tb in t["arms"] if v == 0]
            ctx.check(bool(none_t) and bool(head) and b.reaches(none_t[0], head[0]) and not any(bi in b.reachable_blocks(none_t[0], avoid=head) for bi, sh in rets), rule, ITER, "skip-empty", "empty slots (Ok(None)) are skipped")
    _iter_range(ctx, rule)


def _iter_range(ctx, rule):
    nb = ctx.body(ITER)
    wr = [bi for bi, si, st, it in nb.locations() if not it and st["k"] == "assign" and st["place"]["p"] and any(x.get("n") == "range" for x in st["place"]["p"] if x.get("k") == "field")]
    ctx.check(not wr, rule, ITER, "range:only-advanced", "the id range is only advanced by taking the next id (never cut short or reset)", detail=str(wr))
    im = ctx.body("ram_bundle::RamBundle::<'a>::iter_modules")
    aggs = [q.shape(im.expr_of_rvalue(s["rv"])) for bi, si, s, it in im.locations() if not it and s["k"] == "assign" and s["rv"]["k"] == "agg" and s["rv"].get("adt", "").endswith("RamBundleModuleIter")]
    ctx.check(aggs == ["RamBundleModuleIter{range:Range{start:0,end:RamBundle::module_count(arg1)},ram_bundle:arg1}"], rule, im.path, "range", "the iterator covers ids 0..module_count", detail=str(aggs))


def sibling(ctx, rule):
    b = ctx.body(ISRB)
    calls = [q.shape(b.expr_of_call(t)) for bi, t in b.calls()]
    ctx.check([c for c in calls if not c.startswith("Result::ok(")] == ["Pread::pread_with(arg1,0,endian::LE)", "Result::is_ok_and(Pread::pread_with(arg1,0,endian::LE),fn:RamBundleHeader::is_valid_magic)"], rule, ISRB, "shape",
              "recognition reads the same header type at offset 0, little-endian; a short buffer reads as false", detail=str(calls))
    hdr = [a for bi, t in b.calls() if q.nice(t.get("callee")) == "Pread::pread_with" for a in t.get("callee_args", []) if "RamBundleHeader" in a]
    ctx.check(bool(hdr), rule, ISRB, "header-type", "the value read is a RamBundleHeader")


def wrappers(ctx, rule):
    RB = "ram_bundle::RamBundle::<'a>::"
    b = ctx.body(RB + "parse_indexed_from_slice")
    lit = [q.shape(b.expr_of_rvalue(s["rv"])) for bi, si, s, it in b.locations() if not it and s["k"] == "assign" and s["rv"]["k"] == "agg" and s["rv"].get("adt", "").endswith("RamBundle")]
    ctx.check(lit == ["RamBundle{repr:RamBundleImpl::Indexed{0:try(IndexedRamBundle::parse(Cow::Borrowed{0:arg1}))}}"], rule, b.path, "parse", "parse_indexed_from_slice parses the given bytes as an indexed bundle (errors propagated)", detail=str(lit))
    for fn, want in (("get_module", "IndexedRamBundle::get_module(indexed(arg1.repr),arg2)"), ("module_count", "indexed(arg1.repr).module_count"), ("startup_code", "IndexedRamBundle::startup_code(indexed(arg1.repr))")):
        w = ctx.body(RB + fn)
        calls = [(bi, q.shape(w.expr_of_call(t))) for bi, t in w.calls()]
        hit = [bi for bi, c in calls if c == want]
        ok = len(hit) == 1 and has_fact(w, hit[0], {}, ("variant_in", "arg1.repr", (0,)))
        ctx.check(ok, rule, w.path, "forward", "RamBundle::%s forwards to the indexed implementation for indexed bundles, arguments unchanged" % fn, detail=str(calls))
        # ... and answers nothing on its own: every value the wrapper returns is what one of the two flavours answered
        rets = [sh for sh, _, _ in q.def_shapes(w, 0, {})]
        un = want.replace("IndexedRamBundle::", "UnbundleRamBundle::").replace("indexed(arg1.repr)", "unbundle(arg1.repr)")
        ctx.check(bool(rets) and all(r in (want, un) for r in rets), rule, w.path, "forward:only", "RamBundle::%s returns only what the selected implementation returned (no answer of its own, e.g. for ids past the table)" % fn, detail=str(rets)[:300])
    mc = ctx.body(IRB + "module_count")
    rets = [q.shape(mc.expr_of_rvalue(s["rv"])) for bi, si, s, it in mc.locations() if not it and s["k"] == "assign" and s["place"]["l"] == 0]
    ctx.check(rets == ["arg1.module_count"], rule, mc.path, "module_count", "module_count reports the count read from the header", detail=str(rets))


def ram_pf(ctx, rule):
    paths = [PARSE, GETM, STARTUP, IRB + "module_count", ISRB, ITER, "ram_bundle::RamBundle::<'a>::parse_indexed_from_slice", "ram_bundle::RamBundle::<'a>::get_module", "ram_bundle::RamBundle::<'a>::module_count",
             "ram_bundle::RamBundle::<'a>::startup_code", "ram_bundle::RamBundle::<'a>::iter_modules", "ram_bundle::RamBundleHeader::is_valid_magic", "ram_bundle::ModuleEntry::is_empty"]
    pf.check_bodies(ctx, rule, [ctx.body(p) for p in paths] + list(ctx.facts.closures_of(ISRB)))
