"""C17: function-name resolution (pairing rule, reverse token iterator, identifier classes)."""
import absint
import pf
import q
from mir import Agg, Call, Const, Named, Var
from rules.common import expect_defs, has_fact, opt_fact, option_blocks

GOFN = "sourceview::SourceView::get_original_function_name"
REV = "<sourceview::RevTokenIter<'view, 'map> as core::iter::traits::iterator::Iterator>::next"
STRIP = "js_identifiers::strip_identifier"


def pairing(ctx, rule):
    b = ctx.body(GOFN)
    fn = b.path
    nones = option_blocks(b, "None")
    ok = any(has_fact(b, nb, {}, ("false", "js_identifiers::is_valid_javascript_identifier(arg3)", None)) for nb in nones)
    ctx.check(ok, rule, fn, "not-identifier->None", "nothing is returned when the given name is not a JavaScript identifier")
    its = [sh for l in sorted(b.var_names) for sh, _, _ in q.def_shapes(b, l, {}) if sh.startswith("Iterator::peekable(")]
    REVLIT = "RevTokenIter{sv:arg1,token:Option::Some{0:arg2},source_line:Option::None{}}"
    ctx.check(its in (["Iterator::peekable(Iterator::take(SourceView::rev_token_iter(arg1,arg2),128))"], ["Iterator::peekable(Iterator::take(%s,128))" % REVLIT]), rule, fn, "window:128", "the walk goes backwards from the looked-up token over at most 128 tokens", detail=str(its))
    NEXT0 = "try(Iterator::next(var:Peekable<Take<RevTokenIter<>>>))"
    tok = [l for l in sorted(b.var_names) if l > b.arg_count and [sh for sh, _, _ in q.def_shapes(b, l, {})] == [NEXT0 + ".0"]]
    ident = [l for l in sorted(b.var_names) if [sh for sh, _, _ in q.def_shapes(b, l, {})] == [NEXT0 + ".1"]]
    item = [l for l in sorted(b.var_names) if [sh for sh, _, _ in q.def_shapes(b, l, {})] == ["try(Peekable::peek(var:Peekable<Take<RevTokenIter<>>>))"]]
    if not ctx.check(len(tok) == 1 and len(ident) == 1 and len(item) == 1, rule, fn, "roles", "current token, its text and the peeked element are recognisable"):
        return
    roles = {tok[0]: "cur", ident[0]: "cur_text", item[0]: "peeked"}
    d = {n: [sh for sh, _, _ in q.def_shapes(b, l, {})] for l, n in roles.items()}
    NEXT = "try(Iterator::next(var:Peekable<Take<RevTokenIter<>>>))"
    ctx.check(d["cur"] == [NEXT + ".0"] and d["cur_text"] == [NEXT + ".1"] and d["peeked"] == ["try(Peekable::peek(var:Peekable<Take<RevTokenIter<>>>))"], rule, fn, "roles:defs",
              "the current pair comes from next(), the preceding one from peek()", detail=str(d))
    somes = [(bi, q.shape(b.expr_of_rvalue(s["rv"]) if s["k"] == "assign" else b.expr_of_call(s), roles)) for bi, si, s, it in b.locations()
             if (not it and s["k"] == "assign" and s["place"]["l"] == 0 and not s["place"]["p"]) or (it and s["k"] == "call" and s["dest"]["l"] == 0 and not s["dest"]["p"])]
    # (the walk running out of tokens - `while let` falling through to None, or `iter.next()?` - answers nothing)
    rets = [(bi, sh) for bi, sh in somes if sh != "Option::None{}" and not sh.startswith("FromResidual::from_residual(break(Try::branch(Iterator::next(var:Peekable<")]
    ctx.check([sh for _, sh in rets] == ["Token::get_name(cur)"], rule, fn, "returns:name-of-current", "the answer is the original name attached to the *current* token", detail=str(rets))
    pr = ctx.facts.promoted_of(GOFN, 0)
    kw = [x.str_value() for bi, si, s, it in (pr.locations() if pr else []) if not it and s["k"] == "assign" for x in pr.expr_of_rvalue(s["rv"]).walk() if isinstance(x, Const) and x.str_value() is not None]
    ctx.check(sorted(set(kw)) == ["function"], rule, fn, "keyword", "the preceding token's text is compared with the keyword 'function'", detail=str(kw))
    for bi, sh in rets:
        ctx.check(has_fact(b, bi, roles, ("true", "PartialEq::eq(cur_text,Option::Some{0:arg3})", None)), rule, fn, "match:name", "... when the current token's text is the given minified name", ctx.site(b, bi))
        ctx.check(has_fact(b, bi, roles, *opt_fact("some", "Peekable::peek(*)")), rule, fn, "match:has-prev", "... and a preceding token exists", ctx.site(b, bi))
        ctx.check(has_fact(b, bi, roles, ("true", "PartialEq::eq(peeked.1,*)", None)), rule, fn, "match:function", "... whose text equals the keyword", ctx.site(b, bi))
    for p in ("types::SourceMap::get_original_function_name", "types::SourceMapIndex::get_original_function_name"):
        bb = ctx.body(p)
        calls = [q.shape(bb.expr_of_call(t)) for bi, t in bb.calls()]
        ok = any(c.endswith("::lookup_token(arg1,arg2,arg3)") for c in calls) and any(c.startswith("Option::and_then(") and "lookup_token(arg1,arg2,arg3)" in c for c in calls)
        cl = list(ctx.facts.closures_of(p))
        inner = [q.shape(c.expr_of_call(t)) for c in cl for bi, t in c.calls()]
        direct = [c for c in calls if q.wild("SourceView::get_original_function_name(arg5,try(*::lookup_token(arg1,arg2,arg3)),arg4)", c)]
        if direct and not inner:
            # `let token = self.lookup_token(..)?; sv.get_original_function_name(token, name)`
            ok, inner = True, ["SourceView::get_original_function_name(^arg5,arg2,^arg4)"]
        ctx.check(ok, rule, p, "lookup-then-resolve", "the map-level entry looks the position up and resolves from that token", detail=str(calls)[:200])
        # ... from whatever token the lookup found (also one on an earlier line): no answer of its own in between
        rets = [sh for sh, _, _ in q.def_shapes(bb, 0, {})]
        ok_r = all(sh.startswith("Option::and_then(") and "lookup_token(arg1,arg2,arg3)" in sh or sh.startswith("SourceView::get_original_function_name(") or
                   (sh.startswith("FromResidual::from_residual(") and "lookup_token(arg1,arg2,arg3)" in sh) for sh in rets)
        ctx.check(bool(rets) and ok_r, rule, p, "wrapper:no-own-answer", "the wrapper returns only what the lookup and the resolution return (no extra condition on the found token)", detail=str(rets)[:300])
        ctx.check(inner == ["SourceView::get_original_function_name(^arg5,arg2,^arg4)"], rule, p, "resolve-args", "token, minified name and view are forwarded unchanged", detail=str(inner))


def rev_iter(ctx, rule):
    b = ctx.body(REV)
    fn = b.path
    # the walk ends only when the tokens are used up: a token whose line or text cannot be read is still yielded (without
    # text), it does not end the walk
    for sh, site, _e in q.def_shapes(b, 0, {}):
        if sh.startswith("FromResidual::from_residual(") or sh == "Option::None{}":
            ok = sh == "FromResidual::from_residual(break(Try::branch(Option::take(arg1.token))))"
            if sh == "Option::None{}":
                from rules.common import has_fact as _hf, opt_fact as _of
                ok = _hf(b, site[0], {}, *_of("none", "Option::take(arg1.token)")) or _hf(b, site[0], {}, *_of("none", "arg1.token"))
            ctx.check(ok, rule, fn, "end:only-when-exhausted", "the reverse walk yields nothing only when there is no token left (an unreadable line yields the token without text)", ctx.site(b, *site), detail=sh[:200])
    # forward scan counters
    CH = "try(Iterator::next(var:Chars))"
    RCH = "try(Iterator::next(var:Rev<Chars>))"

    def counter(op, fn_name, item):
        out = []
        for l in sorted(b.var_names):
            if not b.locals[l]["mut"] or b.local_ty(l) != "usize":
                continue
            for sh, _, _ in q.def_shapes(b, l, {l: "SELF"}):
                if sh in ("%s(SELF,char::%s(%s))" % (op, fn_name, item), "%s(char::%s(%s),SELF)" % (op, fn_name, item)):
                    out.append(l)
        return sorted(set(out))
    off, u1 = counter("Add", "len_utf8", CH), counter("Add", "len_utf16", CH)
    newo, u2 = counter("Sub", "len_utf8", RCH), counter("Add", "len_utf16", RCH)
    idxs = u1 + u2
    if not ctx.check(len(off) == 1 and len(u1) == 1 and len(u2) == 1 and len(newo) == 1, rule, fn, "roles", "byte and UTF-16 counters of both scans are recognisable"):
        return
    roles = {off[0]: "OFF", idxs[0]: "U1", idxs[1]: "U2", newo[0]: "NEW"}
    expect_defs(ctx, rule, b, off[0], roles, {"0": "zero", "Add(OFF,char::len_utf8(%s))" % CH: "utf8", "Add(char::len_utf8(%s),OFF)" % CH: "utf8"}, ["zero", "utf8"], "forward byte offset")
    expect_defs(ctx, rule, b, idxs[0], roles, {"0": "zero", "Add(U1,char::len_utf16(%s))" % CH: "utf16", "Add(char::len_utf16(%s),U1)" % CH: "utf16"}, ["zero", "utf16"], "forward UTF-16 column")
    expect_defs(ctx, rule, b, newo[0], roles, {"var:(&str, usize, usize).2": "start", "Sub(NEW,char::len_utf8(%s))" % RCH: "utf8"}, ["start", "utf8"], "backward byte offset")
    expect_defs(ctx, rule, b, idxs[1], roles, {"0": "zero", "Add(U2,char::len_utf16(%s))" % RCH: "utf16", "Add(char::len_utf16(%s),U2)" % RCH: "utf16"}, ["zero", "utf16"], "backward UTF-16 distance")
    # comparisons: forward stops at dst_col (UTF-16), backward after chars_to_move UTF-16 units
    sw = [q.shape(b.expr_of_operand(b.blocks[d]["term"]["discr"]), roles) for d in range(len(b.blocks)) if b.blocks[d]["term"]["k"] == "switch" and not b.blocks[d]["cleanup"]]
    TOK = "try(Option::take(arg1.token))"
    ctx.check(any(q.same_test(x, "Le(cast<usize>(%s.raw.dst_col),U1)" % TOK) for x in sw), rule, fn, "forward:stop", "the forward scan stops when the UTF-16 counter reaches the token's column", detail=str([s for s in sw if "U1" in s]))
    ctx.check(any(q.same_test(x, "Le(Sub(var:(&str, usize, usize).1,cast<usize>(%s.raw.dst_col)),U2)" % TOK) for x in sw), rule, fn, "backward:stop",
              "the backward scan covers (cached column - token column) UTF-16 units", detail=str([s for s in sw if "U2" in s]))
    ctx.check(any(q.same_test(x, "Eq(cast<usize>(%s.raw.dst_line),try(arg1.source_line).1)" % TOK) for x in sw), rule, fn, "cache:same-line", "the cached line is reused only for a token on the same generated line")
    # ... and on the side where the lines are equal (a test and its negation read alike above): every value built from the
    # cached components sits under the Eq fact; every freshly fetched line does not
    LINE_EQ = ("Eq", "cast<usize>(%s.raw.dst_line)" % TOK, "try(arg1.source_line).1")
    reuse = fresh = 0
    for l in range(len(b.locals)):
        if not b.local_ty(l).startswith("(&") or l in b.var_names and False:
            continue
        for sh, site, e in q.def_shapes(b, l, {}):
            if "try(arg1.source_line).0" in sh:
                reuse += 1
                ctx.check(has_fact(b, site[0], {}, LINE_EQ), rule, fn, "cache:reuse-when-same-line", "the cached line text and offsets are reused only when the token is on the cached line", ctx.site(b, *site))
            elif "SourceView::get_line(" in sh:
                fresh += 1
                ctx.check(not has_fact(b, site[0], {}, LINE_EQ), rule, fn, "cache:fetch-otherwise", "a token on another line (or an empty cache) fetches its own line", ctx.site(b, *site))
    ctx.check(reuse >= 1 and fresh >= 1, rule, fn, "cache:both-sides", "the line cache has a reuse side and a fetch side", detail="reuse %d fetch %d" % (reuse, fresh))
    # cached tuple order
    stores = [q.shape(b.expr_of_rvalue(s["rv"]), roles) for bi, si, s, it in b.locations() if not it and s["k"] == "assign" and s["place"]["p"] and s["place"]["p"][-1].get("n") == "source_line"]
    want = "Option::Some{0:tuple(var:(&str, usize, usize).0,cast<usize>(%s.raw.dst_line),cast<usize>(%s.raw.dst_col),var:usize)}" % (TOK, TOK)
    ctx.check(want in stores and "Option::None{}" in stores, rule, fn, "cache:tuple", "the cache stores (line text, generated line, generated column, byte offset) in that order and is cleared when the offset runs past the line", detail=str(stores))
    byteoff = [l for l in sorted(b.var_names) if l not in roles and b.local_ty(l) == "usize" and sorted(sh for sh, _, _ in q.def_shapes(b, l, roles)) in (["NEW", "OFF"],)]
    if byteoff:
        r2 = dict(roles)
        ds = sorted(sh for sh, _, _ in q.def_shapes(b, byteoff[0], r2))
        ctx.check(ds == ["NEW", "OFF"], rule, fn, "byte_offset", "the token's byte offset is the forward or the backward byte counter (never a UTF-16 count)", detail=str(ds))
    gets = [q.shape(b.expr_of_call(t), roles) for bi, t in q.calls_to(b, "str::get")]
    ctx.check(len(gets) == 2 and not [1 for bi, t in q.calls_to(b, "Index::index")], rule, fn, "non-panicking-slices", "the line is sliced only with the non-panicking str::get", detail=str(gets))
    ctx.check(any(q.same_test(s, "Le(str::len(var:(&str, usize, usize).0),var:usize)") for s in sw), rule, fn, "out-of-range", "an offset at or past the end of the line yields no text")
    prev = [q.shape(b.expr_of_call(t)) for bi, t in q.calls_to(b, "types::SourceMap::get_token")]
    CS = "usize::checked_sub(%s.idx,1)" % TOK
    checked = prev == ["SourceMap::get_token(%s.sm,try(%s))" % (TOK, CS)]  # `if let Some(p) = idx.checked_sub(1)`: guard and subtraction in one
    ctx.check(checked or prev == ["SourceMap::get_token(%s.sm,Sub(%s.idx,1))" % (TOK, TOK)], rule, fn, "prev-token", "the next element is the token with the preceding index of the same map", detail=str(prev))
    for bi, t in q.calls_to(b, "types::SourceMap::get_token"):
        conds = [f for f in q.facts_at(b, bi, {}) if f.op in ("Lt", "Le", "Eq", "Ne", "true", "false")]
        if checked:
            ok = not conds and has_fact(b, bi, {}, *opt_fact("some", CS))
        else:
            ok = [f.key() for f in conds] in ([("Lt", "0", "%s.idx" % TOK)], [("Ne", "0", "%s.idx" % TOK)], [("Le", "1", "%s.idx" % TOK)])
        ctx.check(ok, rule, fn, "prev-token:whenever-idx>0",
                  "the walk continues to the preceding token whenever there is one (idx > 0, nothing stricter), so token 0 is reached", ctx.site(b, bi), detail=str(conds))
    al = [q.shape(b.expr_of_call(t)) for bi, t in b.calls() if q.nice(t.get("callee")) == "Option::and_then"]
    ctx.check(any(c.endswith("fn:js_identifiers::get_javascript_token)") for c in al), rule, fn, "token-text", "the token's text is the identifier found at that byte offset")


def classes(ctx, rule):
    import string
    for fn, uni, extra in (("js_identifiers::is_valid_start", "unicode_id_start::is_id_start_unicode(arg1)", set()),
                           ("js_identifiers::is_valid_continue", "unicode_id_start::is_id_continue_unicode(arg1)", {0x200c, 0x200d})):
        b = ctx.body(fn)
        cont = fn.endswith("continue")
        bad = []
        n = 0
        samples = list(range(128)) + [0xe9, 0x3b1, 0x200c, 0x200d, 0x2028, 0x1f600, 0xa0]
        for v in samples:
            for u in (0, 1):
                ch = chr(v)
                env = {"arg1": v, "char::is_ascii(arg1)": int(v < 128), "char::is_ascii_alphabetic(arg1)": int(ch in string.ascii_letters),
                       "char::is_ascii_alphanumeric(arg1)": int(ch in string.ascii_letters + string.digits), uni: u}
                got = absint.eval_pred(b, env)
                if v < 128:
                    want = int(ch in "$_" or (ch in string.ascii_letters + (string.digits if cont else "")))
                else:
                    want = 1 if v in extra else u
                n += 1
                if got != want:
                    bad.append((hex(v), u, got, want))
        ctx.check(not bad, rule, fn, "class-table",
                  "%s accepts $, _, ASCII letters%s%s and otherwise exactly what the Unicode ID_%s table says (never for other ASCII)" % (
                      fn.split("::")[-1], ", digits" if cont else "", ", U+200C, U+200D" if cont else "", "Continue" if cont else "Start"), detail=str(bad[:6]))
        ctx.count("identifier_class_points", n)


def strip_shape(ctx, rule):
    b = ctx.body(STRIP)
    fn = b.path
    end = [l for l in sorted(b.var_names) if b.locals[l]["mut"] and b.local_ty(l) == "usize"]
    if not ctx.check(len(end) == 1, rule, fn, "end", "one running end offset"):
        return
    roles = {end[0]: "END"}
    IT = "try(Iterator::next(var:CharIndices))"
    found = expect_defs(ctx, rule, b, end[0], roles, {"char::len_utf8(%s.1)" % IT: "first", "Add(%s.0,char::len_utf8(%s.1))" % (IT, IT): "next", "Add(char::len_utf8(%s.1),%s.0)" % (IT, IT): "next"}, ["first", "next"],
                        "end offset (always the start of a char of `s` plus its UTF-8 length: a char boundary)")
    for site in found.get("first", []):
        ctx.check(has_fact(b, site[0], roles, ("true", "js_identifiers::is_valid_start(%s.1)" % IT, None)), rule, fn, "first:valid-start", "the first character must be a valid identifier start", ctx.site(b, *site))
    for site in found.get("next", []):
        ctx.check(has_fact(b, site[0], roles, ("true", "js_identifiers::is_valid_continue(%s.1)" % IT, None)), rule, fn, "next:valid-continue", "the end advances only over valid continuation characters", ctx.site(b, *site))
    its = [sh for l in sorted(b.var_names) for sh, _, _ in q.def_shapes(b, l, roles) if sh == "str::char_indices(arg1)"]
    ctx.check(len(its) == 1, rule, fn, "char_indices", "offsets come from char_indices of the same string")
    sl = [q.shape(b.expr_of_call(t), roles) for bi, t in q.calls_to(b, "Index::index")]
    ctx.check(sl == ["arg1[RangeTo{end:END}]"], rule, fn, "slice:exclusive", "the identifier is s[..end] with an exclusive bound", detail=str(sl))
    # break at first non-continue char: the false edge does not return to the loop head
    heads = [bi for bi, t in q.calls_to(b, "Iterator::next")]
    for d in range(len(b.blocks)):
        t = b.blocks[d]["term"]
        if t["k"] == "switch" and q.shape(b.expr_of_operand(t["discr"]), roles) == "js_identifiers::is_valid_continue(%s.1)" % IT:
            ft = [tb for v, tb in t["arms"] if v == 0]
            ok = bool(ft) and len(heads) == 2 and not b.reaches(ft[0], heads[1]) and ft[0] != heads[1]
            ctx.check(ok, rule, fn, "stop-at-first-invalid", "scanning stops at the first character that cannot continue an identifier", ctx.site(b, d))
    nones = option_blocks(b, "None")
    ctx.check(len(nones) >= 2 or len(nones) == 1, rule, fn, "none", "an empty string or an invalid first character yields None")
    v = ctx.body("js_identifiers::is_valid_javascript_identifier")
    calls = [q.shape(v.expr_of_call(t)) for bi, t in v.calls()]
    rets = [q.shape(v.expr_of_rvalue(s["rv"])) for bi, si, s, it in v.locations() if not it and s["k"] == "assign" and s["place"]["l"] == 0]
    ok = rets == ["Eq(Option::map_or(js_identifiers::strip_identifier(arg1),0,fn:str::len),str::len(arg1))"]
    ctx.check(ok, rule, v.path, "whole-string", "a string is an identifier exactly when stripping keeps its whole length", detail=str(rets))
    g = ctx.body("js_identifiers::get_javascript_token")
    calls = [q.shape(g.expr_of_call(t)) for bi, t in g.calls()]
    ctx.check("js_identifiers::strip_identifier(try(Iterator::next(str::split_whitespace(arg1))))" in calls or "Option::and_then(Iterator::next(str::split_whitespace(arg1)),fn:js_identifiers::strip_identifier)" in calls, rule, g.path, "first-word", "token text is the identifier at the start of the first whitespace-separated word", detail=str(calls))


def fn_pf(ctx, rule):
    paths = [GOFN, REV, STRIP, "js_identifiers::is_valid_start", "js_identifiers::is_valid_continue", "js_identifiers::is_valid_javascript_identifier", "js_identifiers::get_javascript_token",
             "types::SourceMap::get_original_function_name", "types::SourceMapIndex::get_original_function_name"]
    bodies = [ctx.body(p) for p in paths]
    helper = ctx.facts.body("sourceview::SourceView::rev_token_iter", required=False)  # a one-line constructor helper; may be inlined into its only caller
    if helper is not None:
        bodies.append(helper)
    for p in ("js_identifiers::is_valid_javascript_identifier", "types::SourceMap::get_original_function_name", "types::SourceMapIndex::get_original_function_name"):
        bodies += list(ctx.facts.closures_of(p))
    pf.check_bodies(ctx, rule, bodies)
