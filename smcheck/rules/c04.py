"""C04 - token lookup returns the closest preceding mapping; tokens are always ordered."""
import pf
from rules import typesrules
from rules.common import run_rules

EXPLANATION = ("C04: (R1) who-may-write analysis of SourceMap.tokens over every body of the crate (only new and "
               "adjust_mappings, no public mutable access, struct literals only in new); (R2) every writer sorts before it "
               "returns (must-pass-through on the CFG); (R3) the sort keys and the lookup key are the same (dst_line, "
               "dst_col) tuple and the query is (line, col); (R4) greatest_lower_bound has the binary-search + walk-back-to-"
               "first-equal shape; (R6) iteration and get_token read the same vector by index; (R7) panic-freedom of lookup."
               " (R8) lookup on an index map and through the DecodedMap dispatch: section by greatest_lower_bound, section-relative position, same query; (R0/R6) the crate's iterators implement `next` only.")
NOT_DECIDED = "std's binary_search/sort contracts (trusted); nothing else value-level."


def r7(ctx):
    paths = [typesrules.GLB, typesrules.LOOKUP, "types::SourceMap::get_token", "types::SourceMap::get_token_count", "types::SourceMap::tokens",
             "<types::TokenIter<'a> as core::iter::traits::iterator::Iterator>::next"]
    pf.check_bodies(ctx, "C04.R7", [ctx.body(p) for p in paths] + list(ctx.facts.closures_of(paths[-1])))


RULES = {
    "C04.RG": lambda ctx: __import__("rules.foundations", fromlist=["x"]).no_global_state(ctx, "C04.RG"),
    # lookup on an index map and through the DecodedMap dispatch: section by greatest_lower_bound, relative position, same query
    "C04.R8": lambda ctx: __import__("rules.bldrules", fromlist=["x"]).index_lookup(ctx, "C04.R8"),
    "C04.RL": lambda ctx: __import__("rules.common", fromlist=["x"]).loop_exit_rule(ctx, "C04.RL", {'utils::greatest_lower_bound': 1}),
    "C04.R1": lambda ctx: typesrules.who_writes_tokens(ctx, "C04.R1"),
    "C04.R2": lambda ctx: typesrules.sort_after_write(ctx, "C04.R2"),
    "C04.R3": lambda ctx: typesrules.key_agreement(ctx, "C04.R3"),
    "C04.R4": lambda ctx: typesrules.glb_shape(ctx, "C04.R4"),
    "C04.R0": lambda ctx: __import__("rules.foundations", fromlist=["x"]).accessors(ctx, "C04.R0", ['types::Token', 'types::SourceMap::get_token', 'types::SourceMap::tokens', 'TokenIter']),
    "C04.R6": lambda ctx: typesrules.iteration(ctx, "C04.R6"),
    "C04.R7": r7,
}


def check(ctx):
    run_rules(ctx, RULES)
