"""Helpers shared by the per-property rule modules."""
from collections import deque

import q
from mir import Agg, Bin, Call, Cast, Const, Deref, Discr, Field, Index, Named, Ref, Un, Var, span_str

RFC4648 = b"ABCDEFGHIJKLMNOPQRSTUVWXYZabcdefghijklmnopqrstuvwxyz0123456789+/"


def guarded(ctx, rule, fn_name, f):
    """Run one rule; an internal failure to classify what it finds is reported as an
    undecided obligation (fail closed), never as a pass and never as a crash."""
    try:
        f()
    except Exception as e:  # noqa: BLE001
        from mir import MissingAnchor
        if isinstance(e, MissingAnchor):
            ctx.bad("anchor", str(e), "missing", "anchor function %s exists in the analysed crate" % e)
            return
        import traceback
        tb = traceback.format_exc().strip().splitlines()[-3:]
        ctx.bad(rule, fn_name, "undecided",
                "the rule recognises the idiom used at its anchor (it could not: %s: %s)" % (type(e).__name__, e),
                detail=" | ".join(tb))


def result_blocks(body, variant):
    """Blocks that store core::result::Result::<variant> into the return place."""
    out = []
    for bi, si, s, is_term in body.locations():
        if not is_term and s["k"] == "assign" and s["place"]["l"] == 0 and not s["place"]["p"]:
            rv = s["rv"]
            if rv["k"] == "agg" and rv.get("ak") == "adt" and rv["adt"] == "core::result::Result" and rv["variant"] == variant:
                out.append(bi)
    return sorted(set(out))


def residual_blocks(body):
    """Blocks that return early through `?` (from_residual into the return place)."""
    out = []
    for bi, t in body.calls():
        if q.callee_matches(t, "FromResidual::from_residual") and t["dest"]["l"] == 0:
            out.append(bi)
    return out


def option_blocks(body, variant):
    out = []
    for bi, si, s, is_term in body.locations():
        if not is_term and s["k"] == "assign" and s["place"]["l"] == 0 and not s["place"]["p"]:
            rv = s["rv"]
            if rv["k"] == "agg" and rv.get("ak") == "adt" and rv["adt"] == "core::option::Option" and rv["variant"] == variant:
                out.append(bi)
    return sorted(set(out))


def must_pass(body, start, through):
    """Every path from block `start` to a Return passes one of the blocks `through`."""
    through = set(through)
    if start in through:
        return True
    seen = {start}
    dq = deque([start])
    while dq:
        b = dq.popleft()
        if body.blocks[b]["term"]["k"] == "return":
            return False
        for s in body.succ[b]:
            if s not in seen and s not in through:
                seen.add(s)
                dq.append(s)
    return True


def error_construct_blocks(body, variant):
    return sorted(set(bi for bi, si in q.err_variant_constructions(body, variant)))


def error_exits(body):
    """How a Result-returning function can fail, one label per definition of its result: `propagate:<callee>` when the
    error is the one a call returned (`call?`, `match call { Err(e) => return Err(e) }`, `Err(Error::Wrap(e))`),
    `construct:<Variant>` when the function builds the error itself. A `?` on a local Result that an inlined helper
    filled is resolved through that local's own definitions."""
    import re as _re
    out = set()

    def classify(sh, depth=0):
        if sh.startswith("FromResidual::from_residual(break(Try::branch(") and sh.endswith(")))"):
            inner = sh[len("FromResidual::from_residual(break(Try::branch("):-3]
            m = _re.match(r"^([\w:<>]+)\(", inner)
            if m and not inner.startswith("var:"):
                out.add("propagate:%s" % m.group(1))
                return
            return "local"
        if sh.startswith("Result::Err{"):
            m = _re.search(r"err\(([\w:<>]+)\(", sh)
            if m:
                out.add("propagate:%s" % m.group(1))
                return
            m = _re.search(r"Error::(\w+)", sh)
            out.add("construct:%s" % (m.group(1) if m else sh[:60]))
        return None

    for sh, site, e in q.def_shapes(body, 0, {}):
        if classify(sh) == "local":
            # the residual of a local Result: look at how that local can be an Err
            x = e
            loc = None
            for sub in x.walk():
                if isinstance(sub, Var) and not sub.is_arg and len(body.defs.get(sub.local, [])) > 1:
                    loc = sub.local
            if loc is None:
                out.add("propagate:?%s" % sh[:40])
                continue
            for sh2, _, _ in q.def_shapes(body, loc, {}):
                if sh2.startswith("Result::Ok{"):
                    continue
                if classify(sh2) == "local":
                    out.add("propagate:?%s" % sh2[:40])
    return out


def error_returned(body, bb):
    """The error constructed in block bb reaches the return place on every path: every path
    from bb to Return passes a block that stores Err / a residual into _0."""
    errs = set(result_blocks(body, "Err")) | set(residual_blocks(body))
    return must_pass(body, bb, errs)


import re


def _split_top(s):
    out, depth, cur = [], 0, ""
    for ch in s:
        if ch in "([{":
            depth += 1
        elif ch in ")]}":
            depth -= 1
        if ch == "," and depth == 0:
            out.append(cur)
            cur = ""
        else:
            cur += ch
    out.append(cur)
    return out


def facts_keys(body, bb, roles):
    return set(f.key() for f in q.facts_at(body, bb, roles))


def has_fact(body, bb, roles, *alternatives):
    """alternatives: (op, l, r) triples; l and r may contain `*` wildcards."""
    ks = facts_keys(body, bb, roles)
    # equality calls are printed with sorted operands: try both orders of a pattern
    alts = list(alternatives)
    # `a == b` known true is `a != b` known false (and the other way round)
    for a in alternatives:
        m = re.match(r"^PartialEq::(eq|ne)\((.*)\)$", str(a[1]))
        if m and a[0] in ("true", "false") and a[2] is None:
            alts.append(("false" if a[0] == "true" else "true", "PartialEq::%s(%s)" % ("ne" if m.group(1) == "eq" else "eq", m.group(2)), None))
    alternatives = list(alts)
    for a in alternatives:
        m = re.match(r"^PartialEq::(eq|ne)\((.*)\)$", str(a[1]))
        if m:
            parts = _split_top(m.group(2))
            if len(parts) == 2:
                alts.append((a[0], "PartialEq::%s(%s,%s)" % (m.group(1), parts[1], parts[0]), a[2]))
    for a in alts:
        for k in ks:
            if k[0] == a[0] and q.wild(str(a[1]), str(k[1])) and (a[2] is None and k[2] is None or (a[2] is not None and k[2] is not None and q.wild(str(a[2]), str(k[2])))):
                return True
    return False


def opt_fact(kind, x):
    """Alternatives for 'x is Some/Ok' ("some") or 'x is None/Err' ("none") on a two-variant enum:
    `if let`/`match`/`?` leave either a positive or a negative variant fact."""
    if kind == "some":
        return [("variant_in", x, (1,)), ("variant_not_in", x, (0,)), ("variant_in", "Try::branch(%s)" % x, (0,)), ("variant_not_in", "Try::branch(%s)" % x, (1,))]
    return [("variant_in", x, (0,)), ("variant_not_in", x, (1,)), ("variant_in", "Try::branch(%s)" % x, (1,)), ("variant_not_in", "Try::branch(%s)" % x, (0,))]


def expect_defs(ctx, rule, body, local, roles, allowed, required, what):
    """Every definition of `local` matches one of the `allowed` patterns {pattern: label}
    (`*` = any sub-expression); every label in `required` occurs. Returns {label: [(bb, idx)]}."""
    fn = body.path
    found = {}
    for sh, site, e in q.def_shapes(body, local, roles):
        pat = q.match_any(allowed, sh)
        if pat is not None:
            found.setdefault(allowed[pat], []).append(site)
            ctx.ok(rule, fn, "%s:def:%s" % (what, allowed[pat]), "definition of %s has an accepted shape (%s)" % (what, sh), ctx.site(body, *site))
        else:
            ctx.bad(rule, fn, "%s:def:%s" % (what, sh), "every definition of %s has one of the accepted shapes" % what, ctx.site(body, *site),
                    detail="found shape: %s; accepted: %s" % (sh, sorted(allowed)))
    for lab in required:
        ctx.check(lab in found, rule, fn, "%s:has:%s" % (what, lab), "%s has a definition of kind '%s'" % (what, lab))
    return found


def const_bytes(c):
    a = c.get("alloc", {})
    if a.get("ptrs"):
        return a["ptrs"][0]["alloc"].get("bytes", [])
    return a.get("bytes", [])


def str_array_const(c):
    """Decode a &[&str] constant into a list of python strings."""
    a = c.get("alloc", {})
    ptrs = a.get("ptrs") or []
    if not ptrs:
        return None
    arr = ptrs[0]["alloc"]
    out = []
    raw = arr.get("bytes", [])
    for p in sorted(arr.get("ptrs", []), key=lambda p: p["offset"]):
        off = p["offset"]
        ln = int.from_bytes(bytes(raw[off + 8:off + 16]), "little")
        sb = bytes(p["alloc"].get("bytes", []))
        out.append(sb[:ln].decode("utf-8", "replace"))
    return out


def strip_casts(e):
    while True:
        if isinstance(e, Named):
            e = e.x
        elif isinstance(e, Cast):
            e = e.x
        elif isinstance(e, (Ref, Deref)):
            e = e.x
        elif isinstance(e, Call) and e.callee in q.TRANSPARENT_CALLS and len(e.args) == 1:
            e = e.args[0]
        else:
            return e


def find_exprs(e, pred):
    return [x for x in e.walk() if pred(x)]


def is_const_item(e, path):
    e = e.unname() if hasattr(e, "unname") else e
    return isinstance(e, Const) and e.c.get("uneval") == path


def run_rules(ctx, rules):
    """Run every rule of a module: RULES = {rule_id: fn(ctx)}."""
    for rid, fn in rules.items():
        guarded(ctx, rid, "<%s>" % rid, lambda fn=fn: fn(ctx))


def loop_passes(body, entry, head, through):
    """No path from `entry` (first block of a loop iteration) back to the loop `head` avoids
    every block in `through` (paths that leave the function are not constrained)."""
    through = set(through)
    if entry in through:
        return True
    seen = {entry}
    stack = [entry]
    while stack:
        x = stack.pop()
        for nx in body.succ[x]:
            if nx in through:
                continue
            if nx == head:
                return False
            if nx not in seen:
                seen.add(nx)
                stack.append(nx)
    return True


# ------------------------------------------------------------------------------------------------
# loop exits
def _result_locals(b):
    """_0 and the locals whose value is moved into it as a whole (the result slot of an inlined helper)."""
    got = getattr(b, "_result_locals", None)
    if got is None:
        got = {0}
        changed = True
        while changed:
            changed = False
            for blk in b.blocks:
                for s in blk["stmts"]:
                    if s["k"] == "assign" and s["place"]["l"] in got and not s["place"]["p"] and s["rv"]["k"] == "use":
                        op = s["rv"]["op"]
                        if op.get("k") in ("move", "copy") and not op["place"]["p"] and op["place"]["l"] not in got:
                            got.add(op["place"]["l"])
                            changed = True
        b._result_locals = got
    return got


def _errish(b, bi):
    """Does block bi give the function's result an error-like value (Err/None literal or a propagated residual)?"""
    blk = b.blocks[bi]
    res = _result_locals(b)
    for s in blk["stmts"]:
        if s["k"] == "assign" and s["place"]["l"] in res and not s["place"]["p"]:
            rv = s["rv"]
            if rv["k"] == "use" and rv["op"].get("k") in ("move", "copy") and rv["op"]["place"]["l"] in res:
                continue
            return bool(rv["k"] == "agg" and rv.get("variant") in ("Err", "None"))
    t = blk["term"]
    if t["k"] == "call" and t["dest"]["l"] in res and not t["dest"]["p"]:
        return (t.get("callee") or "").endswith("from_residual")
    return None


def _all_paths_error(b, v, loop):
    seen = set()
    stack = [v]
    while stack:
        x = stack.pop()
        if x in seen:
            continue
        seen.add(x)
        if x in loop:
            return False
        e = _errish(b, x)
        if e is True:
            continue
        if e is False:
            return False
        t = b.blocks[x]["term"]
        if t["k"] == "return":
            return False
        stack.extend(b.succs(x))
    return True


def early_exits(b):
    """Edges that leave a loop of b in a way that is neither the exhaustion of the loop's iterator
    (the None arm of its `next()`) nor an error return: `break`, `while` conditions, `return Ok(..)`
    from inside a loop. Returns [(loop head, from block, to block)]."""
    import re as _re
    out = []
    for h, blocks in b.loops():
        blocks = set(blocks)
        for u in sorted(blocks):
            if b.blocks[u]["cleanup"]:
                continue
            for v in b.succs(u):
                if v in blocks:
                    continue
                t = b.blocks[u]["term"]
                if t["k"] == "switch":
                    sh = q.shape(b.expr_of_operand(t["discr"]))
                    if _re.match(r"^discr\((try\()?[\w:<>]*::next\(", sh):
                        some_arm = [a for a in t["arms"] if a[0] == 1]
                        # the None side: an explicit 0 arm, or the `otherwise` of `let Some(x) = it.next() else { .. }`
                        if [a for a in t["arms"] if a[1] == v and a[0] == 0] or (some_arm and v == t["otherwise"] and v != some_arm[0][1]):
                            continue
                if _all_paths_error(b, v, blocks):
                    continue
                out.append((h, u, v))
    return out


def loop_exit_rule(ctx, rule, table):
    """table: {root function: number of early exits counted on the reference tree}. A loop that
    must visit every element (segments, tokens, sections, lines) may not gain a way out: `continue`
    turned into `break`, a new early `return Ok`, a new `while` condition."""
    for root, allowed in sorted(table.items()):
        bodies = [ctx.body(root)] + list(ctx.facts.closures_of(root))
        found = []
        for b in bodies:
            for h, u, v in early_exits(b):
                found.append("%s@%s" % (b.path.split("::")[-1], ctx.site(b, u)))
        ctx.check(len(found) <= allowed, rule, root, "loop-exits",
                  "the loops of %s end only when their iterator is exhausted or with an error, apart from %d reviewed exit(s) (break / while condition / early Ok)" % (root.split("::")[-1], allowed),
                  detail="%d found: %s" % (len(found), found))


def filled_by_loop(body, vec_local, roles=None):
    """`let mut v = Vec::new()/with_capacity(..); for x in ITER { v.push(ELEM) }` - the loop spelling of
    `ITER.map(|x| ELEM).collect()`: returns (shape of ITER's source, shape of ELEM with the loop element written
    p1, block of the push) when `vec_local` starts as a fresh vector and is filled by exactly one push that every
    iteration of one loop passes; None otherwise."""
    ds = [sh for sh, _, _ in q.def_shapes(body, vec_local, roles)]
    if len(ds) != 1 or not (ds[0] in ("Vec::new()", "Default::default()") or ds[0].startswith("Vec::with_capacity(")):
        return None
    pushes = [(bi, t) for bi, t in q.calls_to(body, "Vec::<T, A>::push") if q.root_local(q.arg_expr(body, t, 0)) == vec_local]
    if len(pushes) != 1:
        return None
    pb, pt = pushes[0]
    heads = [(bi, t) for bi, t in q.calls_to(body, "Iterator::next") if body.dominates(bi, pb)]
    if not heads:
        return None
    hb, ht = heads[-1] if len(heads) == 1 else max(heads, key=lambda h: len(body.dominators_of(h[0])))
    it_local = q.root_local(q.arg_expr(body, ht, 0))
    if it_local is None:
        return None
    srcs = [sh for sh, _, _ in q.def_shapes(body, it_local, roles)]
    if len(srcs) != 1:
        return None
    sw = body.blocks[hb]["term"].get("t")
    tt = body.blocks[sw]["term"] if sw is not None else {}
    ent = [tb for v, tb in tt.get("arms", []) if v == 1] if tt.get("k") == "switch" else []
    if not ent or not loop_passes(body, ent[0], hb, [pb]):
        return None
    elem = q.shape(q.arg_expr(body, pt, 1), roles)
    nxt = "try(%s)" % q.shape(body.expr_of_call(ht), roles)
    src = srcs[0]
    for pre in ("IntoIterator::into_iter(", "slice::iter("):
        if src.startswith(pre) and src.endswith(")"):
            src = src[len(pre):-1]
    return src, elem.replace(nxt, "p1"), pb


def for_each_form(body, iter_patterns, roles=None):
    """`ITER.for_each(closure)` in place of `for x in ITER { .. }`: returns (block, closure body,
    [shapes of the crate-local calls the closure makes, capture markers removed]) for a for_each
    call whose iterator matches one of the patterns, else None."""
    for bi, t in body.calls():
        if q.nice(t.get("callee")) != "Iterator::for_each":
            continue
        it = q.shape(q.arg_expr(body, t, 0), roles)
        if not any(q.wild(p, it) for p in iter_patterns):
            continue
        cl = q.callable_body(q.arg_expr(body, t, 1))
        if cl is None:
            continue
        calls = [q.shape(cl.expr_of_call(t2)).replace("^", "") for b2, t2 in cl.calls() if t2.get("resolved_local")]
        return bi, cl, calls
    return None


def mut_borrow_users(body, local):
    """Who receives a `&mut local`: [(block, callee)] for every mutable borrow of the whole local that is handed to a
    call as an argument; a mutable borrow that goes anywhere else is reported with callee '?'."""
    out = []
    for bi, si, s, it in body.locations():
        if it or s["k"] != "assign" or s["rv"]["k"] != "ref" or not s["rv"].get("mut"):
            continue
        pl = s["rv"]["place"]
        if pl["l"] != local or pl["p"]:
            continue
        t = s["place"]["l"]
        users = []
        for bj, term in body.calls():
            for a in term.get("args", []):
                if a.get("k") in ("move", "copy") and a["place"]["l"] == t and not a["place"]["p"]:
                    users.append((bj, q.nice(term.get("resolved") or term.get("callee"))))
        out.extend(users or [(bi, "?")])
    return out


def given_up_for(body, bb, roles, reasons, depth=4):
    """Is block `bb` (where a function answers None / gives up) reached only because one of the reviewed expressions
    `reasons` (shape prefixes) turned out empty? Either a variant fact about such an expression holds at bb, or bb is a
    join of several such tests (`let Some(Some(x)) = .. else`): then every edge into it comes from a switch on one of
    them (followed backwards through blocks that do nothing but jump)."""
    def reason(text):
        t = str(text)
        while True:
            for pre in ("Try::branch(", "discr("):
                if t.startswith(pre):
                    t = t[len(pre):]
                    break
            else:
                break
        return t.startswith(tuple(reasons))
    ks = [k for k in facts_keys(body, bb, roles) if k[0] in ("variant_in", "variant_not_in")]
    if any(reason(k[1]) for k in ks):
        return True
    preds = [p for p in body.pred[bb] if not body.blocks[p]["cleanup"]]
    if not preds or depth == 0:
        return False
    for p in preds:
        t = body.blocks[p]["term"]
        if t["k"] == "switch" and reason(q.shape(body.expr_of_operand(t["discr"]), roles)):
            continue
        if t["k"] == "goto" and not [s_ for s_ in body.blocks[p]["stmts"] if s_["k"] == "assign"] and given_up_for(body, p, roles, reasons, depth - 1):
            continue
        return False
    return True
