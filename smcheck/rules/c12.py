"""C12 - reader, slice and data-URL decoding agree, however the stream is chunked."""
import pf
from rules import hdrrules
from rules.common import run_rules

EXPLANATION = ("C12: (R1) both decode paths and both detection paths converge on the same raw type and shared back end; (R2) "
               "one junk classifier, decided over all 256 byte values, used by both strippers; (R3) the transition tables of "
               "the streaming and the slice header stripper are extracted from the MIR (unique path per state x byte class) "
               "and compared for bisimilarity; (R4) chunk-boundary independence: the only state carried across bytes and reads "
               "is self.header_state, end of input and header-consumed chunks are handled, emitted ranges start at the current "
               "byte; (R5) the data-URL path ends in decode_slice; (R6) panic-freedom of the strippers."
               " (RW) the wire structs RawSourceMap/RawSection carry derived serde impls only, so key names and optionality are exactly what the attributes say.")
NOT_DECIDED = "equality of serde_json's two front ends on all byte strings (dependency, trusted)."
TECHNIQUE = "static analysis: automaton extraction by path-determinate abstract interpretation of MIR + bisimulation check; value-set analysis of byte classifiers"


def r6(ctx):
    paths = [hdrrules.STREAM, hdrrules.SLICE, hdrrules.JUNK, "<decoder::StripHeaderReader<R> as std::io::Read>::read", "decoder::decode", "decoder::decode_slice"]
    pf.check_bodies(ctx, "C12.R6", [ctx.body(p) for p in paths])


RULES = {
    "C12.RW": lambda ctx: __import__("rules.foundations", fromlist=["x"]).wire_types_derived_only(ctx, "C12.RW"),
    "C12.RG": lambda ctx: __import__("rules.foundations", fromlist=["x"]).no_global_state(ctx, "C12.RG"),
    "C12.RL": lambda ctx: __import__("rules.common", fromlist=["x"]).loop_exit_rule(ctx, "C12.RL", {'decoder::strip_junk_header': 1, 'decoder::StripHeaderReader::<R>::strip_head_read': 5}),
    "C12.R1": lambda ctx: hdrrules.convergence(ctx, "C12.R1"),
    "C12.R2": lambda ctx: hdrrules.junk_classifier(ctx, "C12.R2") and None,
    "C12.R3a": lambda ctx: hdrrules.stream_expected(ctx, "C12.R3a") and None,
    "C12.R3b": lambda ctx: hdrrules.slice_expected(ctx, "C12.R3b") and None,
    "C12.R3": lambda ctx: hdrrules.bisimilar(ctx, "C12.R3"),
    "C12.R4": lambda ctx: hdrrules.chunk_independence(ctx, "C12.R4"),
    "C12.R6": r6,
}


def check(ctx):
    run_rules(ctx, RULES)
