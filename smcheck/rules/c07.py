"""C07 - range mappings survive serialisation and shift lookups inside the range."""
import pf
from rules import decoderrules, encrules, typesrules
from rules.common import run_rules

EXPLANATION = ("C07: (R1-R3) the range-mapping writer advances to the token's line before it writes the flag, grows the bit "
               "buffer from the bit index, and numbers flags by emitted segment (the duplicate skip of serialize_mappings is "
               "mirrored); (R4) the lookup offset is written only for a range token on its own line and added with "
               "saturating_add; (R5) the reader takes bit k of the line's bitfield for segment k; (R6) encode_byte and "
               "decode_rmi are inverse RFC 4648 tables over 6-bit little-endian groups (value-set over all 256 inputs); "
               "(R7) panic-freedom of the writer, reader and lookup."
               " (R8) the index delegation keeps the section-relative position the range offset is computed from."
               " (R9) the rangeMappings key is optional and omitted when empty; (R10) decode_regular rejects only for the reviewed reasons; (R3m) only exact duplicates are dropped before the bitfield is written.")
NOT_DECIDED = "the value-level equality 'flag set after a round trip = flag set before' for all maps."


def r7(ctx):
    paths = [encrules.SRM, "encoder::encode_rmi", "encoder::encode_rmi::encode_byte", "decoder::decode_rmi", typesrules.LOOKUP,
             "types::Token::<'a>::get_src_col", "types::Token::<'a>::is_range"]
    pf.check_bodies(ctx, "C07.R7", [ctx.body(p) for p in paths])


RULES = {
    # the two writers stay in step: serialize_mappings, too, skips exact duplicates only (the ordinal counted by the
    # range-mapping writer is the ordinal of the segment the mappings writer emits)
    "C07.R3m": lambda ctx: encrules.only_duplicates_skipped(ctx, "C07.R3m"),
    # the reader accepts what the writer produces: no further rejection (e.g. a length limit on rangeMappings) in the decoder
    "C07.R10": lambda ctx: decoderrules.rejections_exact(ctx, "C07.R10"),
    # what the writer puts under rangeMappings is serialize_range_mappings of the map as it is now (no memo of an earlier encode)
    "C07.R9": lambda ctx: encrules.optional_keys(ctx, "C07.R9"),
    "C07.RG": lambda ctx: __import__("rules.foundations", fromlist=["x"]).no_global_state(ctx, "C07.RG"),
    # range offsets are computed on the section-relative position: the index delegation must not distort it
    "C07.R8": lambda ctx: __import__("rules.bldrules", fromlist=["x"]).index_lookup(ctx, "C07.R8"),
    "C07.RL": lambda ctx: __import__("rules.common", fromlist=["x"]).loop_exit_rule(ctx, "C07.RL", {'encoder::serialize_range_mappings': 1, 'encoder::encode_rmi': 0, 'decoder::decode_rmi': 0}),
    "C07.R1": lambda ctx: encrules.range_writer(ctx, "C07.R1", ("R1", "R3")),
    "C07.R2": lambda ctx: encrules.range_writer(ctx, "C07.R2", ("R2",)),
    "C07.R3": lambda ctx: encrules.only_duplicates_skipped(ctx, "C07.R3", encrules.SRM),
    "C07.R3s": lambda ctx: encrules.separators(ctx, "C07.R3s", encrules.SRM, "Vec::<T, A>::push"),
    "C07.R4": lambda ctx: typesrules.range_offset(ctx, "C07.R4"),
    "C07.R5": lambda ctx: decoderrules.range_reader(ctx, "C07.R5"),
    "C07.R5b": lambda ctx: decoderrules.rmi_reader(ctx, "C07.R5b"),
    "C07.R6": lambda ctx: encrules.rmi_codec(ctx, "C07.R6"),
    "C07.R0": lambda ctx: __import__("rules.foundations", fromlist=["x"]).accessors(ctx, "C07.R0", ['types::Token']),
    "C07.R7": r7,
}


def check(ctx):
    run_rules(ctx, RULES)
