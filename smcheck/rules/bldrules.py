"""Rules about the builder, rewrite, flatten and the source-root cache (C08, C09, C13)."""
import absint
import q
from mir import Agg, Bin, Call, Const, Deref, Named, Ref, Var
from rules.common import expect_defs, has_fact, loop_passes, must_pass, opt_fact
from rules.typesrules import field_writers

B = "builder::SourceMapBuilder::"
RWM = "types::SourceMap::rewrite_with_mapping"
FLAT = "types::SourceMapIndex::flatten"
ILOOKUP = "types::SourceMapIndex::lookup_token"
HREW = "hermes::SourceMapHermes::rewrite"


LAM = "\u03bb"


def named(body, pred, any_def=False):
    """Named locals *all* of whose definitions have a shape accepted by pred(shape): a role is only given to a
    variable that cannot hold anything else (a second definition from a fast path or a fallback would otherwise
    hide behind the role name). any_def=True: one accepted definition is enough."""
    out = []
    for l in sorted(body.var_names):
        if body.var_names[l] in ("val", "residual"):
            continue  # artefacts of the `?` desugaring
        shs = [sh for sh, site, e in q.def_shapes(body, l, {})]
        if shs and (any(pred(sh) for sh in shs) if any_def else all(pred(sh) for sh in shs)):
            out.append(l)
    return out


def typed_vars(body, ty_suffix):
    return [l for l in sorted(body.var_names) if body.local_ty(l).endswith(ty_suffix)]


# ---------------------------------------------------------------------------------------------
# interning (C09.R2 / C13.R1)
def interning(ctx, rule):
    for fn, vec, mp, extra in ((B + "add_source_with_id", "sources", "source_map", ("sources_mapping", "arg3")), (B + "add_name", "names", "name_map", None)):
        b = ctx.body(fn)
        cnt = named(b, lambda s: s == "cast<u32>(Vec::len(arg1.%s))" % vec)
        ids = named(b, lambda s: s == "Entry::or_insert(HashMap::entry(arg1.%s,arg2),cast<u32>(Vec::len(arg1.%s)))" % (mp, vec))
        if not ctx.check(len(cnt) == 1 and len(ids) == 1, rule, fn, "shape",
                         "id = *map.entry(key).or_insert(count) with count = vec.len() and the key taken from the parameter"):
            continue
        roles = {cnt[0]: "count", ids[0]: "id"}
        pushes = [(bi, q.shape(b.expr_of_call(t), roles)) for bi, t in q.calls_to(b, "Vec::<T, A>::push")]
        want = ["Vec::push(arg1.%s,arg2)" % vec] + (["Vec::push(arg1.%s,%s)" % extra] if extra else [])
        ctx.check(sorted(s for _, s in pushes) == sorted(want), rule, fn, "pushes", "a new key is appended to %s%s" % (vec, " together with its old id" if extra else ""), detail=str(pushes))
        for bi, s in pushes:
            ctx.check(has_fact(b, bi, roles, ("Eq", "count", "id"), ("Eq", "id", "count")), rule, fn, "push:only-new", "the push happens exactly when the key was not interned before (id == count)", ctx.site(b, bi))
        rets = [q.shape(b.expr_of_rvalue(s["rv"]), roles) for bi, si, s, it in b.locations() if not it and s["k"] == "assign" and s["place"]["l"] == 0 and not s["place"]["p"]]
        ctx.check(rets == ["id"], rule, fn, "returns-id", "the interned id is returned", detail=str(rets))
        # the count is read before the entry is inserted
        ctx.check(b.dominates(b.defs[cnt[0]][0][0], b.defs[ids[0]][0][0]), rule, fn, "count-first", "the count is taken before the insertion")


def add_with_id(ctx, rule):
    b = ctx.body(B + "add_with_id")
    fn = b.path
    aggs = [(bi, si, b.expr_of_rvalue(s["rv"])) for bi, si, s, it in b.locations() if not it and s["k"] == "assign" and s["rv"]["k"] == "agg" and s["rv"].get("adt") == "types::RawToken"]
    if not ctx.check(len(aggs) == 1, rule, fn, "literal", "add_with_id builds one RawToken"):
        return
    a = aggs[0][2]
    sid = q.root_local(a.field("src_id"))
    nid = q.root_local(a.field("name_id"))
    roles = {sid: "SID", nid: "NID"}
    sh = q.shape(a, roles)
    ctx.check(sh == "RawToken{dst_line:arg2,dst_col:arg3,src_line:arg4,src_col:arg5,src_id:SID,name_id:NID,is_range:arg9}", rule, fn, "fields",
              "the token's fields are the parameters of the same meaning, in order", detail=sh)
    # id = interned id when a string was given, the tombstone !0 otherwise - as a two-sided match
    # or as `opt.map_or(!0, |s| self.add_..(s))`; both print as the same map_or form
    for loc, want, what in ((sid, "Option::map_or(arg6,Not(0),%s(SourceMapBuilder::add_source_with_id(arg1,p1,arg7)))" % LAM, "source"),
                            (nid, "Option::map_or(arg8,Not(0),%s(SourceMapBuilder::add_name(arg1,p1)))" % LAM, "name")):
        vs = (q.value_shape(b, loc, {}) or "").replace("^", "")
        ctx.check(vs == want, rule, fn, "id:%s" % what,
                  "the %s id is the interned id of the given string and the tombstone only when no %s was given (every given string, the empty one included, is interned)" % (what, what), detail=vs)
    pushes = [q.shape(b.expr_of_call(t), roles) for bi, t in q.calls_to(b, "Vec::<T, A>::push")]
    ctx.check(len(pushes) == 1 and pushes[0].startswith("Vec::push(arg1.tokens,RawToken{"), rule, fn, "push", "the token is appended to the builder's tokens")
    pb = [bi for bi, t in q.calls_to(b, "Vec::<T, A>::push")]
    ctx.check(len(pb) == 1 and all(b.dominates(pb[0], r) for r in b.return_blocks()), rule, fn, "push:unconditional", "every added token is appended (no token is filtered or merged by the builder)")
    rets = [q.shape(b.expr_of_rvalue(s["rv"]), roles) for bi, si, s, it in b.locations() if not it and s["k"] == "assign" and s["place"]["l"] == 0 and not s["place"]["p"]]
    ctx.check(len(rets) == 1 and rets[0].startswith("RawToken{"), rule, fn, "returns-token", "the token (with the interned ids) is returned")
    rb = ctx.body(B + "add_raw")
    rl = [q.shape(rb.expr_of_rvalue(s["rv"])) for bi, si, s, it in rb.locations() if not it and s["k"] == "assign" and s["rv"]["k"] == "agg" and s["rv"].get("adt") == "types::RawToken"]
    ctx.check(rl == ["RawToken{dst_line:arg2,dst_col:arg3,src_line:arg4,src_col:arg5,src_id:Option::unwrap_or(arg6,Not(0)),name_id:Option::unwrap_or(arg7,Not(0)),is_range:arg8}"], rule, rb.path, "add_raw:fields",
              "add_raw stores the given positions and ids (absent ids as the tombstone !0)", detail=str(rl)[:300])
    rp = [q.shape(rb.expr_of_call(t)) for bi, t in q.calls_to(rb, "Vec::<T, A>::push")]
    ctx.check(len(rp) == 1 and rp[0].startswith("Vec::push(arg1.tokens,RawToken{"), rule, rb.path, "add_raw:push", "... and appends the token")
    rpb = [bi for bi, t in q.calls_to(rb, "Vec::<T, A>::push")]
    ctx.check(len(rpb) == 1 and all(rb.dominates(rpb[0], r) for r in rb.return_blocks()), rule, rb.path, "add_raw:unconditional", "... unconditionally")
    ab = ctx.body(B + "add")
    calls = [q.shape(ab.expr_of_call(t)) for bi, t in ab.calls()]
    ctx.check(calls == ["SourceMapBuilder::add_with_id(arg1,arg2,arg3,arg4,arg5,arg6,Not(0),arg7,arg8)"], rule, ab.path, "add", "add forwards its arguments positionally with no old id", detail=str(calls))
    tb = ctx.body(B + "add_token")
    nm = named(tb, lambda s: s in ("Token::get_name(arg2)", "Option::None{}"))
    troles = {nm[0]: "NAME"} if nm else {}
    calls = [q.shape(tb.expr_of_call(t), troles) for bi, t in q.calls_to(tb, B + "add_with_id")]
    want = "SourceMapBuilder::add_with_id(arg1,arg2.raw.dst_line,arg2.raw.dst_col,arg2.raw.src_line,Token::get_src_col(arg2),Token::get_source(arg2),arg2.raw.src_id,NAME,arg2.raw.is_range)"
    alt = want.replace("NAME", "Option::flatten(bool::then(arg3,%s(Token::get_name(arg2))))" % LAM)  # with_name.then(|| token.get_name()).flatten()
    if [c.replace("^", "") for c in calls] == [alt]:
        calls = [want]
    ctx.check(calls == [want], rule, tb.path, "add_token:forward", "add_token re-inserts the token's own positions, source, old source id and range flag, in order", detail=str(calls))
    if nm:
        found = expect_defs(ctx, rule, tb, nm[0], troles, {"Token::get_name(arg2)": "name", "Option::None{}": "dropped"}, ["name", "dropped"], "name argument")
        for site in found.get("name", []):
            ctx.check(has_fact(tb, site[0], troles, ("true", "arg3", None)), rule, tb.path, "add_token:with_name", "the name is kept exactly when with_name is set", ctx.site(tb, *site))


# ---------------------------------------------------------------------------------------------
def rewrite_roles(b):
    roles = {}
    for l in named(b, lambda s: s == "try(TokenIter::next(var:TokenIter))"):
        roles[l] = "token"
    for l in typed_vars(b, "builder::SourceMapBuilder"):
        roles[l] = "builder"
    for l in named(b, lambda s: s.startswith("SourceMapBuilder::add_token(") or s.startswith("SourceMapBuilder::add(")):
        roles[l] = "raw"
    return roles


def rewrite_loop(ctx, rule):
    """C09.R1/R3/R4."""
    b = ctx.body(RWM)
    fn = b.path
    roles = rewrite_roles(b)
    if not ctx.check(sorted(roles.values()) == ["builder", "raw", "token"], rule, fn, "roles", "builder, token and re-inserted token are recognisable", detail=str(roles)):
        return
    inv = {v: k for k, v in roles.items()}
    adds = q.calls_to(b, B + "add_token")
    ok = len(adds) == 1 and q.shape(b.expr_of_call(adds[0][1]), roles) == "SourceMapBuilder::add_token(builder,token,arg2.with_names)"
    ctx.check(ok, rule, fn, "add_token", "every token is re-inserted through add_token with the names option")
    it = named(b, lambda s: s == "IntoIterator::into_iter(SourceMap::tokens(arg1))")
    ctx.check(len(it) == 1, rule, fn, "iterates:tokens", "the loop runs over self.tokens()")
    if adds:
        tdef = b.defs[inv["token"]][0][0]
        ctx.check(adds[0][0] == tdef or (b.dominates(tdef, adds[0][0]) and must_pass(b, tdef, [adds[0][0]])), rule, fn, "add_token:no-skip", "no path through the loop body skips the re-insertion")
    sets = q.calls_to(b, B + "set_source_contents")
    ok = len(sets) == 1 and q.shape(b.expr_of_call(sets[0][1]), roles) == "SourceMapBuilder::set_source_contents(builder,raw.src_id,SourceMap::get_source_contents(arg1,token.raw.src_id))"
    ctx.check(ok, rule, fn, "contents:old-id", "contents are attached to the new id (raw.src_id) and looked up by the token's old id on the original map",
              detail=str([q.shape(b.expr_of_call(t), roles) for _, t in sets]))
    for bi, t in sets:
        ctx.check(has_fact(b, bi, roles, ("Ne", "Not(0)", "raw.src_id"), ("Ne", "raw.src_id", "Not(0)")), rule, fn, "contents:has-source", "only for tokens with a source", ctx.site(b, bi))
        ctx.check(has_fact(b, bi, roles, ("true", "arg2.with_source_contents", None)), rule, fn, "contents:option", "only when contents are kept", ctx.site(b, bi))
        ctx.check(has_fact(b, bi, roles, ("false", "SourceMapBuilder::has_source_contents(builder,raw.src_id)", None)), rule, fn, "contents:first-wins", "only when the new id has no contents yet", ctx.site(b, bi))
    news = [q.shape(b.expr_of_call(t), roles) for bi, t in q.calls_to(b, B + "new")]
    ctx.check(news == ["SourceMapBuilder::new(SourceMap::get_file(arg1))"], rule, fn, "file", "the rewritten map keeps the file name", detail=str(news))
    dbg = q.calls_to(b, B + "set_debug_id")
    fin = q.calls_to(b, B + "into_sourcemap")
    tk = q.calls_to(b, B + "take_mapping")
    ok = len(dbg) == 1 and len(fin) == 1 and q.shape(b.expr_of_call(dbg[0][1]), roles) == "SourceMapBuilder::set_debug_id(builder,arg1.debug_id)" and b.dominates(dbg[0][0], fin[0][0])
    ctx.check(ok, rule, fn, "debug_id", "the debug id is copied before the map is finished, on every path")
    ctx.check(len(tk) == 1 and len(fin) == 1 and b.dominates(tk[0][0], fin[0][0]), rule, fn, "mapping", "the old-id mapping is taken before the builder is consumed")
    sp = q.calls_to(b, B + "strip_prefixes")
    ctx.check(len(sp) == 1 and len(fin) == 1 and b.reaches(sp[0][0], fin[0][0]), rule, fn, "strip-before-finish", "prefixes are stripped before the map is finished")
    # the first matching prefix wins, so the list strip_prefixes receives must be in the order the options gave it:
    # the vector is only appended to (no sort, dedup, reverse, retain, swap ... between collecting and stripping)
    if sp:
        arg = q.arg_expr(b, sp[0][1], 1)
        while isinstance(arg, (Ref, Deref)) or (isinstance(arg, Call) and q.nice(arg.callee) in ("Deref::deref", "Vec::as_slice", "AsRef::as_ref") and arg.args):
            arg = arg.args[0] if isinstance(arg, Call) else arg.x
        try:
            L = q.root_local(arg)
        except Exception:
            L = None
        if ctx.check(L is not None, rule, fn, "prefixes:list", "the prefix list handed to strip_prefixes is a local vector", detail=q.shape(arg)[:200]):
            from rules.common import mut_borrow_users
            users = sorted(set(c for _, c in mut_borrow_users(b, L)))
            ctx.check(all(c in ("Vec::push", "Vec::extend", "Extend::extend", "Vec::extend_from_slice", "Vec::reserve", "Vec::append") for c in users), rule, fn, "prefixes:order-as-given",
                      "the prefix list is only appended to (first matching prefix wins: sorting, deduplicating or otherwise reordering it changes which prefix a source loses)", detail=str(users))


def contents_predicates(ctx, rule):
    """The 'first-seen wins' guards rely on has_source_contents(id) <=> contents are present
    (not merely that a slot exists)."""
    h = ctx.body(B + "has_source_contents")
    calls = [q.shape(h.expr_of_call(t)) for bi, t in h.calls()]
    ok_has = calls == ["SourceMapBuilder::get_source_contents(arg1,arg2)", "Option::is_some(SourceMapBuilder::get_source_contents(arg1,arg2))"]
    if not ok_has and calls == ["arg1.source_contents", "slice::get(arg1.source_contents,cast<usize>(arg2))"]:
        # the same presence test on the slot itself: true exactly for Some(Some(_)) (decided over the four cases)
        SLOT = "slice::get(arg1.source_contents,cast<usize>(arg2))"
        res = {}
        for outer in (0, 1):
            for inner in (0, 1):
                res[(outer, inner)] = absint.eval_pred(h, {"discr(%s)" % SLOT: outer, "discr(try(%s))" % SLOT: inner})
        ok_has = res == {(0, 0): 0, (0, 1): 0, (1, 0): 0, (1, 1): 1}
    ctx.check(ok_has, rule, h.path, "has=is_some(get)",
              "has_source_contents(id) is exactly get_source_contents(id).is_some()", detail=str(calls))
    g = ctx.body(B + "get_source_contents")
    calls = [q.shape(g.expr_of_call(t)) for bi, t in g.calls()]
    rets = [sh for sh, _, _ in q.def_shapes(g, 0, {})]
    want = ["Option::and_then(slice::get(arg1.source_contents,cast<usize>(arg2)),fn:Option::as_ref)",
            "Option::and_then(slice::get(arg1.source_contents,cast<usize>(arg2)),fn:Option::as_ref)"]
    ctx.check(len(rets) == 1 and rets[0] in want, rule, g.path, "get:flatten-option",
              "get_source_contents(id) is Some only when the slot exists *and* holds contents (Option<Option<_>> flattened with and_then; an empty slot reads as no contents)", detail=str(rets))
    sg = ctx.body("types::SourceMap::get_source_contents")
    calls = [q.shape(sg.expr_of_call(t)) for bi, t in sg.calls()]
    FLAT_ = "Option::and_then(slice::get(arg1.sources_content,cast<usize>(arg2)),fn:Option::as_ref)"
    ok = any(c == FLAT_ for c in calls)
    if not ok and "SourceMap::get_source_view(arg1,arg2)" in calls:
        # through get_source_view, which does the flattening (with and_then, or with `?` on the slot)
        sv = ctx.body("types::SourceMap::get_source_view")
        ok = q.fold_question(sorted(sh for sh, _, _ in q.def_shapes(sv, 0, {}))) == [FLAT_]
    ctx.check(ok, rule, sg.path, "map:get_source_contents", "SourceMap::get_source_contents(id) likewise flattens a missing slot and an empty slot to None", detail=str(calls)[:300])


def builder_calls(ctx, rule):
    """Which builder methods rewrite / flatten may call: the maps they build must contain exactly
    what was re-inserted (no extra root, file, names or tokens injected on the side)."""
    allowed = {
        RWM: {"new", "set_debug_id", "add_token", "has_source_contents", "set_source_contents", "load_local_source_contents", "strip_prefixes", "take_mapping", "into_sourcemap"},
        FLAT: {"new", "add", "has_source_contents", "set_source_contents", "add_to_ignore_list", "into_sourcemap"},
    }
    for path, ok in allowed.items():
        b = ctx.body(path)
        got = sorted(set(q.nice(t.get("callee")).split("::")[-1] for bi, t in b.calls() if (t.get("callee") or "").startswith(B)))
        extra = [g for g in got if g not in ok]
        ctx.check(not extra, rule, path, "builder-calls", "only the re-insertion methods of the builder are used (a root set here would be applied on top of already joined names)", detail=str(extra))
        ctx.check("into_sourcemap" in got and ("add_token" in got or "add" in got), rule, path, "builder-calls:floor", "the builder is fed and finished")


def strip_prefixes(ctx, rule):
    b = ctx.body(B + "strip_prefixes")
    fn = b.path
    src = named(b, lambda s: s == "try(Iterator::next(var:IterMut<Arc<str>>))")
    pfx = [l for l in sorted(b.var_names) if b.locals[l]["mut"] and b.local_ty(l) == "alloc::string::String"]
    cow = [l for l in sorted(b.var_names) if b.local_ty(l).startswith("alloc::borrow::Cow<") and b.local_ty(l).endswith("str>") and len(b.defs.get(l, [])) == 2] if not pfx else []
    if not ctx.check(len(src) == 1 and (len(pfx) == 1 or len(cow) == 1), rule, fn, "roles", "source slot and normalised prefix are recognisable"):
        return
    roles = {src[0]: "source", (pfx or cow)[0]: "prefix"}
    sl = [(bi, q.shape(b.expr_of_call(t), roles)) for bi, t in q.calls_to(b, "Index::index")]
    spx = [(bi, q.shape(b.expr_of_call(t), roles)) for bi, t in q.calls_to(b, "str::<impl str>::strip_prefix")] if not sl else []
    if spx:
        # `if let Some(rest) = source.strip_prefix(prefix) { *source = rest.into(); break }`: test and cut in one call
        ok_sp = [s_ for _, s_ in spx] in (["str::strip_prefix(source,String::as_str(prefix))"], ["str::strip_prefix(source,prefix)"])
        uses = [(bi, q.shape(b.expr_of_call(t), roles)) for bi, t in b.calls() if q.shape(b.expr_of_call(t), roles) in ("try(%s)" % spx[0][1],) and q.nice(t.get("callee")) in ("Into::into", "From::from", "Arc::from")]
        ctx.check(ok_sp and len(uses) == 1, rule, fn, "slice", "the stripped name is what strip_prefix(prefix) leaves of the source", detail=str(spx) + str(uses))
        sl = [(bi, "strip_prefix") for bi, _ in uses]
        for bi, _ in sl:
            ctx.check(has_fact(b, bi, roles, *opt_fact("some", spx[0][1])), rule, fn, "slice:guard", "only when the source starts with that same prefix", ctx.site(b, bi))
    else:
        ctx.check(sorted(set(s for _, s in sl)) in (["source[RangeFrom{start:String::len(prefix)}]"], ["source[RangeFrom{start:str::len(prefix)}]"]), rule, fn, "slice", "the stripped name is source[prefix.len()..]", detail=str(sl))
        for bi, s in sl:
            ctx.check(has_fact(b, bi, roles, ("true", "str::starts_with(source,prefix)", None)), rule, fn, "slice:guard", "only when the source starts with that same prefix", ctx.site(b, bi))
    if pfx:
        pushes = [(bi, q.shape(b.expr_of_call(t), roles)) for bi, t in q.calls_to(b, "String::push")]
        ok = [s for _, s in pushes] == ["String::push(prefix,47)"] and all(has_fact(b, bi, roles, ("false", "str::ends_with(prefix,47)", None)) for bi, _ in pushes)
    else:
        # the same normalisation as a value: the prefix borrowed when it ends in '/', otherwise format!("{prefix}/")
        P = "try(Iterator::next(var:Iter<S>))"
        ds = {sh: site for sh, site, _ in q.def_shapes(b, cow[0], {})}
        owned = 'Cow::Owned{0:hint::must_use(fmt::format(Arguments::new(b"\\xc0\\x01/\\x00",array(Argument::new_display(%s)))))}' % P
        ok = set(ds) == {"Cow::Borrowed{0:%s}" % P, owned} and has_fact(b, ds["Cow::Borrowed{0:%s}" % P][0], {}, ("true", "str::ends_with(%s,47)" % P, None)) \
            and has_fact(b, ds[owned][0], {}, ("false", "str::ends_with(%s,47)" % P, None))
    ctx.check(ok, rule, fn, "slash", "a '/' is appended to the prefix exactly when it is missing")
    # break after first hit: from the assignment, the inner loop's next() is not reached before the outer next()
    inner = [bi for bi, t in q.calls_to(b, "Iterator::next") if "Iter<S>" in q.shape(q.arg_expr(b, t, 0))]
    outer = [bi for bi, t in q.calls_to(b, "Iterator::next") if "IterMut" in q.shape(q.arg_expr(b, t, 0))]
    ok = bool(sl) and bool(inner) and bool(outer) and not b.reaches(sl[0][0], inner[0], avoid=[outer[0]])
    # ... with the prefixes tried per source (sources outside, prefixes inside): the other nesting would test a source
    # that was already shortened against the later prefixes
    ok = ok and b.dominates(outer[0], inner[0]) and b.reaches(inner[0], outer[0]) and not b.dominates(inner[0], outer[0])
    ctx.check(ok, rule, fn, "break", "at most one prefix is stripped from a source (prefixes are tried per source, break after the first hit)")


def hermes_permutation(ctx, rule):
    b = ctx.body(HREW)
    fn = b.path
    mp = named(b, lambda s: s == "try(SourceMap::rewrite_with_mapping(arg1.sm,arg2)).1")
    fm = [l for l in sorted(b.var_names) if "Vec<core::option::Option<hermes::HermesFunctionMap>>" in b.local_ty(l) and b.locals[l]["mut"]]
    if not ctx.check(len(mp) == 1 and len(fm) >= 1, rule, fn, "roles", "the old-id mapping and the function maps are recognisable"):
        return
    roles = {mp[0]: "mapping"}
    shapes = [sh for l in fm for sh, site, _ in q.def_shapes(b, l, roles)]
    TAKE = "%s(Option::and_then(slice::get_mut(%%s,cast<usize>(p1)),fn:Option::take))" % LAM
    want = "Iterator::collect(Iterator::map(slice::iter(mapping),%s))" % (TAKE % "^var:Vec<Option<HermesFunctionMap>>")
    allcalls = [(bi, q.shape(b.expr_of_call(t), roles)) for bi, t in b.calls()]
    ok = want in shapes or any(sh == want for _, sh in allcalls)
    loop_sites = []
    if not ok:
        # the same written as loops: a fresh vector filled by one push per element of the mapping
        from rules.common import filled_by_loop
        ELEM = "Option::and_then(slice::get_mut(%s,cast<usize>(p1)),fn:Option::take)"
        for l in sorted(b.var_names):
            if "HermesFunctionMap" not in b.local_ty(l):
                continue
            fl = filled_by_loop(b, l, roles)
            if fl is not None and fl[0] == "mapping" and fl[1] == ELEM % "var:Vec<Option<HermesFunctionMap>>" and any(sh == "var:Vec<Option<HermesFunctionMap>>" for x in fm for sh, _, _ in q.def_shapes(b, x, roles)):
                ok = True
                loop_sites.append((fl[2], 0))
    ctx.check(ok, rule, fn, "function_maps:by-mapping", "function maps are rebuilt by mapping over the old-id mapping; each entry is looked up with the non-panicking get_mut at the old id and taken", detail=str(shapes)[:400])
    # the permutation must not be skipped when the lengths are equal (the common case: one entry
    # per source): the only guard allowed around it is mapping.len() <= function_maps.len()
    sites = [site for l in fm for sh, site, _ in q.def_shapes(b, l, roles) if sh == want] or [(bi, 0) for bi, sh in allcalls if sh == want] or loop_sites
    for site in sites:
        conds = [f for f in q.facts_at(b, site[0], {**roles, **{l: "fmaps" for l in fm}}) if f.op in ("Lt", "Le", "Eq", "Ne", "true", "false")]
        bad = [f for f in conds if f.key() not in (("Le", "Vec::len(mapping)", "Vec::len(fmaps)"),)]
        ctx.check(not bad, rule, fn, "remap:guard", "the remap is guarded at most by mapping.len() <= function_maps.len() (it also runs when the lengths are equal)", ctx.site(b, *site), detail=str(bad))
    MAPPING = "try(SourceMap::rewrite_with_mapping(arg1.sm,arg2)).1"
    raws = [sh for l in sorted(b.var_names) for sh, _, _ in q.def_shapes(b, l, {}) if "FacebookScopeMapping" in b.local_ty(l)]
    want_raw = "Option::map(var:Option<Vec<Option<Vec<FacebookScopeMapping>>>>,%s(Iterator::collect(Iterator::map(IntoIterator::into_iter(^%s),%s))))" % (LAM, MAPPING, TAKE % "^arg2")
    raws += [q.shape(b.expr_of_call(t)) for bi, t in b.calls()]
    want_raw2 = want_raw.replace("var:Option<Vec<Option<Vec<FacebookScopeMapping>>>>", "arg1.raw_facebook_sources")
    ok_raw = want_raw in raws or want_raw2 in raws
    if not ok_raw:
        from rules.common import filled_by_loop
        for l in sorted(b.var_names):
            if "FacebookScopeMapping" not in b.local_ty(l) or not b.local_ty(l).startswith("alloc::vec::Vec<"):
                continue
            fl = filled_by_loop(b, l, roles)
            if fl is not None and fl[0] == "mapping" and fl[1] == "Option::and_then(slice::get_mut(var:Vec<Option<Vec<FacebookScopeMapping>>>,cast<usize>(p1)),fn:Option::take)":
                # the taken-out sources are the old table, the result goes back into the field, and nothing but "was there a table" guards it
                olds = [sh for x in sorted(b.var_names) for sh, _, _ in q.def_shapes(b, x, {}) if sh in ("try(Option::take(var:Option<Vec<Option<Vec<FacebookScopeMapping>>>>))", "try(var:Option<Vec<Option<Vec<FacebookScopeMapping>>>>)", "try(arg1.raw_facebook_sources)")]
                ok_raw = bool(olds) and "Option::Some{0:var:Vec<Option<Vec<FacebookScopeMapping>>>}" in raws
    ctx.check(ok_raw, rule, fn, "raw_sources:by-mapping", "the raw x_facebook_sources are permuted by the same mapping, each entry looked up with the non-panicking get_mut at the old id", detail=str(raws)[:500])
    import pf
    bodies = [b] + [x for x in ctx.facts.closures_of(HREW)]
    pf.check_bodies(ctx, rule, bodies)


# ---------------------------------------------------------------------------------------------
# C13: cache coherence, hand-over
SM_T = "types::SourceMap"


def cache_coherence(ctx, rule):
    ws = {f: field_writers(ctx.facts, SM_T, f) for f in ("sources", "source_root", "sources_prefixed")}
    allowed = {
        "sources": {"types::SourceMap::new", "types::SourceMap::set_source"},
        "source_root": {"types::SourceMap::new", "types::SourceMap::set_source_root"},
        "sources_prefixed": {"types::SourceMap::new", "types::SourceMap::set_source_root", "types::SourceMap::set_source"},
    }
    for f, w in ws.items():
        got = set(p for p, (b, k) in w.items() if not b.derived)
        ctx.check(got == allowed[f], rule, SM_T, "writers:%s" % f, "the writers of SourceMap.%s are exactly %s" % (f, sorted(allowed[f])), detail=str(sorted(got)))
    # set_source_root: both arms write the cache after the root was stored
    b = ctx.body("types::SourceMap::set_source_root")
    root_w = [(bi, si) for bi, si, s, it in b.locations() if not it and s["k"] == "assign" and _is_field(s["place"], "source_root")]
    cache_w = [(bi, si, q.shape(b.expr_of_rvalue(s["rv"]))) for bi, si, s, it in b.locations() if not it and s["k"] == "assign" and _is_field(s["place"], "sources_prefixed")]
    shapes = sorted(s for _, _, s in cache_w)
    ROOT = "Option::filter(Option::as_ref(arg1.source_root),%s(Not(str::is_empty(p1))))" % LAM
    ok = len(shapes) == 2 and shapes[0] == "Option::None{}" and shapes[1] == "Option::Some{0:Iterator::collect(Iterator::map(slice::iter(arg1.sources),%s(SourceMap::prefix_source(^try(%s),p1))))}" % (LAM, ROOT)
    comb = "Option::map(%s,%s(Iterator::collect(Iterator::map(slice::iter(arg1.sources),%s(SourceMap::prefix_source(arg2,p1))))))" % (ROOT, LAM, LAM)
    single = [x.replace("^", "") for x in shapes] == [comb]  # self.sources_prefixed = root.filter(..).map(|root| sources.iter().map(|s| prefix_source(root, s)).collect())
    ok = ok or single
    ctx.check(ok, rule, b.path, "cache:rebuilt-from-all-sources", "the cache is rebuilt from *all* sources when the root is non-empty and cleared otherwise", detail=str(shapes))
    if root_w:
        ctx.check(must_pass(b, root_w[0][0], [bi for bi, _, _ in cache_w]) , rule, b.path, "cache:every-path", "after the root changes every path updates the cache")
    for bi, si, s in cache_w:
        if s.startswith("Option::Some"):
            ctx.check(has_fact(b, bi, {}, *opt_fact("some", ROOT)), rule, b.path, "cache:some-when-nonempty",
                      "the cache is filled exactly when the (filtered) root is present; an empty root counts as no root", ctx.site(b, bi, si))
    # set_source patches the cache entry with the current root
    s = ctx.body("types::SourceMap::set_source")
    calls = [q.shape(s.expr_of_call(t)) for bi, t in s.calls()]
    ok1 = "arg1.sources[cast<usize>(arg2)]" in calls
    ok2 = "try(Option::as_mut(arg1.sources_prefixed))[cast<usize>(arg2)]" in calls
    ok3 = "SourceMap::prefix_source(Option::unwrap(Option::as_ref(arg1.source_root)),arg3)" in calls
    raw_w = [bi for bi, t in s.calls() if q.nice(t.get("callee")) == "IndexMut::index_mut" and q.shape(s.expr_of_call(t)) == "arg1.sources[cast<usize>(arg2)]"]
    ctx.check(len(raw_w) == 1 and all(s.dominates(raw_w[0], r) for r in s.return_blocks()), rule, s.path, "set_source:unconditional",
              "set_source always stores the raw name (no early return, e.g. for a value that merely looks unchanged through the root-joined view)")
    patch_w = [bi for bi, t in s.calls() if q.nice(t.get("callee")) == "IndexMut::index_mut" and "sources_prefixed" in q.shape(s.expr_of_call(t))]
    for pw in patch_w:
        conds = [f.key() for f in q.facts_at(s, pw, {}) if f.op in ("Lt", "Le", "Eq", "Ne", "true", "false")]
        ctx.check(not conds, rule, s.path, "set_source:patch-whenever-cached", "the cache entry is patched whenever a cache exists (no further condition)", detail=str(conds))
    ctx.check(ok1 and ok2 and ok3, rule, s.path, "set_source:patch", "set_source stores the raw name and patches the same index of the cache with prefix_source(current root, value)", detail=str(calls)[:400])
    g = ctx.body("types::SourceMap::get_source")
    calls = [q.shape(g.expr_of_call(t)) for bi, t in g.calls()]
    ctx.check("slice::get(Option::unwrap_or(Option::as_ref(arg1.sources_prefixed),arg1.sources),cast<usize>(arg2))" in calls, rule, g.path, "get_source:reads-cache",
              "get_source reads the cache when present and the raw names otherwise", detail=str(calls)[:300])
    n = ctx.body("types::SourceMap::new")
    lit = [n.expr_of_rvalue(s2["rv"]) for bi, si, s2, it in n.locations() if not it and s2["k"] == "assign" and s2["rv"]["k"] == "agg" and s2["rv"].get("adt") == SM_T]
    ok = len(lit) == 1 and q.shape(lit[0].field("source_root")) == "Option::None{}" and q.shape(lit[0].field("sources_prefixed")) == "Option::None{}"
    ctx.check(ok, rule, n.path, "new:no-root-no-cache", "a new map has no root and no cache")


def _is_field(pl, name):
    return bool(pl["p"]) and pl["p"][-1].get("k") == "field" and pl["p"][-1].get("n") == name


def prefix_source(ctx, rule):
    """C02.R6: the absolute test and the join, decided over all 16 combinations of the four
    string predicates."""
    b = ctx.body("types::SourceMap::prefix_source")
    fn = b.path
    preds = {"empty": "str::is_empty(arg2)", "slash": "str::starts_with(arg2,47)", "http": "str::starts_with(arg2,'http:')", "https": "str::starts_with(arg2,'https:')"}
    seen = set()
    for bi, t in b.calls():
        if q.nice(t.get("callee")) in ("str::starts_with", "str::is_empty", "str::ends_with", "str::contains"):
            seen.add(q.shape(b.expr_of_call(t)))
    ctx.check(all(p in seen for p in preds.values()), rule, fn, "predicates", "the absolute test consults exactly is_empty, '/', 'http:' and 'https:'", detail=str(sorted(seen)))
    extra = [s for s in seen if s.startswith("str::starts_with(") and s not in preds.values()]
    ctx.check(not extra, rule, fn, "predicates:no-extra", "no other prefix is treated as absolute", detail=str(extra))
    # result blocks: Into::into(arg2) (unchanged) vs format!
    keep = [bi for bi, t in b.calls() if q.shape(b.expr_of_call(t)) == "arg2" and t["dest"]["l"] == 0 or (q.nice(t.get("callee")) in ("Into::into", "From::from") and len(t["args"]) == 1 and q.shape(q.arg_expr(b, t, 0)) == "arg2")]
    join = [bi for bi, t in b.calls() if q.nice(t.get("callee")) in ("fmt::format",)]
    pushed = None
    if not join:
        # the join spelled as appends to one fresh String: push_str(root'), push('/'), push_str(name)
        ROOT = ("Option::unwrap_or(str::strip_suffix(arg1,47),arg1)", "Option::unwrap_or(str::strip_suffix(arg1,'/'),arg1)")
        for l in sorted(b.var_names):
            if b.local_ty(l) != "alloc::string::String" or not b.locals[l]["mut"]:
                continue
            ds = [sh for sh, _, _ in q.def_shapes(b, l, {})]
            if len(ds) != 1 or not (ds[0] == "String::new()" or ds[0].startswith("String::with_capacity(")):
                continue
            apps = [(bi, q.nice(t.get("callee")), q.shape(q.arg_expr(b, t, 1))) for bi, t in b.calls()
                    if q.nice(t.get("callee")) in ("String::push_str", "String::push") and q.root_local(q.arg_expr(b, t, 0)) == l]
            apps.sort(key=lambda a: len(b.dominators_of(a[0])))
            if [a[1] for a in apps] == ["String::push_str", "String::push", "String::push_str"] and apps[0][2] in ROOT and apps[1][2] == "47" and apps[2][2] == "arg2" \
                    and b.dominates(apps[0][0], apps[1][0]) and b.dominates(apps[1][0], apps[2][0]):
                join = [apps[2][0]]
                pushed = apps
    if not ctx.check(len(keep) == 1 and len(join) == 1, rule, fn, "results", "the function returns the name unchanged or the joined name"):
        return
    bad = []
    n = 0
    for e in (0, 1):
        for s in (0, 1):
            for h in (0, 1):
                for hs in (0, 1):
                    env = {preds["empty"]: e, preds["slash"]: s, preds["http"]: h, preds["https"]: hs}
                    r = absint.reach(b, 0, env)
                    want_keep = (not e) and (s or h or hs)
                    got_keep, got_join = keep[0] in r, join[0] in r
                    n += 1
                    if got_keep == got_join or bool(got_keep) != bool(want_keep):
                        bad.append((e, s, h, hs))
    ctx.check(not bad, rule, fn, "truth-table", "the name is kept unchanged exactly when it is non-empty and starts with '/', 'http:' or 'https:' (all 16 predicate combinations)", detail=str(bad))
    ctx.count("prefix_source_combinations", n)
    calls = [q.shape(b.expr_of_call(t)) for bi, t in b.calls()]
    ctx.check("Option::unwrap_or(str::strip_suffix(arg1,47),arg1)" in calls or "Option::unwrap_or(str::strip_suffix(arg1,'/'),arg1)" in calls, rule, fn, "root:one-slash",
              "exactly one trailing '/' is removed from the root before joining", detail=str([c for c in calls if "strip" in c]))
    fmt = [c for c in calls if c.startswith("Arguments::new(")]
    ctx.check(pushed is not None or len(fmt) == 1 and "\\x01/" in fmt[0] or (len(fmt) == 1 and "/" in fmt[0]), rule, fn, "join:slash", "root and name are joined with one '/'", detail=str(fmt)[:200])


def into_sourcemap(ctx, rule):
    b = ctx.body(B + "into_sourcemap")
    fn = b.path
    sm = typed_vars(b, "types::SourceMap")
    cs = named(b, lambda s: s in ("Option::None{}", "Option::Some{0:arg1.source_contents}"))
    if not ctx.check(len(sm) == 1 and len(cs) == 1, rule, fn, "roles", "the map under construction and the contents argument are recognisable"):
        return
    roles = {sm[0]: "sm", cs[0]: "contents"}
    news = [q.shape(b.expr_of_call(t), roles) for bi, t in q.calls_to(b, "types::SourceMap::new")]
    ctx.check(news == ["SourceMap::new(arg1.file,arg1.tokens,arg1.names,arg1.sources,contents)"], rule, fn, "new", "file, tokens, names, raw sources and contents are handed over positionally", detail=str(news))
    found = expect_defs(ctx, rule, b, cs[0], roles, {"Option::None{}": "none", "Option::Some{0:arg1.source_contents}": "some"}, ["none", "some"], "contents argument")
    for site in found.get("none", []):
        ctx.check(has_fact(b, site[0], roles, ("true", "Vec::is_empty(arg1.source_contents)", None)), rule, fn, "contents:none-when-empty", "no contents vector is passed exactly when none was set", ctx.site(b, *site))
    rets = b.return_blocks()
    for nm, want in (("set_source_root", "SourceMap::set_source_root(sm,arg1.source_root)"), ("set_debug_id", "SourceMap::set_debug_id(sm,arg1.debug_id)")):
        calls = [(bi, q.shape(b.expr_of_call(t), roles)) for bi, t in q.calls_to(b, "types::SourceMap::" + nm)]
        ok = len(calls) == 1 and calls[0][1] == want and all(b.dominates(calls[0][0], r) for r in rets)
        ctx.check(ok, rule, fn, nm, "%s is applied on every path" % want, detail=str(calls))
    ig = [(bi, q.shape(b.expr_of_call(t), roles)) for bi, t in q.calls_to(b, "types::SourceMap::add_to_ignore_list")]
    it = named(b, lambda s: s == "IntoIterator::into_iter(arg1.ignore_list)")
    ok = len(ig) == 1 and ig[0][1] == "SourceMap::add_to_ignore_list(sm,try(Iterator::next(var:IntoIter<u32>)))" and len(it) == 1
    if not ok and not ig:
        # the same as one bulk insertion on every path: sm.ignore_list.extend(self.ignore_list)
        ex = [(bi, q.shape(b.expr_of_call(t), roles)) for bi, t in q.calls_to(b, "Extend::extend")]
        ok = len(ex) == 1 and ex[0][1] == "Extend::extend(sm.ignore_list,arg1.ignore_list)" and all(b.dominates(ex[0][0], r) for r in rets)
        ig = ex
    ctx.check(ok, rule, fn, "ignore_list", "every element of the builder's ignore list is added to the map", detail=str(ig))


def map_new(ctx, rule):
    """SourceMap::new stores what it is given: every argument reaches its field whole (the contents table entry by
    entry, each text wrapped in a view), nothing is filtered, truncated or dropped on a side condition."""
    b = ctx.body("types::SourceMap::new")
    lit = [b.expr_of_rvalue(s2["rv"]) for bi, si, s2, it in b.locations() if not it and s2["k"] == "assign" and s2["rv"]["k"] == "agg" and s2["rv"].get("adt") == SM_T]
    if not ctx.check(len(lit) == 1, rule, b.path, "literal", "SourceMap::new builds the map at one place"):
        return
    want = {"file": ["arg1"], "tokens": ["arg2"], "names": ["arg3"], "sources": ["arg4"],
            "sources_content": ["Iterator::collect(Iterator::map(IntoIterator::into_iter(Option::unwrap_or_default(arg5)),\u03bb(Option::map(p1,fn:SourceView::new))))",
                                "Iterator::collect(Iterator::map(IntoIterator::into_iter(Option::unwrap_or_default(arg5)),\u03bb(Option::map(p1,\u03bb(SourceView::new(p1))))))",
                                # the same with the missing list spelled out: `match c { Some(v) => v.into_iter().map(..).collect(), None => Vec::new() }`
                                "Option::map_or(arg5,Vec::new(),\u03bb(Iterator::collect(Iterator::map(IntoIterator::into_iter(p1),\u03bb(Option::map(p1,fn:SourceView::new))))))"]}
    for fld, alts in want.items():
        sh = q.shape(lit[0].field(fld))
        ctx.check(sh in alts, rule, b.path, "stores:%s" % fld, "the %s argument is stored whole" % fld, detail=sh[:200])
    # the arguments are not re-bound on the way (shadowed by a filtered copy)
    for l in sorted(b.var_names):
        if l > b.arg_count and b.var_names[l] in ("sources_content", "sources", "names", "file"):
            ctx.bad(rule, b.path, "rebound:%s" % b.var_names[l], "the %s argument is not replaced by a derived value before it is stored" % b.var_names[l])


def builder_new(ctx, rule):
    """A new builder records the file name it is given, unfiltered, and starts with empty tables."""
    import re as _re
    b = ctx.body(B + "new")
    lit = [b.expr_of_rvalue(s2["rv"]) for bi, si, s2, it in b.locations() if not it and s2["k"] == "assign" and s2["rv"]["k"] == "agg" and s2["rv"].get("adt") == "builder::SourceMapBuilder"]
    if not ctx.check(len(lit) == 1, rule, b.path, "literal", "SourceMapBuilder::new builds the builder at one place"):
        return
    sh = q.shape(lit[0].field("file"))
    ok = bool(_re.match(r"^Option::map\(arg1,(fn:(Into::into|From::from)|\u03bb\((from<[^()]*>\(p1\)|Into::into\(p1\)|From::from\(p1\)|p1)\))\)$", sh)) or sh == "arg1"
    ctx.check(ok, rule, b.path, "file", "the file name is stored as given (also the empty string), only converted", detail=sh)
    for fld, op in zip(lit[0].fields, lit[0].ops):
        if fld == "file":
            continue
        fs = q.shape(op)
        ctx.check("arg" not in fs and "var:" not in fs, rule, b.path, "empty:%s" % fld, "every table of a new builder starts empty (field %s)" % fld, detail=fs)


def local_contents_only_when_missing(ctx, rule):
    """load_local_source_contents reads a file only for a source that has no contents yet: embedded contents are
    never replaced by what happens to be on disk."""
    p = B + "load_local_source_contents"
    b = ctx.facts.body(p, required=False)
    if b is None:
        ctx.remark("load_local_source_contents is not compiled for this target")
        return
    pushes = [(bi, q.shape(b.expr_of_call(t))) for bi, t in q.calls_to(b, "Vec::<T, A>::push") if "u32" in q.shape(q.arg_expr(b, t, 0))]
    sets = [(bi, q.shape(b.expr_of_call(t))) for bi, t in q.calls_to(b, B + "set_source_contents")]
    ok = len(sets) == 1 and q.wild("SourceMapBuilder::set_source_contents(arg1,try(Iterator::next(var:IntoIter<(u32, PathBuf)>)).0,*)", sets[0][1])
    ctx.check(ok, rule, p, "set:from-list", "contents are set exactly for the (id, path) pairs collected before", detail=str(sets)[:300])
    ok = len(pushes) == 1
    if ok:
        m = __import__("re").match(r"^Vec::push\(var:Vec<\(u32, PathBuf\)>,tuple\((.*?),try\(builder::resolve_local_reference\(", pushes[0][1])
        ok = bool(m) and has_fact(b, pushes[0][0], {}, ("false", "SourceMapBuilder::has_source_contents(arg1,%s)" % m.group(1), None))
    if not ok and not pushes:
        # the same as an iterator chain: source_map.iter().filter(|(_, id)| !has_source_contents(id)).filter_map(resolve ..).collect()
        lists = [sh for l in sorted(b.var_names) for sh, _, _ in q.def_shapes(b, l, {}) if sh.startswith("Iterator::collect(") and "resolve_local_reference" in sh]
        ok = len(lists) == 1 and q.wild("Iterator::collect(Iterator::filter_map(Iterator::filter(HashMap::iter(arg1.source_map),\u03bb(Not(SourceMapBuilder::has_source_contents(^arg1,p1.1)))),"
                                        "\u03bb(Option::map(builder::resolve_local_reference(*,p1.0),\u03bb(tuple(^arg2.1,p1))))))", lists[0])
        pushes = lists
    ctx.check(ok, rule, p, "collect:only-without-contents", "a source is queued for loading only when has_source_contents(id) is false", detail=str(pushes)[:300])


def rewrite_delegates(ctx, rule):
    """The public rewrite is rewrite_with_mapping on every path (no shortcut that returns the map unrewritten)."""
    b = ctx.body("types::SourceMap::rewrite")
    C = "SourceMap::rewrite_with_mapping(arg1,arg2)"
    rets = sorted(sh for sh, _, _ in q.def_shapes(b, 0, {}))
    ok = rets in (sorted(["Result::Ok{0:try(%s).0}" % C, "FromResidual::from_residual(break(Try::branch(%s)))" % C]), ["Result::map(%s,\u03bb(p1.0))" % C])
    ctx.check(ok, rule, b.path, "delegates", "rewrite returns the first component of rewrite_with_mapping (or its error) on every path", detail=str(rets)[:300])


def plain_setters(ctx, rule):
    """Setters of the builder and of the map store their argument unconditionally."""
    want = {
        B + "add_to_ignore_list": ("call", "BTreeSet::insert(arg1.ignore_list,arg2)"),
        "types::SourceMap::add_to_ignore_list": ("call", "BTreeSet::insert(arg1.ignore_list,arg2)"),
        B + "set_debug_id": ("store", "debug_id", "arg2"),
        "types::SourceMap::set_debug_id": ("store", "debug_id", "arg2"),
        B + "set_source_root": ("store", "source_root", "arg2"),
        B + "set_file": ("store", "file", "arg2"),
        "types::SourceMap::set_file": ("store", "file", "arg2"),
    }
    for path, spec in want.items():
        b = ctx.body(path)
        rets = b.return_blocks()
        if spec[0] == "call":
            sites = [bi for bi, t in b.calls() if q.shape(b.expr_of_call(t)) == spec[1]]
        else:
            sites = [bi for bi, si, s, it in b.locations() if not it and s["k"] == "assign" and _is_field(s["place"], spec[1]) and q.shape(b.expr_of_rvalue(s["rv"])) == spec[2]]
        ok = len(sites) == 1 and all(b.dominates(sites[0], r) for r in rets)
        ctx.check(ok, rule, path, "unconditional", "%s records its argument on every path (no filtering, no condition)" % path.split("::")[-1], detail=str(sites))


def contents_resize(ctx, rule):
    for fn, vec in ((B + "set_source_contents", "source_contents"), ("types::SourceMap::set_source_contents", "sources_content")):
        b = ctx.body(fn)
        rz = [(bi, q.shape(b.expr_of_call(t))) for bi, t in q.calls_to(b, "Vec::<T, A>::resize")]
        ok = len(rz) == 1 and rz[0][1] == "Vec::resize(arg1.%s,Vec::len(arg1.sources),Option::None{})" % vec
        ctx.check(ok, rule, fn, "resize", "the contents vector is grown to sources.len()", detail=str(rz))
        ix = [bi for bi, t in b.calls() if q.nice(t.get("callee")) == "IndexMut::index_mut" and q.shape(b.expr_of_call(t)) == "arg1.%s[cast<usize>(arg2)]" % vec]
        if ctx.check(len(ix) == 1 and len(rz) == 1, rule, fn, "indexed-write", "the entry is written by index"):
            C, S = "Vec::len(arg1.%s)" % vec, "Vec::len(arg1.sources)"
            # the resize runs at least whenever the vector is shorter than sources (<, <= and != all do)
            guards = [f.key() for f in q.facts_at(b, rz[0][0], {}) if f.op in ("Lt", "Le", "Eq", "Ne", "true", "false") and ("arg1.%s" % vec in str(f.key()) or "arg1.sources" in str(f.key()))]
            ok = guards in ([], [("Lt", C, S)], [("Le", C, S)], [("Ne", C, S)], [("Ne", S, C)]) and b.reaches(rz[0][0], ix[0])
            # ... and every path to the write passed the comparison (or the unconditional resize)
            sw = [c.bb for c in q.path_conditions(b, rz[0][0])][-1:] or [rz[0][0]]
            ok = ok and b.dominates(sw[0], ix[0])
            ctx.check(ok, rule, fn, "resize-before-write", "the length comparison and (when shorter) the resize happen before the indexed write on every path", detail=str(guards))
            # the entry is overwritten on every call - also with None, which clears it
            dest = [t["dest"]["l"] for bi, t in b.calls() if bi == ix[0]][0]
            aliases = {dest}
            for l, ds in b.defs.items():
                if len(ds) == 1 and ds[0][2] == "assign" and ds[0][3]["rv"]["k"] == "use" and ds[0][3]["rv"]["op"]["k"] in ("move", "copy") and ds[0][3]["rv"]["op"]["place"]["l"] == dest and not ds[0][3]["rv"]["op"]["place"]["p"]:
                    aliases.add(l)
            wr = [(bi, q.shape(b.expr_of_rvalue(s["rv"]))) for bi, si, s, it in b.locations() if not it and s["k"] == "assign" and s["place"]["p"] and s["place"]["p"][0]["k"] == "deref" and s["place"]["l"] in aliases]
            rets = b.return_blocks()
            ok = len(wr) == 1 and all(b.dominates(ix[0], r) and b.dominates(wr[0][0], r) for r in rets) and (wr[0][1] == "arg3" or wr[0][1].startswith("Option::map(arg3,") or wr[0][1].startswith("Option::map_or(arg3,Option::None") or wr[0][1].startswith("Option::and_then(arg3,"))
            ctx.check(ok, rule, fn, "write-unconditional", "the entry is overwritten with the converted argument on every call (None clears it)", detail=str(wr))


# ---------------------------------------------------------------------------------------------
# C08
def flatten_roles(b):
    roles = {}
    for l in named(b, lambda s: s == "try(TokenIter::next(var:TokenIter))"):
        roles[l] = "token"
    for l in typed_vars(b, "builder::SourceMapBuilder"):
        roles[l] = "builder"
    for l in named(b, lambda s: s.startswith("SourceMapBuilder::add(")):
        roles[l] = "raw"
    for l in named(b, lambda s: s == "try(SourceMapSectionIter::next(var:SourceMapSectionIter))"):
        roles[l] = "section"
    for l in sorted(b.var_names):
        if "Cow<" in b.local_ty(l) and "SourceMap" in b.local_ty(l):
            roles[l] = "map"
    for l in named(b, lambda s: s == "try(SourceMapSectionIter::next(var:SourceMapSectionIter)).offset.0"):
        roles[l] = "off_line"
    for l in named(b, lambda s: s == "try(SourceMapSectionIter::next(var:SourceMapSectionIter)).offset.1"):
        roles[l] = "off_col"
    return roles


def flatten_translation(ctx, rule):
    """C08.R2/R3/R4."""
    b = ctx.body(FLAT)
    fn = b.path
    roles = flatten_roles(b)
    need = {"token", "builder", "raw", "section", "map", "off_line", "off_col"}
    if not ctx.check(need <= set(roles.values()), rule, fn, "roles", "the loop variables of flatten are recognisable", detail=str(sorted(roles.values()))):
        return
    adds = q.calls_to(b, B + "add")
    if not ctx.check(len(adds) == 1, rule, fn, "add:one", "each token is re-inserted with one builder.add call"):
        return
    ab, at = adds[0]
    tok_l = [l for l, n in roles.items() if n == "token"][0]
    t_entry = b.defs[tok_l][0][0]
    t_heads = [bi for bi, t in b.calls() if q.nice(t.get("resolved") or t.get("callee")) in ("TokenIter::next",) or q.shape(b.expr_of_call(t), {}) == "TokenIter::next(var:TokenIter)"]
    ctx.check(bool(t_heads) and loop_passes(b, t_entry, t_heads[0], [ab]), rule, fn, "add:no-skip", "no token of a section is skipped (every iteration re-inserts its token or fails)")
    args = [b.expr_of_operand(a) for a in at["args"]]
    r = dict(roles)

    def alternatives(expr):
        """[(shape, (bb, idx))]: the expression itself, or each definition if it is a multiply
        assigned local (if/else value)."""
        x = q.tuple_component(expr)
        while isinstance(x, Named):
            x = x.x
        if isinstance(x, Var) and not x.is_arg and x.local not in r:
            return [(sh, site) for sh, site, _ in q.def_shapes(b, x.local, r)]
        return [(q.shape(expr, r), (ab, len(b.blocks[ab]["stmts"])))]

    rest = [q.shape(x, r) for x in args[3:]]
    want_rest = ["token.raw.src_line", "Token::get_src_col(token)", "Token::get_source(token)", "Token::get_name(token)", "token.raw.is_range"]
    ctx.check(q.shape(args[0], r) == "builder" and rest == want_rest, rule, fn, "add:positional",
              "original line/column, source name, name and range flag are forwarded in order (nothing swapped)", detail=str(rest))
    ck = lambda a, o: ["try(Option::ok_or_else(u32::checked_add(%s,%s),*))" % (a, o), "try(Option::ok_or(u32::checked_add(%s,%s),*))" % (a, o), "try(u32::checked_add(%s,%s))" % (a, o),
                       "Add(%s,%s)" % tuple(sorted([a, o])), "u32::saturating_add(%s,%s)" % (a, o)]
    ds = alternatives(args[1])
    ok = len(ds) == 1 and any(q.wild(p, ds[0][0]) for p in ck("token.raw.dst_line", "off_line"))
    ctx.check(ok, rule, fn, "line:shift", "every token moves down by the section's line offset", detail=str([d[0] for d in ds])[:300])
    found = {}
    for sh_, site in alternatives(args[2]):
        if any(q.wild(p, sh_) for p in ck("token.raw.dst_col", "off_col")):
            found.setdefault("shifted", []).append(site)
        elif sh_ == "token.raw.dst_col":
            found.setdefault("plain", []).append(site)
        else:
            ctx.bad(rule, fn, "col:def:%s" % sh_[:60], "the generated column is either the token's column or the column plus the section's column offset", ctx.site(b, *site))
    ctx.check("shifted" in found and "plain" in found, rule, fn, "col:both-arms", "both the shifted and the unshifted column occur")
    for site in found.get("shifted", []):
        ctx.check(has_fact(b, site[0], r, ("Eq", "0", "token.raw.dst_line")), rule, fn, "col:first-line-only", "the column offset is applied on the section's first line only", ctx.site(b, *site))
    for site in found.get("plain", []):
        ctx.check(has_fact(b, site[0], r, ("Ne", "0", "token.raw.dst_line")), rule, fn, "col:later-lines-unshifted", "later lines keep their column", ctx.site(b, *site))
    # R3 ids
    sets = [(bi, q.shape(b.expr_of_call(t), r)) for bi, t in q.calls_to(b, B + "set_source_contents")]
    want = "SourceMapBuilder::set_source_contents(builder,raw.src_id,SourceMap::get_source_contents(map,token.raw.src_id))"
    ctx.check([s for _, s in sets] == [want], rule, fn, "contents:new-id/old-id", "contents go to the new id and are read by the old id from the section's map", detail=str(sets))
    for bi, s in sets:
        ctx.check(has_fact(b, bi, r, ("true", "Option::is_some(Token::get_source(token))", None)), rule, fn, "contents:has-source", "only for tokens with a source (so the new id is not the tombstone)", ctx.site(b, bi))
        ctx.check(has_fact(b, bi, r, ("false", "SourceMapBuilder::has_source_contents(builder,raw.src_id)", None)), rule, fn, "contents:first-seen", "first-seen contents win", ctx.site(b, bi))
    ig = [(bi, q.shape(b.expr_of_call(t), r)) for bi, t in q.calls_to(b, B + "add_to_ignore_list")]
    ctx.check([s for _, s in ig] == ["SourceMapBuilder::add_to_ignore_list(builder,raw.src_id)"], rule, fn, "ignore:new-id", "ignore-list membership is recorded under the new id", detail=str(ig))
    for bi, s in ig:
        ctx.check(has_fact(b, bi, r, ("true", "BTreeSet::contains(map.ignore_list,token.raw.src_id)", None)), rule, fn, "ignore:old-id", "membership is tested with the old id on the section's map", ctx.site(b, bi))
    # the two carry-overs are independent: neither is nested under the other's conditions
    def bool_facts(bb):
        return sorted(set((f.op, str(f.l)) for f in q.facts_at(b, bb, r) if f.op in ("true", "false")))
    for bi, s_ in ig:
        # (a "the list is not empty" pre-test is implied by membership and changes nothing)
        extra = [f for f in bool_facts(bi) if f not in (("true", "BTreeSet::contains(map.ignore_list,token.raw.src_id)"), ("false", "BTreeSet::is_empty(map.ignore_list)"))]
        ctx.check(not extra, rule, fn, "ignore:independent", "ignore-list membership is carried over for every token of an ignored source, independently of the contents handling", ctx.site(b, bi), detail=str(extra))
    for bi, s_ in sets:
        extra = [f for f in bool_facts(bi) if f not in (("true", "Option::is_some(Token::get_source(token))"), ("false", "SourceMapBuilder::has_source_contents(builder,raw.src_id)"))]
        ctx.check(not extra, rule, fn, "contents:independent", "contents are carried over under exactly the two documented conditions", ctx.site(b, bi), detail=str(extra))
    # R4 arms
    ms = [s for s, _, _ in q.def_shapes(b, [l for l, n in r.items() if n == "map"][0], r)]
    GS = "try(SourceMapSection::get_sourcemap(section))"
    want = sorted(["Cow::Borrowed{0:regular(%s)}" % GS, "Cow::Borrowed{0:hermes(%s).sm}" % GS, "Cow::Owned{0:try(SourceMapIndex::flatten(index(%s)))}" % GS])
    ctx.check(sorted(ms) == want, rule, fn, "arms", "regular sections are borrowed, nested indexes flattened recursively (error propagated), Hermes sections use their inner map", detail=str(ms))
    errs = [bi for bi, si in q.err_variant_constructions(b, "CannotFlatten")]
    ok = any(has_fact(b, bi, r, *opt_fact("none", "SourceMapSection::get_sourcemap(section)")) for bi in errs)
    if not ok:
        # `section.get_sourcemap().ok_or_else(|| Error::CannotFlatten(..))?`: the same error, built by the closure
        res = [e_ for sh, _, e_ in q.def_shapes(b, 0, r) if sh.startswith("FromResidual::from_residual(break(Try::branch(Option::ok_or_else(SourceMapSection::get_sourcemap(section),")]
        for e_ in res:
            cb = q.callable_body(e_)
            ok = ok or (cb is not None and bool(q.err_variant_constructions(cb, "CannotFlatten")))
        ok = ok or any(sh.startswith("FromResidual::from_residual(break(Try::branch(Option::ok_or(SourceMapSection::get_sourcemap(section),") and "CannotFlatten" in sh for sh, _, _ in q.def_shapes(b, 0, r))
    ctx.check(ok, rule, fn, "unresolved:error", "a section without an embedded map makes flatten fail with CannotFlatten")
    # ... every one of them: no path on which the section is known to have no map leads on to the next section
    heads = [bi for bi, t in q.calls_to(b, "Iterator::next") if "SourceMapIndex::sections(arg1)" in q.shape(b.expr_of_call(t), r) or "SourceMapSectionIter" in q.shape(b.expr_of_call(t), r)]
    skipping = []
    if heads:
        for bb in b.reachable_blocks():
            if b.blocks[bb]["cleanup"] or bb in heads or not any(b.reaches(bb, h) for h in heads):
                continue
            if has_fact(b, bb, r, *opt_fact("none", "SourceMapSection::get_sourcemap(section)")):
                skipping.append(ctx.site(b, bb))
    # (whatever the spelling of the test: every iteration of the section loop goes on to that section's tokens or fails)
    tok_loops = [bi for bi, t in b.calls() if q.shape(b.expr_of_call(t), r) == "IntoIterator::into_iter(SourceMap::tokens(map))"]
    if heads and tok_loops:
        hb = b.blocks[heads[0]]["term"].get("t")
        arms = [tb for v, tb in b.blocks[hb]["term"].get("arms", []) if v == 1] if hb is not None and b.blocks[hb]["term"]["k"] == "switch" else []
        if arms and not loop_passes(b, arms[0], heads[0], tok_loops):
            skipping.append("a path through the section loop that reaches the next section without visiting the tokens")
    ctx.check(bool(heads) and not skipping, rule, fn, "unresolved:no-skip", "no unresolved section is skipped: once a section is known to have no embedded map, flatten does not go on to the next section", detail=str(skipping[:3]))
    it = named(b, lambda s: s == "IntoIterator::into_iter(SourceMapIndex::sections(arg1))")
    it2 = [s for l in sorted(b.var_names) for s, _, _ in q.def_shapes(b, l, r) if s == "IntoIterator::into_iter(SourceMap::tokens(map))"]
    ctx.check(len(it) == 1 and len(it2) == 1, rule, fn, "loops", "all sections and, per section, all tokens are visited")
    news = [q.shape(b.expr_of_call(t), r) for bi, t in q.calls_to(b, B + "new")]
    ctx.check(news == ["SourceMapBuilder::new(SourceMapIndex::get_file(arg1))"], rule, fn, "file", "the flattened map keeps the index's file name")


def index_lookup(ctx, rule):
    """C08.R1."""
    b = ctx.body(ILOOKUP)
    fn = b.path
    dm = ctx.body("types::DecodedMap::lookup_token")
    fw = sorted(sh for sh, _, _ in q.def_shapes(dm, 0, {}))
    ctx.check(len(fw) == 3 and all(q.wild("*::lookup_token(*,arg2,arg3)", sh) for sh in fw), rule, dm.path, "dispatch:same-query",
              "a section's map of any kind (regular, index, Hermes) is asked for the very (line, column) it was given", detail=str(fw))
    GLBS = "try(utils::greatest_lower_bound(arg1.sections,tuple(arg2,arg3),\u03bb(p1.offset)))"
    sec = named(b, lambda s: s == GLBS + ".1")
    mp = named(b, lambda s: s.startswith("try(SourceMapSection::get_sourcemap("))
    if not ctx.check(len(sec) == 1 and len(mp) == 1, rule, fn, "roles", "the section is selected with greatest_lower_bound over self.sections keyed by get_offset with query (line, col)"):
        return
    roles = {sec[0]: "section", mp[0]: "map"}
    for l in named(b, lambda s: True):
        pass
    ol = [l for l in sorted(b.var_names) for s, _, _ in q.def_shapes(b, l, roles) if s == "section.offset.0"]
    oc = [l for l in sorted(b.var_names) for s, _, _ in q.def_shapes(b, l, roles) if s == "section.offset.1"]
    if not ctx.check(len(ol) == 1 and len(oc) == 1, rule, fn, "offsets", "line and column offset are components 0 and 1 of the section's offset"):
        return
    roles[ol[0]] = "off_line"
    roles[oc[0]] = "off_col"
    calls = [(bi, t) for bi, t in b.calls() if q.nice(t.get("callee")) == "DecodedMap::lookup_token"]
    if not ctx.check(len(calls) == 1, rule, fn, "inner-lookup", "one lookup on the section's map"):
        return
    bi, t = calls[0]
    a1 = q.shape(q.arg_expr(b, t, 1), roles)
    ctx.check(a1 == "Sub(arg2,off_line)", rule, fn, "line:relative", "the line is made section-relative", detail=a1)
    cl = q.root_local(q.arg_expr(b, t, 2))
    ds = [(s, site) for s, site, _ in q.def_shapes(b, cl, roles)] if cl is not None else []
    shapes = sorted(s for s, _ in ds)
    ctx.check(shapes == ["Sub(arg3,off_col)", "arg3"], rule, fn, "col:two-arms", "the column is either col - off_col or col", detail=str(shapes))
    for s, site in ds:
        if s == "Sub(arg3,off_col)":
            ctx.check(has_fact(b, site[0], roles, ("Eq", "arg2", "off_line"), ("Eq", "off_line", "arg2")), rule, fn, "col:first-line-only", "the column offset is subtracted only on the section's first line", ctx.site(b, *site))
        else:
            ctx.check(has_fact(b, site[0], roles, ("Ne", "arg2", "off_line"), ("Ne", "off_line", "arg2")), rule, fn, "col:later-lines", "later lines keep the column", ctx.site(b, *site))
    ctx.check(q.shape(q.arg_expr(b, t, 0), roles) == "map", rule, fn, "map:of-section", "the lookup runs on the selected section's embedded map")


def sections_sorted(ctx, rule):
    """C08.R5."""
    b = ctx.body("decoder::decode_index")
    fn = b.path
    srt = [t for bi, t in b.calls() if q.nice(t.get("callee")) in ("slice::sort_by_key", "slice::sort_unstable_by_key")]
    sec = [q.root_local(q.arg_expr(b, srt[0], 0))] if len(srt) == 1 else []
    if not ctx.check(len(sec) == 1 and sec[0] is not None and b.local_ty(sec[0]).endswith("Vec<types::SourceMapSection>"), rule, fn, "sections-vec", "decode_index collects sections into one vector"):
        return
    roles = {sec[0]: "sections"}
    sorts = [(bi, q.shape(b.expr_of_call(t), roles)) for bi, t in b.calls() if q.nice(t.get("callee")) in ("slice::sort_by_key", "slice::sort_unstable_by_key")]
    ctx.check([s for _, s in sorts] in (["slice::sort_by_key(sections,\u03bb(p1.offset))"], ["slice::sort_unstable_by_key(sections,\u03bb(p1.offset))"]), rule, fn, "sort",
              "sections are sorted by offset", detail=str(sorts))
    ctor = [(bi, q.shape(b.expr_of_call(t), roles)) for bi, t in b.calls() if q.nice(t.get("callee")) in ("SourceMapIndex::new_ram_bundle_compatible", "SourceMapIndex::new")]
    ok = len(ctor) == 1 and len(sorts) == 1 and b.dominates(sorts[0][0], ctor[0][0]) and ",sections," in ctor[0][1]
    ctx.check(ok, rule, fn, "sort-before-construct", "the sort dominates the construction of the index from that vector")
    pushes = [(bi, t) for bi, t in q.calls_to(b, "Vec::<T, A>::push") if q.root_local(q.arg_expr(b, t, 0)) == sec[0]]
    chain = [sh for sh, _, _ in q.def_shapes(b, sec[0], {})]
    if not pushes and len(chain) == 1 and q.wild("try(Iterator::collect(Iterator::map(IntoIterator::into_iter(Option::unwrap_or_default(arg1.sections)),closure:*)))", chain[0]):
        # iterator form: every raw section is mapped to a section, the first error aborts (collect into Result)
        ctx.ok(rule, fn, "no-push-after-sort", "no section is added after the sort (the vector is collected once)")
        ctx.ok(rule, fn, "section:no-skip", "every raw section becomes a section of the index (map over all of them)")
        cl = None
        for bi2, si2, kind2, node2 in b.defs.get(sec[0], []):
            e2 = b.expr_of_rvalue(node2["rv"]) if kind2 == "assign" else b.expr_of_call(node2)
            cl = cl or q.callable_body(e2)
        oks = [sh for sh, _, _ in q.def_shapes(cl, 0, {}) if sh.startswith("Result::Ok{")] if cl is not None else []
        ok = len(oks) == 1 and q.wild("Result::Ok{0:SourceMapSection::new(tuple(arg2.offset.line,arg2.offset.column),arg2.url,*)}", oks[0])
        ctx.check(ok, rule, fn, "section:new", "each section is built from (offset.line, offset.column), url and the decoded embedded map", detail=str(oks)[:300])
    else:
        ok = len(pushes) == 1 and len(sorts) == 1 and not b.reaches(sorts[0][0], pushes[0][0])
        ctx.check(ok, rule, fn, "no-push-after-sort", "no section is added after the sort")
        if pushes:
            heads = [bi for bi, t in q.calls_to(b, "Iterator::next")]
            if heads:
                entry = [tb for v, tb in b.blocks[b.blocks[heads[0]]["term"]["t"]]["term"].get("arms", []) if v == 1]
                ctx.check(bool(entry) and loop_passes(b, entry[0], heads[0], [pushes[0][0]]), rule, fn, "section:no-skip", "every raw section becomes a section of the index (none is skipped)")
            sh = q.shape(q.arg_expr(b, pushes[0][1], 1), roles)
            ok = q.wild("SourceMapSection::new(tuple(*.offset.line,*.offset.column),*.url,*)", sh)
            ctx.check(ok, rule, fn, "section:new", "each section is built from (offset.line, offset.column), url and the decoded embedded map", detail=sh[:300])
    w = field_writers(ctx.facts, "types::SourceMapSection", "offset")
    got = sorted(p for p, (bb, k) in w.items() if not bb.derived)
    ctx.check(got == ["types::SourceMapSection::new"], rule, "types::SourceMapSection", "offset:immutable", "a section's offset is only set by its constructor", detail=str(got))
    w2 = field_writers(ctx.facts, "types::SourceMapIndex", "sections")
    got2 = sorted(p for p, (bb, k) in w2.items() if not bb.derived)
    ctx.check(set(got2) <= {"types::SourceMapIndex::new", "types::SourceMapIndex::new_ram_bundle_compatible", "types::SourceMapIndex::get_section_mut"}, rule, "types::SourceMapIndex", "sections:writers",
              "the section list is only set by the constructors (get_section_mut hands out one section whose offset has no setter)", detail=str(got2))
