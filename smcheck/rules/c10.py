"""C10 - adjust_mappings composes the two maps interval by interval."""
from rules import adjrules, typesrules
from rules.common import run_rules

EXPLANATION = ("C10: the sweep is shown to implement half-open interval algebra on the right keys and to copy the right fields: "
               "(R1) stretches are built after sorting by the key, end = min(next start, end of line); originals keyed by "
               "generated position, adjustments by their original position; (R2) the three tuple comparisons of the sweep and "
               "what each edge does (skip, emit only on a non-empty overlap, advance only when exhausted); (R3) the emitted token "
               "sits at max(starts) moved by the adjustment's generated-minus-original displacement and carries the original "
               "token's other five fields; (R4) only self.tokens is written, and it is re-sorted on exit.")
NOT_DECIDED = ("'exactly one token per non-empty overlap' as a counting statement over all pairs of maps; i32 overflow for lines >= 2^31 "
               "(outside the property's grids).")

RULES = {
    "C10.RG": lambda ctx: __import__("rules.foundations", fromlist=["x"]).no_global_state(ctx, "C10.RG"),
    "C10.RL": lambda ctx: __import__("rules.common", fromlist=["x"]).loop_exit_rule(ctx, "C10.RL", {'types::SourceMap::adjust_mappings': 3, 'types::SourceMap::adjust_mappings::create_ranges': 1}),
    "C10.R1": lambda ctx: adjrules.keys(ctx, "C10.R1"),
    "C10.R2": lambda ctx: adjrules.sweep(ctx, "C10.R2"),
    "C10.R4": lambda ctx: adjrules.only_tokens(ctx, "C10.R4"),
    "C10.R4b": lambda ctx: typesrules.sort_after_write(ctx, "C10.R4b"),
    "C10.R4c": lambda ctx: typesrules.key_agreement(ctx, "C10.R4c"),
    "C10.R0": lambda ctx: __import__("rules.foundations", fromlist=["x"]).accessors(ctx, "C10.R0", ['types::Token', 'TokenIter', 'types::SourceMap::get_token', 'types::SourceMap::tokens']),
    "C10.R5": lambda ctx: adjrules.adj_pf(ctx, "C10.R5"),
}


def check(ctx):
    run_rules(ctx, RULES)
