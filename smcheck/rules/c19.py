"""C19 - make_relative_path leads from the base file to the target."""
from rules import pathrules
from rules.common import run_rules

EXPLANATION = ("C19: component bookkeeping and separator discipline of make_relative_path: (R1) both paths split on {/,\\} with "
               "empty pieces dropped, the base file name popped before use; (R2) the climb count and the appended tail use the "
               "same prefix length, taken unmodified from the common-prefix helper over exactly these two lists; (R3) a small "
               "string-shape abstraction (separator-free components, constant climbs) requires the join separator to be a path "
               "separator; (R4) '.' exactly for the empty list; (R5) panic-freedom.")
NOT_DECIDED = "that the result resolves to the target for all depth combinations (value-level)."

RULES = {
    "C19.RG": lambda ctx: __import__("rules.foundations", fromlist=["x"]).no_global_state(ctx, "C19.RG"),
    "C19.RL": lambda ctx: __import__("rules.common", fromlist=["x"]).loop_exit_rule(ctx, "C19.RL", {'utils::find_common_prefix_of_sorted_vec': 1}),
    "C19.R1": lambda ctx: pathrules.components(ctx, "C19.R1") and None,
    "C19.R2": lambda ctx: pathrules.same_prefix(ctx, "C19.R2"),
    "C19.R3": lambda ctx: pathrules.separators(ctx, "C19.R3"),
    "C19.R5": lambda ctx: pathrules.path_pf(ctx, "C19.R5"),
}


def check(ctx):
    run_rules(ctx, RULES)
