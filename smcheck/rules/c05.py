"""C05 - untrusted bytes never crash the library."""
import os
import re

import panics
import pf
import q
from callgraph import CallGraph
from mir import Bin, Call, Cast, Const, Field, Named, Var
from rules.common import run_rules

EXPLANATION = ("C05: every panic-capable instruction (overflow/bounds/division asserts of the overflow-checked MIR and calls of "
               "panicking library APIs) in the call-graph closure of the decoding, detection, query, serialisation, in-memory "
               "rewrite and flatten entry points is discharged by a sound local proof rule (intervals over dominating "
               "comparisons, constant conditions, API facts, slow 64-bit counters, prefix-guarded slices) or by a reviewed table "
               "entry whose structural requirements hold on the current tree; (R2) allocation sizes derive from lengths/counts of "
               "input data, never from decoded numbers; (R3) the only recursion is over the nesting of the JSON document, which "
               "serde_json bounds."
               " (R4) accessor table and iterators (the serialised form is written through them and must decode again); (R5) data-URL alphabet pairing.")
NOT_DECIDED = ("termination/time of loops and allocation amounts (runtime quantities); panics inside dependencies beyond the API table; "
               "inputs of 4 GiB or more (u32 counters)")
ASSUMPTIONS = ["no in-memory object exceeds 2^56 bytes/elements", "inputs smaller than 4 GiB (fewer than 2^32-1 lines, sources, names, sections)"]
TECHNIQUE = "static analysis: panic-site enumeration over the call-graph closure + interval/guard discharge rules + reviewed exception table with structural requirements"

EXCLUDED_ENTRIES = (
    "builder::",                      # builder API: C13 (its functions are still analysed when reached from an entry)
    "ram_bundle::",                   # C20
    "utils::make_relative_path",      # C19
    "vlq::generate_vlq_segment",      # public codec API with a documented 62-bit domain: C11
    "detector::SourceMapRef::resolve_path",
    "types::SourceMap::set_source", "types::SourceMap::set_source_contents", "types::SourceMap::set_source_root", "types::SourceMap::set_file",
    "types::SourceMap::set_debug_id", "types::SourceMap::add_to_ignore_list", "types::SourceMap::remove_names", "types::SourceMap::adjust_mappings",
    "types::SourceMap::new", "types::SourceMapIndex::new", "types::SourceMapIndex::new_ram_bundle_compatible", "types::SourceMapIndex::set_file",
    "types::SourceMapIndex::get_section_mut", "types::SourceMapSection::new", "types::SourceMapSection::set_url", "types::SourceMapSection::set_sourcemap",
    "types::SourceMapSection::get_sourcemap_mut", "<hermes::SourceMapHermes as core::ops::deref::DerefMut>::deref_mut",
    "<errors::Error as core::convert::From<scroll::error::Error>>::from",
)
# never traversed: filesystem access behind the non-in-memory rewrite option
STOP = ("builder::SourceMapBuilder::load_local_source_contents", "builder::resolve_local_reference")


def entries(facts):
    out = []
    for b in facts.local_fns():
        if b.kind == "Closure" or b.derived or "_::" in b.path:
            continue
        if not (b.raw.get("exported") or b.impl_trait):
            continue
        if any(b.path.startswith(x) or (x.endswith("::") and ("<" + x) in b.path and b.path.startswith("<" + x)) for x in EXCLUDED_ENTRIES):
            continue
        if "ram_bundle::" in b.path:
            continue
        out.append(b.path)
    return sorted(out)


def closure_bodies(ctx):
    cg = CallGraph(ctx.facts)
    ents = entries(ctx.facts)
    # the RAM-bundle module is C20's (feature-gated, own entry points); the conservative edges of generic trait calls
    # (`I: Iterator` -> every Iterator impl of the crate) must not pull it into this closure
    reach = cg.closure(ents, stop=tuple(STOP) + tuple(p for p in cg.bodies if "ram_bundle::" in p))
    bodies = [cg.bodies[p] for p in sorted(reach) if not cg.bodies[p].derived and "_::" not in p]
    return cg, ents, bodies


def r1(ctx):
    cg, ents, bodies = closure_bodies(ctx)
    ctx.floor("C05.R1", "crate", "entry points", len(ents), 110)
    ctx.floor("C05.R1", "crate", "bodies in the call-graph closure", len(bodies), 200)
    n, g, t = pf.check_bodies(ctx, "C05.R1", bodies)
    ctx.floor("C05.R1", "crate", "panic-capable sites enumerated", n, 110)
    ctx.count("entry_points", len(ents))
    ctx.count("closure_bodies", len(bodies))
    must = ["decoder::decode_regular", "vlq::parse_vlq_segment_into", "types::SourceMapIndex::flatten", "hermes::decode_hermes", "sourceview::SourceView::get_line",
            "js_identifiers::strip_identifier", "encoder::serialize_mappings", "types::SourceMap::rewrite_with_mapping", "utils::greatest_lower_bound"]
    names = set(b.path for b in bodies)
    for m in must:
        ctx.check(m in names, "C05.R1", m, "in-closure", "%s is reachable from the entry points (the closure is not vacuous)" % m)


def len_derived(body, e, seen=None, depth=14):
    """The value derives only from lengths/counts of in-memory data, constants and counters."""
    seen = seen or set()
    if depth <= 0:
        return False
    if isinstance(e, Named):
        return len_derived(body, e.x, seen, depth - 1)
    if isinstance(e, Const):
        return e.int is not None
    if isinstance(e, Cast):
        return len_derived(body, e.x, seen, depth - 1)
    if isinstance(e, Field):
        inner = e.x
        while isinstance(inner, Named):
            inner = inner.x
        if isinstance(inner, Bin) and inner.op.endswith("WithOverflow") and e.idx == 0:
            return len_derived(body, inner.l, seen, depth - 1) and len_derived(body, inner.r, seen, depth - 1)
        return panics._is_index_source(e)
    if isinstance(e, Bin):
        if e.op in ("Add", "Mul", "Div", "Sub", "Shr", "Rem", "AddWithOverflow", "MulWithOverflow"):
            return len_derived(body, e.l, seen, depth - 1) and len_derived(body, e.r, seen, depth - 1)
        return False
    if isinstance(e, Call):
        nm = q.nice(e.callee)
        if nm in panics.LEN_CALLS or nm == "mem::size_of":
            return True
        if e.callee in q.TRANSPARENT_CALLS and len(e.args) == 1:
            return len_derived(body, e.args[0], seen, depth - 1)
        if nm in ("usize::div_ceil", "usize::min", "usize::max", "cmp::min", "cmp::max", "usize::saturating_add", "usize::saturating_sub", "usize::saturating_mul", "usize::next_multiple_of") and e.args:
            return all(len_derived(body, a, seen, depth - 1) for a in e.args)
        if e.t.get("resolved_local") and len(e.args) == 1 and getattr(e, "owner", None) is not None:
            # a count accessor of the crate (`get_token_count` = tokens.len() as u32, ...): what it returns, on its argument
            cb = e.owner.facts.body(e.t.get("resolved") or e.t.get("callee"), required=False)
            if cb is not None and cb.arg_count == 1 and not any(cb.blocks[x]["term"]["k"] == "switch" for x in range(len(cb.blocks)) if not cb.blocks[x]["cleanup"]):
                ds = cb.defs.get(0, [])
                if len(ds) == 1 and not cb.partial_defs.get(0):
                    bi, si, kind, node = ds[0]
                    inner = cb.expr_of_rvalue(node["rv"]) if kind == "assign" else cb.expr_of_call(node)
                    return len_derived(cb, inner, set(), depth - 2)
        return False
    if isinstance(e, Var):
        if e.is_arg or e.local in seen:
            return e.local in seen
        seen = seen | {e.local}
        ds = body.defs.get(e.local, [])
        if not ds or body.partial_defs.get(e.local):
            return False
        for bi, si, kind, node in ds:
            if kind != "assign":
                return False
            if not len_derived(body, body.expr_of_rvalue(node["rv"]), seen, depth - 1):
                return False
        return True
    return False


def r2(ctx):
    cg, ents, bodies = closure_bodies(ctx)
    n = 0
    for b in bodies:
        for bi, t in b.calls():
            nm = q.nice(t.get("callee"))
            if nm in panics.ALLOC_CALLS and panics.ALLOC_CALLS[nm] is not None:
                k = panics.ALLOC_CALLS[nm]
                if k >= len(t["args"]):
                    continue
                n += 1
                e = q.arg_expr(b, t, k)
                ok = len_derived(b, e)
                ctx.check(ok, "C05.R2", b.path, "%s:%s" % (nm, q.shape(e)[:100]),
                          "the size of this allocation derives from lengths/counts of input data or of containers already built, never from a decoded number", ctx.site(b, bi))
    ctx.floor("C05.R2", "crate", "sized allocations", n, 6)


KNOWN_CYCLES = [
    # generic inner reader R: the call self.r.read() may resolve to this impl again only through a
    # finitely nested type StripHeaderReader<StripHeaderReader<..>> (conservative trait-call edge)
    {"<decoder::StripHeaderReader<R> as std::io::Read>::read", "decoder::StripHeaderReader::<R>::strip_head_read"},
    {"decoder::decode_common", "decoder::decode_index"},
    {"types::SourceMapIndex::flatten"},
    {"types::DecodedMap::lookup_token", "types::SourceMapIndex::lookup_token"},
    {"<types::DecodedMap as encoder::Encodable>::as_raw_sourcemap", "<types::SourceMapIndex as encoder::Encodable>::as_raw_sourcemap",
     "<types::SourceMapIndex as encoder::Encodable>::as_raw_sourcemap::{closure#1}", "<types::SourceMapIndex as encoder::Encodable>::as_raw_sourcemap::{closure#1}::{closure#0}"},
]


def sccs(nodes, edges):
    index = {}
    low = {}
    stack = []
    on = set()
    out = []
    counter = [0]
    import sys
    sys.setrecursionlimit(10000)

    def strong(v):
        index[v] = low[v] = counter[0]
        counter[0] += 1
        stack.append(v)
        on.add(v)
        for w in edges.get(v, ()):
            if w not in nodes:
                continue
            if w not in index:
                strong(w)
                low[v] = min(low[v], low[w])
            elif w in on:
                low[v] = min(low[v], index[w])
        if low[v] == index[v]:
            comp = set()
            while True:
                w = stack.pop()
                on.discard(w)
                comp.add(w)
                if w == v:
                    break
            out.append(comp)

    for v in sorted(nodes):
        if v not in index:
            strong(v)
    return out


def r3(ctx):
    cg, ents, bodies = closure_bodies(ctx)
    nodes = set(b.path for b in bodies)
    comps = [c for c in sccs(nodes, cg.edges) if len(c) > 1 or any(v in cg.edges.get(v, ()) for v in c)]
    import normalize
    import pf as _pf
    base = normalize.baseline()

    def norm(c):
        # closures count as their enclosing function; helpers that are new w.r.t. the reference
        # table are part of whatever cycle they were extracted from
        roots = set(_pf._root(v) for v in c)
        return set(r for r in roots if not base or r in base)

    for c in comps:
        known = any(norm(c) and norm(c) <= norm(k) for k in KNOWN_CYCLES)
        ctx.check(known, "C05.R3", sorted(c)[0], "recursion:%d" % len(c),
                  "recursion on the analysed paths is only over the nesting of the (already parsed, depth-limited) JSON document: sections within sections", detail=str(sorted(c)))
    ctx.check(len(comps) >= 3, "C05.R3", "crate", "recursion:floor", "the known recursive cycles are recognised (non-vacuous)", detail=str(len(comps)))
    bad = []
    for b in ctx.facts.local_fns():
        for bi, t in b.calls():
            if "disable_recursion_limit" in (t.get("callee") or ""):
                bad.append(b.path)
    ctx.check(not bad, "C05.R3", "crate", "no-disable_recursion_limit", "serde_json's recursion limit is never disabled", detail=str(bad))
    toml = os.path.join(os.environ.get("SMCHECK_REPO", "/repo"), "Cargo.toml")
    txt = open(toml).read() if os.path.exists(toml) else ""
    ctx.check("unbounded_depth" not in txt, "C05.R3", "Cargo.toml", "no-unbounded_depth", "serde_json's unbounded_depth feature is not enabled")


RULES = {"C05.R1": r1, "C05.R2": r2, "C05.R3": r3,
         "C05.RG": lambda ctx: __import__("rules.foundations", fromlist=["x"]).no_global_state(ctx, "C05.RG"),
         # "... and the serialised form decodes again": what the writers read through the accessors is what is there
         # (an accessor that hides an entry shortens the written table under the tokens' indices), and the data URL
         # written is one the reader accepts
         "C05.R4": lambda ctx: __import__("rules.foundations", fromlist=["x"]).accessors(ctx, "C05.R4", None),
         "C05.R5": lambda ctx: __import__("rules.detrules", fromlist=["x"]).data_url_pairing(ctx, "C05.R5")}


def check(ctx):
    run_rules(ctx, RULES)
