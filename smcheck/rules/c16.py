"""C16 - a SourceView shared between threads answers as if accessed by one."""
from rules import svrules
from rules.common import run_rules

EXPLANATION = ("C16: lock-region analysis over every body that touches SourceView's protected state (the mutex-protected "
               "line cache and the atomic progress counter): (R1) every write of the state lies inside a live range of the "
               "guard; (R2) every access, reads included, lies inside a live range and no path acquires the mutex twice "
               "(one critical section per decision, no check-then-act window); (R3) no panic-capable instruction is left "
               "undischarged while the guard is live (poisoning), (R3b) the slice at the progress counter is dominated by "
               "the finished test inside the same section; (R4) no call under the lock can re-acquire it; (R5) the state "
               "is monotone (append-only cache, counter only advanced); (R6) line_count forces complete indexing before it reads the cache length, so its answer does not depend on what other threads indexed before. The claim quantifies over all schedules because it "
               "is a statement about the code's locking discipline, not about sampled interleavings."
               " (R7) the crate's iterators implement `next` only; (R5b) no field of an existing view is overwritten and no get_mut/into_inner back door is used."
               " (R8) the line cache records every piece it cuts, under the lock (cache:every-piece).")
NOT_DECIDED = "nothing schedule-dependent once R1-R5 hold; std::sync::Mutex is the trusted base. Send/Sync is checked by the type-level witness in the thorough tier."
TECHNIQUE = "static analysis: mutex guard live-range (lock-region) analysis over MIR + panic-site discharge inside the regions"

RULES = {
    # what goes into the shared cache does not depend on who asked (the scan protocol: every piece cached as it is)
    "C16.R8": lambda ctx: svrules.c15_r1_protocol(ctx, "C16.R8"),
    "C16.RG": lambda ctx: __import__("rules.foundations", fromlist=["x"]).no_global_state(ctx, "C16.RG"),
    "C16.R7": lambda ctx: __import__("rules.foundations", fromlist=["x"]).iterator_overrides(ctx, "C16.R7"),
    "C16.R1": svrules.r1_writes_under_lock,
    "C16.R2": svrules.r2_single_section,
    "C16.R3b": svrules.r3b_finished_test,
    "C16.R3": svrules.r3_no_panic_under_lock,
    "C16.R4": svrules.r4_no_reentrancy,
    "C16.R4b": lambda ctx: svrules.guards_stay_local(ctx, "C16.R4b"),
    "C16.R5b": lambda ctx: svrules.fresh_views(ctx, "C16.R5b"),
    "C16.R5": lambda ctx: svrules.r5_monotone(ctx, "C16.R5"),
    # line_count's answer must not depend on what other threads cached before: it forces complete indexing first
    "C16.R6": lambda ctx: svrules.c15_r3_iter(ctx, "C16.R6"),
}


def check(ctx):
    run_rules(ctx, RULES)
