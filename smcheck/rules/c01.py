"""C01 - writing a map and reading it back yields the same map."""
from rules import bldrules, decoderrules, encrules
from rules.common import run_rules

EXPLANATION = ("C01: encoder and decoder are shown to agree on what is carried and how the running state is threaded: (R1) "
               "field coverage of RawSourceMap on each decode path vs each writer; (R2) every decoded field reaches the map "
               "on every Ok path; (R3) the set of running variables reset per line is {generated column} on both sides; "
               "(R4) both sides use the v3 field order with deltas against the previously emitted value; (R5) sections and "
               "the Hermes payload are carried both ways; (R6) only exact duplicates are dropped by the encoder; (R7) the root-joined name cache stays coherent with root and raw names; (R8) the VLQ reader accepts the writer's whole range (no extra rejections)."
               " (R10) writer and reader of the data URL use the same standard padded alphabet; (R11) SourceMap::new stores every argument whole."
               " (R12) decode_regular fails only for the reviewed reasons (each error exit is a propagated callee error or one of the listed variants); (R13) embedded contents are held as views that show exactly the text they were built from; (RW) the wire structs RawSourceMap/RawSection carry derived serde impls only, so key names and optionality are exactly what the attributes say."
               " (R14) tokens are sorted by generated position after every write (SourceMap::new, adjust_mappings on every exit), which the line-advancing writer relies on.")
NOT_DECIDED = ("equality of the decoded values with the original, byte-for-byte idempotence and JSON string escaping (delegated to "
               "serde_json) are value-level statements.")

RULES = {
    # the writer advances the generated line and takes deltas against the previous token: it relies on the tokens being
    # ordered by generated position whatever produced the map (constructor, adjust_mappings)
    "C01.R14": lambda ctx: __import__("rules.typesrules", fromlist=["x"]).sort_after_write(ctx, "C01.R14"),
    "C01.RW": lambda ctx: __import__("rules.foundations", fromlist=["x"]).wire_types_derived_only(ctx, "C01.RW"),
    # embedded contents are held as views: a view shows exactly the text it was made from
    "C01.R13": lambda ctx: __import__("rules.svrules", fromlist=["x"]).fresh_views(ctx, "C01.R13"),
    "C01.R12": lambda ctx: decoderrules.rejections_exact(ctx, "C01.R12"),
    "C01.RG": lambda ctx: __import__("rules.foundations", fromlist=["x"]).no_global_state(ctx, "C01.RG"),
    "C01.R11": lambda ctx: __import__("rules.bldrules", fromlist=["x"]).map_new(ctx, "C01.R11"),
    # the data URL is one of the serialised forms: writer and reader must use the same (standard, padded) alphabet
    "C01.R10": lambda ctx: __import__("rules.detrules", fromlist=["x"]).data_url_pairing(ctx, "C01.R10"),
    "C01.R6w": lambda ctx: encrules.whole_document(ctx, "C01.R6w"),
    "C01.R5s": lambda ctx: __import__("rules.decoderrules", fromlist=["x"]).section_errors(ctx, "C01.R5s"),
    "C01.RL": lambda ctx: __import__("rules.common", fromlist=["x"]).loop_exit_rule(ctx, "C01.RL", {'decoder::decode_regular': 0, 'decoder::decode_index': 0, 'encoder::serialize_mappings': 1}),
    "C01.R1": lambda ctx: decoderrules.field_coverage(ctx, "C01.R1"),
    "C01.R2": lambda ctx: decoderrules.handover(ctx, "C01.R2"),
    "C01.R2e": lambda ctx: encrules.optional_keys(ctx, "C01.R2e"),
    "C01.R2k": lambda ctx: decoderrules.dispatch(ctx, "C01.R2k"),
    "C01.R3e": lambda ctx: encrules.resets(ctx, "C01.R3e"),
    "C01.R3d": lambda ctx: decoderrules.accumulators(ctx, "C01.R3d"),
    "C01.R4e": lambda ctx: encrules.field_order(ctx, "C01.R4e"),
    "C01.R4s": lambda ctx: encrules.separators(ctx, "C01.R4s"),
    "C01.R5e": lambda ctx: encrules.sections(ctx, "C01.R5e"),
    "C01.R5d": lambda ctx: bldrules.sections_sorted(ctx, "C01.R5d"),
    "C01.R1b": lambda ctx: encrules.serde_symmetry(ctx, "C01.R1b"),
    "C01.R0": lambda ctx: __import__("rules.foundations", fromlist=["x"]).accessors(ctx, "C01.R0", None),
    "C01.R5h": lambda ctx: encrules.version(ctx, "C01.R5h"),
    "C01.R6": lambda ctx: encrules.only_duplicates_skipped(ctx, "C01.R6"),
    "C01.R9a": lambda ctx: __import__("rules.hdrrules", fromlist=["x"]).stream_expected(ctx, "C01.R9a") and None,
    "C01.R9b": lambda ctx: __import__("rules.hdrrules", fromlist=["x"]).chunk_independence(ctx, "C01.R9b"),
    "C01.R9c": lambda ctx: __import__("rules.hdrrules", fromlist=["x"]).convergence(ctx, "C01.R9c"),
    "C01.R7": lambda ctx: bldrules.cache_coherence(ctx, "C01.R7"),
    "C01.R8": lambda ctx: __import__("rules.vlqrules", fromlist=["x"]).reader_shape(ctx, "C01.R8"),
    "C01.R8w": lambda ctx: __import__("rules.vlqrules", fromlist=["x"]).writer_shape(ctx, "C01.R8w"),
}


def check(ctx):
    run_rules(ctx, RULES)
