"""C08 - index maps: section lookup and flattening describe the same mapping."""
import pf
from rules import bldrules, typesrules
from rules.common import run_rules

EXPLANATION = ("C08: (R1) SourceMapIndex::lookup_token selects the section with greatest_lower_bound keyed by get_offset and "
               "makes the position section-relative (column only on the section's first line); (R2) flatten forwards the "
               "seven builder.add arguments positionally with the line shift always and the column shift on line 0 only, "
               "using checked additions; (R3) new id / old id are not confused for contents and ignore list; (R4) the three "
               "map kinds and the unresolved-section error; (R5) sections are sorted on load and offsets immutable; (R6) "
               "panic-freedom of lookup and flatten."
               " (R9) SourceMapBuilder::new stores the file as given and starts empty.")
NOT_DECIDED = "the pointwise agreement lookup-on-index == lookup-on-flattened (value-level)."


def r6(ctx):
    paths = [bldrules.ILOOKUP, bldrules.FLAT, "types::DecodedMap::lookup_token", "types::SourceMapSection::get_offset",
             "types::SourceMapIndex::sections", "<types::SourceMapSectionIter<'a> as core::iter::traits::iterator::Iterator>::next", "types::SourceMapIndex::get_section",
             typesrules.GLB]
    pf.check_bodies(ctx, "C08.R6", [ctx.body(p) for p in paths] + list(ctx.facts.closures_of(bldrules.FLAT)))


RULES = {
    "C08.RG": lambda ctx: __import__("rules.foundations", fromlist=["x"]).no_global_state(ctx, "C08.RG"),
    "C08.R9": lambda ctx: bldrules.builder_new(ctx, "C08.R9"),
    "C08.R3c": lambda ctx: __import__("rules.bldrules", fromlist=["x"]).contents_resize(ctx, "C08.R3c"),
    "C08.R8": lambda ctx: __import__("rules.typesrules", fromlist=["x"]).key_agreement(ctx, "C08.R8"),
    "C08.R5e": lambda ctx: __import__("rules.decoderrules", fromlist=["x"]).section_errors(ctx, "C08.R5e"),
    "C08.RL": lambda ctx: __import__("rules.common", fromlist=["x"]).loop_exit_rule(ctx, "C08.RL", {'types::SourceMapIndex::flatten': 0, 'decoder::decode_index': 0}),
    "C08.R1": lambda ctx: bldrules.index_lookup(ctx, "C08.R1"),
    "C08.R2": lambda ctx: bldrules.flatten_translation(ctx, "C08.R2"),
    "C08.R2b": lambda ctx: bldrules.add_with_id(ctx, "C08.R2b"),
    "C08.R2c": lambda ctx: bldrules.interning(ctx, "C08.R2c"),
    "C08.R3": lambda ctx: bldrules.flatten_translation(ctx, "C08.R3"),
    "C08.R3b": lambda ctx: bldrules.contents_predicates(ctx, "C08.R3b"),
    "C08.R4": lambda ctx: bldrules.builder_calls(ctx, "C08.R4"),
    "C08.R5": lambda ctx: bldrules.sections_sorted(ctx, "C08.R5"),
    "C08.R0": lambda ctx: __import__("rules.foundations", fromlist=["x"]).accessors(ctx, "C08.R0", None),
    "C08.R6": r6,
}


def check(ctx):
    run_rules(ctx, RULES)
