"""C10: adjust_mappings (interval sweep)."""
import pf
import q
from mir import Agg, Call, Const, Named, Un, Var
from rules.common import has_fact
from rules.typesrules import closure_ret_shape

LAM = "\u03bb"

ADJ = "types::SourceMap::adjust_mappings"
CR = "types::SourceMap::adjust_mappings::create_ranges"
NEXT = "try(Iterator::next(var:Iter<Range>))"


def roles_of(b):
    # O: the stretch variable that is re-assigned from the iterator (several definitions);
    # A: the other stretch compared with it; T: the mutable RawToken being built
    o = [l for l in sorted(b.var_names) if len(b.defs.get(l, [])) >= 2 and all(sh == NEXT for sh, _, _ in q.def_shapes(b, l, {}))]
    t = [l for l in sorted(b.var_names) if b.locals[l]["mut"] and b.local_ty(l) == "types::RawToken"]
    if len(o) != 1 or len(t) > 1:
        return None
    others = set()
    for bi, tt in b.calls():
        if q.nice(tt.get("callee")).startswith("PartialOrd::"):
            for k in range(len(tt["args"])):
                r = q.root_local(q.arg_expr(b, tt, k))
                if r is not None and r != o[0]:
                    others.add(r)
    if len(others) != 1:
        return None
    r = {o[0]: "O", others.pop(): "A"}
    if t:
        r[t[0]] = "T"  # (absent when the composed token is built in one literal and pushed directly)
    return r


def keys(ctx, rule):
    b = ctx.body(ADJ)
    fn = b.path
    d = {}
    for l in sorted(b.var_names):
        for sh, _, _ in q.def_shapes(b, l, {}):
            if sh.startswith("adjust_mappings::create_ranges("):
                d.setdefault("original_ranges" if "mem::take" in sh or "arg1" in sh else "adjustment_ranges", []).append(sh)
    KEY_O = "%s(tuple(p1.dst_line,p1.dst_col))" % LAM
    KEY_A = "%s(tuple(p1.src_line,p1.src_col))" % LAM
    ctx.check(d.get("original_ranges") == ["adjust_mappings::create_ranges(mem::take(arg1.tokens),%s)" % KEY_O], rule, fn, "original:ranges",
              "the original stretches are built from self's tokens (taken out of the map), keyed by generated position", detail=str(d.get("original_ranges")))
    ctx.check(d.get("adjustment_ranges") in (["adjust_mappings::create_ranges(arg2.tokens,%s)" % KEY_A], ["adjust_mappings::create_ranges(Clone::clone(arg2.tokens),%s)" % KEY_A]), rule, fn, "adjustment:ranges",
              "the adjustment stretches are built from a copy of the adjustment's tokens (it is only read), keyed by the adjustment's *original* position", detail=str(d.get("adjustment_ranges")))
    c = ctx.body(CR)
    calls = [q.shape(c.expr_of_call(t)) for bi, t in c.calls()]
    srt = [bi for bi, t in c.calls() if q.nice(t.get("callee")) == "slice::sort_unstable_by_key" or q.nice(t.get("callee")) == "slice::sort_by_key"]
    nxt = [bi for bi, t in q.calls_to(c, "Iterator::next")]
    ok = len(srt) == 1 and "slice::sort_unstable_by_key(arg1,arg2)" in calls and bool(nxt) and c.dominates(srt[0], nxt[0])
    ctx.check(ok, rule, c.path, "sorted-by-key", "tokens are sorted by the key before they are paired into stretches")
    cp = [bi for bi, t in q.calls_to(c, "Vec::<T, A>::push")]
    if cp and nxt:
        from rules.common import loop_passes
        ent = [tb for v, tb in c.blocks[c.blocks[nxt[0]]["term"]["t"]]["term"].get("arms", []) if v == 1]
        ctx.check(len(cp) == 1 and bool(ent) and loop_passes(c, ent[0], nxt[0], cp), rule, c.path, "range:no-skip", "every token yields a stretch")
    lit = [c.expr_of_rvalue(s["rv"]) for bi, si, s, it in c.locations() if not it and s["k"] == "assign" and s["rv"]["k"] == "agg" and s["rv"].get("adt", "").endswith("adjust_mappings::Range")]
    if ctx.check(len(lit) == 1, rule, c.path, "literal", "one Range per token"):
        a = lit[0]
        T = "try(Iterator::next(var:Peekable<IntoIter<RawToken>>))"
        START = "<indirect>(%s)" % T
        ctx.check(q.shape(a.field("start")) == START, rule, c.path, "start", "a stretch starts at the token's key", detail=q.shape(a.field("start")))
        want_end = "cmp::min(Option::map_or(Peekable::peek(var:Peekable<IntoIter<RawToken>>),tuple(Not(0),Not(0)),arg2),tuple(%s.0,Not(0)))" % START
        ctx.check(q.shape(a.field("end")) == want_end, rule, c.path, "end", "it ends at the next token's key or the end of its line, whichever comes first (last stretch: end of line)", detail=q.shape(a.field("end")))
        ctx.check(q.shape(a.field("value")) == T, rule, c.path, "value", "and carries the token")
        ind = [t for bi, t in c.calls() if t.get("callee") is None]
        ctx.check(len(ind) == 1 and q.shape(c.expr_of_operand(ind[0]["func"])) == "arg2", rule, c.path, "key-fn", "the key function used is the parameter")


def _negate(op, l, r):
    op2 = q.NEGATE[op]
    if op2 in ("Gt", "Ge"):
        return (q.FLIP[op2], r, l)
    return (op2, l, r)


def _canon_test(op, l, r):
    if op in ("Gt", "Ge"):
        op, l, r = q.FLIP[op], r, l
    return frozenset([(op, l, r), _negate(op, l, r)])


def sweep(ctx, rule):
    b = ctx.body(ADJ)
    fn = b.path
    roles = roles_of(b)
    if not ctx.check(roles is not None, rule, fn, "roles", "current original stretch, current adjustment stretch and the token under construction are recognisable"):
        return
    inv = {v: k for k, v in roles.items()}
    O = inv["O"]
    # the ordering tests of the sweep, as canonical facts (a test and its negation are one test;
    # `x >= y` and `!(x < y)` with swapped branches are the same program)
    tests = set()
    for d in range(len(b.blocks)):
        t = b.blocks[d]["term"]
        if t["k"] == "switch" and not b.blocks[d]["cleanup"]:
            e = b.expr_of_operand(t["discr"])
            while isinstance(e, Named) or (isinstance(e, Un) and e.op == "Not"):
                e = e.x
            if isinstance(e, Call) and q.CMP_CALLS.get(q.nice(e.callee)) in ("Lt", "Le", "Gt", "Ge") and len(e.args) == 2:
                tests.add(_canon_test(q.CMP_CALLS[q.nice(e.callee)], q.shape(e.args[0], roles), q.shape(e.args[1], roles)))
    SKIP = ("Le", "O.end", "A.start")
    OVER = ("Lt", "O.start", "A.end")
    KEEPS = [("Le", "A.end", "O.end"), ("Lt", "A.end", "O.end")]
    keep = [k for k in KEEPS if _canon_test(*k) in tests]
    ok = _canon_test(*SKIP) in tests and _canon_test(*OVER) in tests and len(keep) == 1 and len(tests) == 3
    ctx.check(ok, rule, fn, "comparisons",
              "the sweep uses exactly the half-open interval tests: skip while o.end <= a.start; overlap while o.start < a.end; keep the original stretch when o.end >= a.end (> is equivalent: at equality the next adjustment stretch skips it anyway)", detail=str(sorted(map(sorted, tests))))
    if not ok:
        return
    KEEP = keep[0]
    NOT_KEEP = _negate(*KEEP)
    # effects of each test
    adv = [site for sh, site, _ in q.def_shapes(b, O, roles) if sh == NEXT]
    ctx.check(len(adv) == 3, rule, fn, "advance-sites", "the original stretch is taken from its iterator at three places (first, skip, after an overlap)", detail=str(adv))
    skip_adv = [s for s in adv if has_fact(b, s[0], roles, SKIP)]
    ctx.check(len(skip_adv) == 1, rule, fn, "skip:advances", "an original stretch entirely before the adjustment stretch is skipped")
    pushes = [(bi, q.shape(q.arg_expr(b, t, 1), roles)) for bi, t in q.calls_to(b, "Vec::<T, A>::push") if q.shape(q.arg_expr(b, t, 0), roles) == "arg1.tokens"]
    direct = "T" not in inv
    ctx.check(len(pushes) == 1 and (pushes[0][1] == "T" or direct and pushes[0][1].startswith("RawToken{")), rule, fn, "emit", "one token is emitted per overlap")
    for pb, _ in pushes:
        ctx.check(has_fact(b, pb, roles, OVER) and has_fact(b, pb, roles, _negate(*SKIP)), rule, fn, "emit:non-empty-overlap",
                  "a token is emitted only when o.start < a.end and o.end > a.start (non-empty overlap of half-open stretches)", ctx.site(b, pb))
    in_adv = [s for s in adv if has_fact(b, s[0], roles, NOT_KEEP) and has_fact(b, s[0], roles, OVER)]
    ctx.check(len(in_adv) == 1, rule, fn, "advance:only-when-exhausted", "after an overlap the original stretch advances only when it ends before the adjustment stretch does")
    # token construction
    MAXS = "cmp::max(O.start,A.start)"
    DL = "Sub(cast<i32>(A.value.dst_line),cast<i32>(A.value.src_line))"
    DC = "Sub(cast<i32>(A.value.dst_col),cast<i32>(A.value.src_col))"
    if direct:
        # built in one literal: already displaced position, everything else from the original token
        got = pushes[0][1] if pushes else ""
        ok_d = False
        for dl in ("tuple(%s,%s).0" % (DL, DC), DL):
            for dc in ("tuple(%s,%s).1" % (DL, DC), DC):
                want = ("RawToken{dst_line:cast<u32>(Add(cast<i32>(%s.0),%s)),dst_col:cast<u32>(Add(cast<i32>(%s.1),%s)),src_line:O.value.src_line,src_col:O.value.src_col,"
                        "src_id:O.value.src_id,name_id:O.value.name_id,is_range:O.value.is_range}") % (MAXS, dl, MAXS, dc)
                ok_d = ok_d or got == want
                # (operands of the commutative `+` print in sorted order: with the displacement a bare `Sub(..)` it comes first)
                want2 = ("RawToken{dst_line:cast<u32>(Add(%s,cast<i32>(%s.0))),dst_col:cast<u32>(Add(%s,cast<i32>(%s.1))),src_line:O.value.src_line,src_col:O.value.src_col,"
                         "src_id:O.value.src_id,name_id:O.value.name_id,is_range:O.value.is_range}") % (dl, MAXS, dc, MAXS)
                ok_d = ok_d or got == want2
        ctx.check(ok_d, rule, fn, "token:fields", "the token sits at the start of the overlap (max of the two starts) moved by the adjustment token's generated-minus-original displacement and takes source, original position, name and range flag from the original token", detail=got[:500])
        return
    defs = [(sh, site) for sh, site, _ in q.def_shapes(b, inv["T"], roles)]
    lit = [sh for sh, _ in defs if sh.startswith("RawToken{")]
    MAXS = "cmp::max(O.start,A.start)"
    want_lit = "RawToken{dst_line:%s.0,dst_col:%s.1,src_line:O.value.src_line,src_col:O.value.src_col,src_id:O.value.src_id,name_id:O.value.name_id,is_range:O.value.is_range}" % (MAXS, MAXS)
    ctx.check(lit == [want_lit], rule, fn, "token:fields", "the token sits at the start of the overlap (max of the two starts) and takes source, original position, name and range flag from the original token", detail=str(lit)[:400])
    shifts = {}
    for bi, si, s, it in b.locations():
        if not it and s["k"] == "assign" and s["place"]["l"] == inv["T"] and s["place"]["p"]:
            shifts[s["place"]["p"][-1].get("n")] = q.shape(b.expr_of_rvalue(s["rv"]), roles)
    DL = "Sub(cast<i32>(A.value.dst_line),cast<i32>(A.value.src_line))"
    DC = "Sub(cast<i32>(A.value.dst_col),cast<i32>(A.value.src_col))"
    ok_l = shifts.get("dst_line") in ("cast<u32>(Add(cast<i32>(T.dst_line),tuple(%s,%s).0))" % (DL, DC), "cast<u32>(Add(cast<i32>(T.dst_line),%s))" % DL, "cast<u32>(Add(%s,cast<i32>(T.dst_line)))" % DL)
    ok_c = shifts.get("dst_col") in ("cast<u32>(Add(cast<i32>(T.dst_col),tuple(%s,%s).1))" % (DL, DC), "cast<u32>(Add(cast<i32>(T.dst_col),%s))" % DC, "cast<u32>(Add(%s,cast<i32>(T.dst_col)))" % DC)
    ctx.check(ok_l and ok_c and set(shifts) == {"dst_line", "dst_col"}, rule, fn, "token:displacement",
              "the position is moved by the adjustment token's generated-minus-original displacement (line and column, not swapped, sign not flipped)", detail=str(shifts)[:500])


def only_tokens(ctx, rule):
    b = ctx.body(ADJ)
    muts = set()
    for bi, si, s, it in b.locations():
        pls = []
        if not it and s["k"] == "assign":
            pls.append(s["place"])
            if s["rv"]["k"] in ("ref", "rawptr") and s["rv"].get("mut"):
                pls.append(s["rv"]["place"])
        for pl in pls:
            if pl["l"] == 1:
                fs = [p.get("n") for p in pl["p"] if p.get("k") == "field"]
                if fs:
                    muts.add(fs[0])
    ctx.check(muts == {"tokens"}, rule, ADJ, "writes-only-tokens", "adjust_mappings writes only self.tokens (sources, names and contents are untouched)", detail=str(sorted(muts)))
    takes = [bi for bi, t in b.calls() if q.nice(t.get("callee")) == "mem::take" and q.shape(q.arg_expr(b, t, 0)) == "arg1.tokens"]
    ctx.check(len(takes) == 1 and all(b.dominates(takes[0], r) for r in b.return_blocks()), rule, ADJ, "take:every-path",
              "the old tokens are taken out of the map on every path (no early return leaves unadjusted tokens behind, e.g. for an empty adjustment)")
    ops = sorted(set(q.nice(t.get("callee")) for bi, t in b.calls() if t["args"] and q.shape(q.arg_expr(b, t, 0)) == "arg1.tokens"))
    ctx.check(set(ops) <= {"mem::take", "Vec::push", "slice::sort_unstable_by_key", "slice::sort_by_key", "Vec::reserve", "Vec::with_capacity", "DerefMut::deref_mut", "Deref::deref"} and "Vec::push" in ops, rule, ADJ, "tokens:ops",
              "the new token list is only appended to and sorted (nothing removes, merges or reorders composed tokens: one token per overlap survives)", detail=str(ops))
    sig = b.sig or ""
    ctx.check("&'b types::SourceMap" in sig or ", &" in sig and "&'b mut" not in sig.split(",")[1] if "," in sig else False, rule, ADJ, "adjustment:immutable", "the adjustment map is borrowed immutably", detail=sig)


def adj_pf(ctx, rule):
    ctx.remark("adjust_mappings computes displacements in i32: lines/columns >= 2^31 are outside the property's grids and outside this check")
    bodies = [ctx.body(CR)] + [c for c in ctx.facts.closures_of(ADJ)]
    pf.check_bodies(ctx, rule, bodies)
