"""C12: header strippers (stream and slice), convergence of the decode paths."""
import absint
import q
from callgraph import CallGraph
from mir import Agg, Const, Named, Var
from rules.common import has_fact, result_blocks

STREAM = "decoder::StripHeaderReader::<R>::strip_head_read"
SLICE = "decoder::strip_junk_header"
JUNK = "decoder::is_junk_json"
_UNIFORM = {}  # (id(facts), table) -> bytes that deviate from their class (computed once per fact base)
STATES = ["Undecided", "Junk", "AwaitingNewline", "PastHeader"]
CLASSES = {"junk": 41, "cr": 13, "lf": 10, "other": 120}


def junk_classifier(ctx, rule):
    b = ctx.body(JUNK)
    t = absint.pred_table(b, 1)
    acc = sorted(v for v, r in t.items() if r == 1)
    und = [v for v, r in t.items() if r is None]
    ctx.check(acc == sorted([ord(")"), ord("]"), ord("}"), ord("'")]) and not und, rule, b.path, "junk-bytes",
              "a header starts with exactly one of ) ] } ' (value-set over all 256 byte values)", detail="accepted %s undecided %d" % ([chr(a) for a in acc], len(und)))
    ctx.count("junk_classifier_values", 256)
    cg = CallGraph(ctx.facts)
    callers = cg.callers(JUNK)
    ctx.check(callers == sorted([STREAM, SLICE]), rule, JUNK, "shared", "both strippers decide 'junk' through the same classifier", detail=str(callers))
    return t


def _adt_variants(ctx, path):
    a = ctx.facts.adts.get(path)
    return [v["name"] for v in a["variants"]] if a else []


def stream_table(ctx, rule):
    """Transition table of the streaming stripper, read off the MIR by following the unique
    path each (state, byte class) pair determines through one loop iteration."""
    b = ctx.body(STREAM)
    fn = b.path
    variants = _adt_variants(ctx, "decoder::HeaderState")
    if not ctx.check(variants == STATES, rule, "decoder::HeaderState", "states", "the header automaton has the states Undecided, Junk, AwaitingNewline, PastHeader", detail=str(variants)):
        return None
    byte = [l for l, n in b.var_names.items() if b.local_ty(l) == "u8"]
    heads = [bi for bi, t in q.calls_to(b, "Iterator::next")]
    if not ctx.check(len(byte) == 1 and len(heads) == 1, rule, fn, "roles", "the byte loop of the stream stripper is recognisable"):
        return None
    roles = {byte[0]: "byte"}
    entry = b.defs[byte[0]][0][0]
    junk_t = absint.pred_table(ctx.body(JUNK), 1)
    table = {}
    for si, sname in enumerate(STATES):
        for cname, bv in CLASSES.items():
            env = {"discr(arg1.header_state)": si, "arg1.header_state": si, "byte": bv, "decoder::is_junk_json(byte)": junk_t[bv]}
            ev, end = absint.walk(b, entry, env, roles, stop=[heads[0]])
            nxt = [e[2] for e in ev if e[0] == "store" and e[1] == "header_state"]
            rets = [e for e in ev if e[0] == "ret"]
            copies = [e[2] for e in ev if e[0] == "call" and e[1] == "slice::copy_from_slice"]
            errs = [e for e in ev if e[0] == "call" and e[1] == "Error::new"]
            out = {"end": end[0], "next": STATES[nxt[-1]] if nxt and nxt[-1] is not None else None, "copy": copies, "err": [e[2] for e in errs],
                   "ret": [(e[1], e[2]) for e in rets]}
            table[(sname, cname)] = out
            ctx.check(end[0] in ("stop", "return"), rule, fn, "walk:%s/%s" % (sname, cname), "the path for state %s and a %s byte is determined by the state and the byte alone" % (sname, cname), detail=str(end))
    # the four classes are the whole alphabet: every byte value behaves like the representative of its class (no byte is
    # singled out for a treatment of its own, e.g. one that ends the header early)
    def cls(v):
        return "cr" if v == 13 else "lf" if v == 10 else "junk" if junk_t[v] else "other"
    odd = _UNIFORM.get((id(ctx.facts), "stream"))
    for si, sname in enumerate(STATES) if odd is None else ():
        odd = odd if odd is not None else []
        for v in range(256):
            env = {"discr(arg1.header_state)": si, "arg1.header_state": si, "byte": v, "decoder::is_junk_json(byte)": junk_t[v]}
            ev, end = absint.walk(b, entry, env, roles, stop=[heads[0]])
            nxt = [e[2] for e in ev if e[0] == "store" and e[1] == "header_state"]
            sig = (end[0], STATES[nxt[-1]] if nxt and nxt[-1] is not None else None, len([e for e in ev if e[0] == "ret"]), len([e for e in ev if e[0] == "call" and e[1] == "slice::copy_from_slice"]),
                   len([e for e in ev if e[0] == "call" and e[1] == "Error::new"]))
            ref = table[(sname, cls(v))]
            if sig != (ref["end"], ref["next"], len(ref["ret"]), len(ref["copy"]), len(ref["err"])):
                odd.append("%s/0x%02x" % (sname, v))
    odd = odd or []
    _UNIFORM[(id(ctx.facts), "stream")] = odd
    ctx.check(not odd, rule, fn, "classes:uniform", "over all 256 byte values and all four states, a byte is treated like the representative of its class (junk / CR / LF / other)", detail=str(odd[:8]))
    ctx.count("stream_transitions", len(table))
    ctx.count("stream_byte_walks", 256 * len(STATES))
    return table, roles


def stream_expected(ctx, rule):
    res = stream_table(ctx, rule)
    if res is None:
        return
    table, roles = res
    fn = STREAM
    want_next = {("Undecided", "junk"): "Junk", ("Junk", "junk"): "Junk", ("Junk", "cr"): "AwaitingNewline", ("Junk", "lf"): "PastHeader", ("Junk", "other"): "Junk",
                 ("AwaitingNewline", "lf"): "PastHeader"}
    for (s, c), out in sorted(table.items()):
        key = "%s/%s" % (s, c)
        if (s, c) in want_next:
            ok = out["next"] == want_next[(s, c)] and out["end"] == "stop" and not out["copy"] and not out["err"]
            ctx.check(ok, rule, fn, "t:" + key, "%s --%s--> %s, nothing emitted, next byte examined" % (s, c, want_next[(s, c)]), detail=str(out)[:300])
        elif s == "Undecided":
            ok = out["next"] == "PastHeader" and out["end"] == "return" and len(out["copy"]) == 1 and \
                q.wild("slice::copy_from_slice(arg2[RangeTo{end:*Read::read(*}],*[RangeTo{end:*Read::read(*}])", out["copy"][0]) and \
                any(v == "Ok" and q.wild("Result::Ok{0:*Read::read(*}", sh) for v, sh in out["ret"])
            ctx.check(ok, rule, fn, "t:" + key, "no header: the whole chunk [..read] is passed through, Ok(read) returned, state PastHeader stored before returning", detail=str(out)[:400])
        elif s == "AwaitingNewline":
            ok = out["end"] == "return" and bool(out["err"]) and "ErrorKind::InvalidData{}" in out["err"][0] and any(v == "Err" for v, sh in out["ret"]) and not out["copy"]
            ctx.check(ok, rule, fn, "t:" + key, "\\r not followed by \\n is rejected with io::ErrorKind::InvalidData", detail=str(out)[:300])
        elif s == "PastHeader":
            ok = out["end"] == "return" and len(out["copy"]) == 1 and any(v == "Ok" for v, sh in out["ret"])
            if ok:
                c0 = out["copy"][0]
                ENUM0 = "try(Iterator::next(var:Enumerate<Iter<u8>>)).0"
                ok = q.wild("slice::copy_from_slice(arg2[RangeTo{end:Sub(*Read::read(*,%s)}],*[Range{start:%s,end:*Read::read(*}])" % (ENUM0, ENUM0), c0)
                ok = ok and any(q.wild("Result::Ok{0:Sub(*Read::read(*,%s)}" % ENUM0, sh) for v, sh in out["ret"])
            ctx.check(ok, rule, fn, "t:" + key, "past the header the remainder local_buf[offset..read] (read - offset bytes, starting at the current byte) is emitted and Ok(read - offset) returned", detail=str(out)[:500])
    return table


def slice_table(ctx, rule):
    b = ctx.body(SLICE)
    fn = b.path
    byte = [l for l, n in b.var_names.items() if b.local_ty(l) == "u8"]
    flag = [l for l, n in b.var_names.items() if b.local_ty(l) == "bool" and b.locals[l]["mut"]]
    heads = [bi for bi, t in q.calls_to(b, "Iterator::next")]
    if not ctx.check(len(byte) == 1 and len(flag) == 1 and len(heads) == 1, rule, fn, "roles", "the byte loop and the need-newline flag of the slice stripper are recognisable"):
        return None
    roles = {byte[0]: "byte", flag[0]: "need_nl"}
    entry = b.defs[byte[0]][0][0]
    junk_t = absint.pred_table(ctx.body(JUNK), 1)
    table = {}
    for st in (0, 1):
        for cname, bv in CLASSES.items():
            env = {"need_nl": st, "byte": bv, "decoder::is_junk_json(byte)": junk_t[bv]}
            ev, end = absint.walk(b, entry, env, roles, stop=[heads[0]])
            # flag updates inside the iteration
            nxt = st
            for e in ev:
                if e[0] == "assign" and e[1] == flag[0] and e[2] is not None:
                    nxt = e[2]
            rets = [(e[1], e[2]) for e in ev if e[0] == "ret"]
            errs = [e[2] for e in ev if e[0] == "call" and e[1] == "Error::new"]
            table[(st, cname)] = {"end": end[0], "next": nxt, "ret": rets, "err": errs}
            ctx.check(end[0] in ("stop", "return"), rule, fn, "walk:%d/%s" % (st, cname), "the path for need_newline=%d and a %s byte is determined" % (st, cname), detail=str(end))
    def cls(v):
        return "cr" if v == 13 else "lf" if v == 10 else "junk" if junk_t[v] else "other"
    odd = _UNIFORM.get((id(ctx.facts), "slice"))
    for st in (0, 1) if odd is None else ():
        odd = odd if odd is not None else []
        for v in range(256):
            env = {"need_nl": st, "byte": v, "decoder::is_junk_json(byte)": junk_t[v]}
            ev, end = absint.walk(b, entry, env, roles, stop=[heads[0]])
            nxt = st
            for e in ev:
                if e[0] == "assign" and e[1] == flag[0] and e[2] is not None:
                    nxt = e[2]
            sig = (end[0], nxt, len([e for e in ev if e[0] == "ret"]), len([e for e in ev if e[0] == "call" and e[1] == "Error::new"]))
            ref = table[(st, cls(v))]
            if sig != (ref["end"], ref["next"], len(ref["ret"]), len(ref["err"])):
                odd.append("%d/0x%02x" % (st, v))
    odd = odd or []
    _UNIFORM[(id(ctx.facts), "slice")] = odd
    ctx.check(not odd, rule, fn, "classes:uniform", "over all 256 byte values and both flag states, a byte is treated like the representative of its class (junk / CR / LF / other)", detail=str(odd[:8]))
    ctx.count("slice_transitions", len(table))
    ctx.count("slice_byte_walks", 512)
    return table, roles


def _flag_sets(b, flag):
    out = []
    for bi, si, kind, node in b.defs.get(flag, []):
        if kind == "assign" and node["rv"]["k"] == "use" and node["rv"]["op"].get("k") == "const":
            out.append((bi, node["rv"]["op"]["c"].get("int")))
    return out


def slice_expected(ctx, rule):
    res = slice_table(ctx, rule)
    if res is None:
        return None
    table, roles = res
    fn = SLICE
    IDX = "try(Iterator::next(var:Enumerate<Iter<u8>>)).0"
    for (st, c), out in sorted(table.items()):
        key = "%d/%s" % (st, c)
        if st == 0 and c in ("junk", "other"):
            ctx.check(out["end"] == "stop" and out["next"] == 0 and not out["ret"], rule, fn, "t:" + key, "inside the header a %s byte is skipped" % c, detail=str(out)[:200])
        elif st == 0 and c == "cr":
            ctx.check(out["end"] == "stop" and out["next"] == 1 and not out["ret"], rule, fn, "t:" + key, "\\r makes the next byte mandatory \\n", detail=str(out)[:200])
        elif c == "lf":
            ok = out["end"] == "return" and any(v == "Ok" and sh == "Result::Ok{0:arg1[RangeFrom{start:%s}]}" % IDX for v, sh in out["ret"])
            ctx.check(ok, rule, fn, "t:" + key, "\\n ends the header: the rest from this byte on is returned", detail=str(out)[:300])
        else:
            ok = out["end"] == "return" and bool(out["err"]) and "ErrorKind::InvalidData{}" in out["err"][0] and any(v == "Err" for v, sh in out["ret"])
            ctx.check(ok, rule, fn, "t:" + key, "\\r not followed by \\n is rejected with io::ErrorKind::InvalidData", detail=str(out)[:300])
    # the pre-check: empty or non-junk first byte -> whole slice
    b = ctx.body(SLICE)
    oks = [(bi, q.shape(b.expr_of_rvalue(s["rv"]))) for bi, si, s, it in b.locations() if not it and s["k"] == "assign" and s["place"]["l"] == 0 and s["rv"]["k"] == "agg" and s["rv"].get("variant") == "Ok"]
    whole = [bi for bi, sh in oks if sh == "Result::Ok{0:arg1}"]
    ctx.check(len(whole) >= 1, rule, fn, "no-header", "without a junk first byte (or for empty input) the whole slice is returned")
    import absint as A
    for e, j, want in ((1, 0, True), (0, 0, True), (0, 1, False)):
        r = A.reach(b, 0, {"slice::is_empty(arg1)": e, "decoder::is_junk_json(arg1[0])": j})
        got = any(w in r for w in whole) and not any(h in r for h in [bi for bi, t in q.calls_to(b, "Iterator::next")])
        ctx.check(got == want, rule, fn, "pre:empty=%d,junk=%d" % (e, j), "input %s is %s" % ("empty" if e else ("starting with a junk byte" if j else "not starting with a junk byte"), "returned unchanged" if want else "scanned for the end of the header"))
    tail = [sh for bi, sh in oks if sh == "Result::Ok{0:arg1[RangeFrom{start:slice::len(arg1)}]}"]
    ctx.check(len(tail) == 1, rule, fn, "header-only", "a header without a newline yields the empty remainder")
    return table


def bisimilar(ctx, rule):
    """C12.R3: the two automata agree under Junk ~ need_newline=false, AwaitingNewline ~ true."""
    st = stream_table(ctx, rule)
    sl = slice_table(ctx, rule)
    if st is None or sl is None:
        return
    st, _ = st
    sl, _ = sl
    rel = {"Junk": 0, "AwaitingNewline": 1}
    inv = {0: "Junk", 1: "AwaitingNewline"}
    for s, code in rel.items():
        for c in CLASSES:
            a = st[(s, c)]
            b = sl[(code, c)]
            a_kind = "error" if a["err"] else ("done" if a["next"] == "PastHeader" else "continue")
            b_kind = "error" if b["err"] else ("done" if b["end"] == "return" else "continue")
            ok = a_kind == b_kind and (a_kind != "continue" or inv[b["next"]] == a["next"])
            ctx.check(ok, rule, "stream~slice", "%s/%s" % (s, c), "in state %s on a %s byte both strippers %s" % (s, c, {"error": "reject", "done": "leave the header", "continue": "stay in the header with related states"}[a_kind]),
                      detail="stream %s / slice %s" % (str(a)[:150], str(b)[:150]))


def chunk_independence(ctx, rule):
    """C12.R4: the only parsing state carried across bytes and reads is self.header_state."""
    b = ctx.body(STREAM)
    fn = b.path
    loops = dict(b.loops())
    heads = [bi for bi, t in q.calls_to(b, "Iterator::next")]
    reads = [bi for bi, t in q.calls_to(b, "Read::read")]
    if not ctx.check(len(heads) == 1 and len(reads) == 1, rule, fn, "loops", "one read loop with one byte loop inside"):
        return
    inner = min((len(bl), h) for h, bl in loops.items() if heads[0] in bl)[1]
    inner_blocks = loops[inner]
    written = set()
    for bi in inner_blocks:
        for s in b.blocks[bi]["stmts"]:
            if s["k"] == "assign" and not s["place"]["p"]:
                l = s["place"]["l"]
                if b.var_names.get(l) is not None and b.locals[l]["mut"]:
                    ds = b.defs.get(l, [])
                    if any(d[0] not in inner_blocks for d in ds):
                        written.add(b.var_names[l])
    written.discard("iter")
    ctx.check(not written, rule, fn, "no-local-state", "no local declared outside the byte loop is modified inside it (all parsing state lives in self.header_state)", detail=str(sorted(written)))
    # read == 0 => Ok(0)
    r = absint.reach(b, b.blocks[reads[0]]["term"]["t"], {})
    zero = [bi for bi, si, s, it in b.locations() if not it and s["k"] == "assign" and s["place"]["l"] == 0 and q.shape(b.expr_of_rvalue(s["rv"])) == "Result::Ok{0:0}"]
    ok = bool(zero) and all(has_fact(b, z, {}, ("Eq", "0", "try(Read::read(*))")) for z in zero)
    ctx.check(ok, rule, fn, "eof", "a read of 0 bytes (end of input) returns Ok(0)")
    # a chunk consumed entirely by the header loops to another read instead of returning Ok(0)
    iter_end = [tb for v, tb in b.blocks[b.blocks[heads[0]]["term"]["t"]]["term"].get("arms", []) if v == 0]
    ok = bool(iter_end) and b.reaches(iter_end[0], reads[0]) and not any(z in b.reachable_blocks(iter_end[0], avoid=[reads[0]]) for z in zero)
    ctx.check(ok, rule, fn, "header-consumed-chunk", "when a chunk is used up by the header the reader reads again instead of reporting end of input")
    vecs = [q.shape(b.expr_of_call(t)) for bi, t in b.calls() if q.nice(t.get("callee")) == "vec::from_elem"]
    ctx.check(vecs == ["vec::from_elem(0,slice::len(arg2))"], rule, fn, "backing", "the scratch buffer has exactly buf.len() bytes", detail=str(vecs))
    rd = [q.shape(b.expr_of_call(t)) for bi, t in q.calls_to(b, "Read::read")]
    ctx.check(len(rd) == 1 and rd[0].startswith("Read::read(arg1.r,"), rule, fn, "read:inner", "bytes are read from the wrapped reader into the scratch buffer")
    # pass-through once past the header
    rb = ctx.body("<decoder::StripHeaderReader<R> as std::io::Read>::read")
    pr = ctx.facts.promoted_of(rb.path, 0)
    pv = None
    if pr is not None:
        for bi, si, s, it in pr.locations():
            if not it and s["k"] == "assign" and s["rv"]["k"] == "agg":
                pv = s["rv"].get("variant")
    calls = [(bi, q.shape(rb.expr_of_call(t))) for bi, t in rb.calls()]
    direct = [bi for bi, c in calls if c == "Read::read(arg1.r,arg2)"]
    strip = [bi for bi, c in calls if c == "StripHeaderReader::strip_head_read(arg1,arg2)"]
    ok = pv == "PastHeader" and len(direct) == 1 and len(strip) == 1 and has_fact(rb, direct[0], {}, ("true", "HeaderState::eq(arg1.header_state,*)", None)) \
        and has_fact(rb, strip[0], {}, ("false", "HeaderState::eq(arg1.header_state,*)", None))
    if not ok and len(direct) == 1 and len(strip) == 1 and "PastHeader" in _adt_variants(ctx, "decoder::HeaderState"):
        # the same test written on the discriminant (`matches!`, `match`, `if let`)
        k = _adt_variants(ctx, "decoder::HeaderState").index("PastHeader")
        others = tuple(i for i in range(len(_adt_variants(ctx, "decoder::HeaderState"))) if i != k)
        ok = has_fact(rb, direct[0], {}, ("variant_in", "arg1.header_state", (k,)), ("variant_not_in", "arg1.header_state", others)) \
            and has_fact(rb, strip[0], {}, ("variant_not_in", "arg1.header_state", (k,)), ("variant_in", "arg1.header_state", others))
    ctx.check(ok, rule, rb.path, "pass-through", "reads go straight to the wrapped reader exactly when the state is PastHeader")
    nb = ctx.body("decoder::StripHeaderReader::<R>::new")
    lit = [q.shape(nb.expr_of_rvalue(s["rv"])) for bi, si, s, it in nb.locations() if not it and s["k"] == "assign" and s["rv"]["k"] == "agg" and s["rv"].get("adt", "").endswith("StripHeaderReader")]
    ctx.check(lit == ["StripHeaderReader{r:arg1,header_state:HeaderState::Undecided{}}"], rule, nb.path, "initial-state", "a new reader starts Undecided", detail=str(lit))


def convergence(ctx, rule):
    """C12.R1: reader and slice paths converge on the same raw type and decode_common."""
    d = ctx.body("decoder::decode")
    s = ctx.body("decoder::decode_slice")
    dc = [q.shape(d.expr_of_call(t)) for bi, t in d.calls() if t.get("resolved_local") or q.nice(t.get("callee")).startswith(("de::", "BufReader::"))]
    sc = [q.shape(s.expr_of_call(t)) for bi, t in s.calls() if t.get("resolved_local") or q.nice(t.get("callee")).startswith(("de::",))]
    ctx.check(dc == ["StripHeaderReader::new(arg1)", "BufReader::new(var:StripHeaderReader<R>)", "de::from_reader(var:BufReader<&mut StripHeaderReader<R>>)",
                     "decoder::decode_common(try(de::from_reader(var:BufReader<&mut StripHeaderReader<R>>)))"], rule, d.path, "pipeline",
              "decode = strip header (stream) -> buffered reader -> serde_json::from_reader -> decode_common, nothing else", detail=str(dc))
    ctx.check(sc == ["decoder::strip_junk_header(arg1)", "de::from_slice(try(decoder::strip_junk_header(arg1)))", "decoder::decode_common(try(de::from_slice(try(decoder::strip_junk_header(arg1)))))"], rule, s.path, "pipeline",
              "decode_slice = strip header (slice) -> serde_json::from_slice -> decode_common, nothing else", detail=str(sc))
    def target_ty(body, name):
        for bi, t in body.calls():
            if q.nice(t.get("callee")) == name:
                return [a for a in t.get("callee_args", []) if "jsontypes" in a]
        return None
    ctx.check(target_ty(d, "de::from_reader") == ["jsontypes::RawSourceMap"] and target_ty(s, "de::from_slice") == ["jsontypes::RawSourceMap"], rule, "decoder", "same-raw-type", "both parse into RawSourceMap")
    du = ctx.body("decoder::decode_data_url")
    calls = [q.shape(du.expr_of_call(t)) for bi, t in du.calls() if t.get("resolved_local")]
    ctx.check(len(calls) == 1 and q.wild("decoder::decode_slice(try(Result::map_err(Encoding::decode(data_encoding::BASE64,*),*)))", calls[0]), rule, du.path, "ends-in-decode_slice",
              "a data URL's payload - the base64-decoded bytes as they are, not trimmed, re-encoded or filtered - is decoded with decode_slice", detail=str(calls)[:300])
    i1 = ctx.body("detector::is_sourcemap_impl")
    i2 = ctx.body("detector::is_sourcemap_slice_impl")
    ctx.check(target_ty(i1, "de::from_reader") == ["jsontypes::MinimalRawSourceMap"] and target_ty(i2, "de::from_slice") == ["jsontypes::MinimalRawSourceMap"], rule, "detector", "same-minimal-type", "both detection paths parse into MinimalRawSourceMap")
    for body, strip in ((i1, "StripHeaderReader::new(arg1)"), (i2, "decoder::strip_junk_header(arg1)")):
        calls = [q.shape(body.expr_of_call(t)) for bi, t in body.calls()]
        ok = strip in calls and any(c.startswith("detector::is_sourcemap_common(") or (c.startswith("Result::map(de::from_") and c.endswith(",fn:detector::is_sourcemap_common)")) for c in calls)
        ctx.check(ok, rule, body.path, "strip+common", "the detection path strips the header and applies the shared predicate")
    for p, impl in (("detector::is_sourcemap", "detector::is_sourcemap_impl(arg1)"), ("detector::is_sourcemap_slice", "detector::is_sourcemap_slice_impl(arg1)")):
        b = ctx.body(p)
        calls = [q.shape(b.expr_of_call(t)) for bi, t in b.calls()]
        ok = calls == [impl, "Result::unwrap_or(%s,0)" % impl]
        if not ok and calls == [impl]:
            # `matches!(impl(..), Ok(true))`: true exactly on the Ok side with a true payload, false everywhere else
            ds = q.def_shapes(b, 0, {})
            ones = [site for sh, site, _ in ds if sh == "1"]
            ok = sorted(sh for sh, _, _ in ds) == ["0", "1"] and len(ones) == 1 and has_fact(b, ones[0][0], {}, ("true", "try(%s)" % impl, None)) and has_fact(b, ones[0][0], {}, ("variant_in", impl, (0,)))
        ctx.check(ok, rule, p, "unwrap_or(false)", "errors read as 'not a sourcemap' on both paths", detail=str(calls))
    pairs = [("types::SourceMap", "Regular"), ("types::SourceMapIndex", "Index"), ("hermes::SourceMapHermes", "Hermes"), ]
    for ty, variant in pairs:
        for kind, dec in (("from_reader", "decoder::decode"), ("from_slice", "decoder::decode_slice")):
            b = ctx.body("%s::%s" % (ty, kind))
            calls = [q.nice(t.get("callee")) for bi, t in b.calls() if t.get("resolved_local")]
            oks = [sh for sh, _, _ in q.def_shapes(b, 0, {}) if sh.startswith("Result::Ok{")]
            ok = calls == [q.nice(dec)] and len(oks) == 1 and ("%s(try(%s(arg1)))" % (variant.lower(), q.nice(dec))) in oks[0]
            ctx.check(ok, rule, b.path, "variant:%s" % variant, "%s::%s decodes with %s and accepts exactly the %s variant" % (ty.split("::")[-1], kind, q.nice(dec), variant), detail=str(oks))
