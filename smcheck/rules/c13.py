"""C13 - builder and in-place setters behave like a simple interning model."""
import pf
from rules import bldrules, encrules
from rules.common import run_rules

EXPLANATION = ("C13: (R1) both interning tables have the entry/or_insert(count)/push-iff-new shape; (R2) typestate of the "
               "root-joined name cache: who-may-write analysis of sources/source_root/sources_prefixed and, for every "
               "writer, the cache is rebuilt or patched on every path (R2b: the joining rule itself over all 16 predicate "
               "combinations); (R3) serialisation writes raw names + root; (R4) the builder hands file, tokens, names, raw "
               "sources, contents, root, debug id and ignore list to the map on every path; (R5) contents vectors are grown "
               "before the indexed write and add_with_id stores the interned ids."
               " (R7) SourceMapBuilder::new and (R7b) SourceMap::new store their arguments whole."
               " (R8) tokens are sorted after the last write; (R9) the decoded arrays reach the map whole on every Ok path.")
NOT_DECIDED = "full model equivalence over arbitrary call sequences (value-level)."


def r6(ctx):
    B = bldrules.B
    paths = [B + "add", B + "add_raw", B + "add_source", B + "add_name", B + "add_source_with_id", B + "add_with_id", B + "into_sourcemap", B + "get_source", B + "get_source_contents",
             "types::SourceMap::set_source_root", "types::SourceMap::prefix_source", "types::SourceMap::get_source", "types::SourceMap::new"]
    pf.check_bodies(ctx, "C13.R6", [ctx.body(p) for p in paths])


RULES = {
    # "repeated save/load cycles": the decoder hands the raw names to the map as they are in the document
    "C13.R9": lambda ctx: __import__("rules.decoderrules", fromlist=["x"]).handover(ctx, "C13.R9"),
    "C13.R8": lambda ctx: __import__("rules.typesrules", fromlist=["x"]).sort_after_write(ctx, "C13.R8"),
    "C13.RG": lambda ctx: __import__("rules.foundations", fromlist=["x"]).no_global_state(ctx, "C13.RG"),
    "C13.R7b": lambda ctx: __import__("rules.bldrules", fromlist=["x"]).map_new(ctx, "C13.R7b"),
    "C13.R7": lambda ctx: __import__("rules.bldrules", fromlist=["x"]).builder_new(ctx, "C13.R7"),
    "C13.RL": lambda ctx: __import__("rules.common", fromlist=["x"]).loop_exit_rule(ctx, "C13.RL", {'builder::SourceMapBuilder::into_sourcemap': 0}),
    "C13.R1": lambda ctx: bldrules.interning(ctx, "C13.R1"),
    "C13.R2": lambda ctx: bldrules.cache_coherence(ctx, "C13.R2"),
    "C13.R2b": lambda ctx: bldrules.prefix_source(ctx, "C13.R2b"),
    "C13.R3": lambda ctx: encrules.optional_keys(ctx, "C13.R3"),
    "C13.R4": lambda ctx: bldrules.into_sourcemap(ctx, "C13.R4"),
    "C13.R4b": lambda ctx: bldrules.plain_setters(ctx, "C13.R4b"),
    "C13.R4c": lambda ctx: bldrules.builder_calls(ctx, "C13.R4c"),
    "C13.R5": lambda ctx: bldrules.contents_resize(ctx, "C13.R5"),
    "C13.R5c": lambda ctx: bldrules.contents_predicates(ctx, "C13.R5c"),
    "C13.R5b": lambda ctx: bldrules.add_with_id(ctx, "C13.R5b"),
    "C13.R0": lambda ctx: __import__("rules.foundations", fromlist=["x"]).accessors(ctx, "C13.R0", None),
    "C13.R6": r6,
}


def check(ctx):
    run_rules(ctx, RULES)
