"""C18 (discovery, data URLs, detection) and C14 (Hermes) rules."""
import codecs

import absint
import pf
import q
from mir import Agg, Call, Const, Named, Var
from rules.common import expect_defs, has_fact, loop_passes, opt_fact, option_blocks, result_blocks

LOCATE = "detector::locate_sourcemap_reference"
P_NEW = "//# sourceMappingURL="
P_OLD = "//@ sourceMappingURL="


def _comment_scan_strip_prefix(ctx, rule, b):
    """The same scan written with `str::strip_prefix`: the prefix test and the cut are one call, so there is no
    index to get wrong; each prefix has its own literal."""
    fn = b.path
    sp = q.calls_to(b, "str::strip_prefix")
    line = sorted(set(q.root_local(q.arg_expr(b, t, 0)) for bi, t in sp) - {None})
    line = [l for l in line if b.local_ty(l).endswith("String")]
    if not ctx.check(len(line) == 1, rule, fn, "line", "each line of the input is examined"):
        return
    roles = {line[0]: "line"}
    shapes = sorted(q.shape(b.expr_of_call(t), roles) for bi, t in sp)
    A, B = "str::strip_prefix(line,%r)" % P_NEW, "str::strip_prefix(line,%r)" % P_OLD
    ctx.check(shapes == sorted([A, B]) and not q.calls_to(b, "str::starts_with"), rule, fn, "prefixes",
              "the scan recognises exactly '//# sourceMappingURL=' and '//@ sourceMappingURL='", detail=str(shapes))
    ctx.check(len(P_NEW) == 21 and len(P_OLD) == 21, rule, fn, "prefix-len", "both prefixes are 21 bytes long")
    lits = [(bi, s["rv"]["variant"], b.expr_of_rvalue(s["rv"])) for bi, si, s, it in b.locations() if not it and s["k"] == "assign" and s["rv"]["k"] == "agg" and s["rv"].get("adt") == "detector::SourceMapRef"]
    ctx.check(sorted(v for _, v, _ in lits) == ["LegacyRef", "Ref"], rule, fn, "variants", "a reference is reported as Ref or LegacyRef")
    heads = [hb for hb, t in q.calls_to(b, "Iterator::next")]
    rets = [r for r in b.return_blocks()]
    for bi, v, e in lits:
        P = B if v == "LegacyRef" else A
        ctx.check(q.shape(e.ops[0], roles) == "ToOwned::to_owned(str::trim(try(%s)))" % P, rule, fn, "trim", "the URL is what follows the prefix of that same line, trimmed", ctx.site(b, bi), detail=q.shape(e.ops[0], roles))
        ctx.check(has_fact(b, bi, roles, *opt_fact("some", P)), rule, fn, "legacy:%s" % v, "the '@' form and only it is flagged as legacy", ctx.site(b, bi))
        ctx.check(bool(heads) and not b.reaches(bi, heads[0]), rule, fn, "first-match:%s" % v, "the first matching line is returned (no further lines are read)", ctx.site(b, bi))
        # a line with the prefix always reaches the literal: from the Some edge nothing leads back to the loop or out before it
        for cb, t in sp:
            if q.shape(b.expr_of_call(t), roles) != P:
                continue
            sw = b.blocks[cb]["term"].get("t")
            tt = b.blocks[sw]["term"] if sw is not None else {}
            some_t = [tb for val, tb in tt.get("arms", []) if val == 1] if tt.get("k") == "switch" else []
            if not some_t and tt.get("k") == "switch" and any(val == 0 for val, _ in tt.get("arms", [])):
                some_t = [tt["otherwise"]]
            ok = bool(some_t)
            if ok:
                r = b.reachable_blocks(some_t[0], avoid=[bi])
                ok = not any(x in r for x in heads) and not any(x in r for x in rets if x != bi) and some_t[0] not in heads
            ctx.check(ok, rule, fn, "no-skip:%s" % v, "a line that starts with the prefix always reaches the reference literal (no further condition skips it)", ctx.site(b, cb))
    oks = [q.shape(b.expr_of_rvalue(s["rv"])) for bi, si, s, it in b.locations() if not it and s["k"] == "assign" and s["place"]["l"] == 0 and s["rv"]["k"] == "agg" and s["rv"].get("variant") == "Ok"]
    ctx.check("Result::Ok{0:Option::None{}}" in oks, rule, fn, "no-ref", "nothing is reported when no line begins that way")
    sb = ctx.body("detector::locate_sourcemap_reference_slice")
    calls = [q.shape(sb.expr_of_call(t)) for bi, t in sb.calls()]
    ctx.check(calls == ["detector::locate_sourcemap_reference(arg1)"], rule, sb.path, "slice-variant", "the slice variant runs the same scan", detail=str(calls))


def comment_scan(ctx, rule):
    b = ctx.body(LOCATE)
    fn = b.path
    if not q.calls_to(b, "str::starts_with") and q.calls_to(b, "str::strip_prefix"):
        return _comment_scan_strip_prefix(ctx, rule, b)
    line = sorted(set(q.root_local(q.arg_expr(b, t, 0)) for bi, t in q.calls_to(b, "str::starts_with")) - {None})
    line = [l for l in line if b.local_ty(l).endswith("String")]
    if not ctx.check(len(line) == 1, rule, fn, "line", "each line of the input is examined"):
        return
    roles = {line[0]: "line"}
    sw = [q.shape(b.expr_of_call(t), roles) for bi, t in q.calls_to(b, "str::starts_with")]
    main = [x for x in sw if x in ("str::starts_with(line,%r)" % P_NEW, "str::starts_with(line,%r)" % P_OLD)]
    rest = [x for x in sw if x not in main]
    legacy_consts = []
    for x in rest:
        m = __import__("re").match(r"^str::starts_with\(line,'(.*)'\)$", x)
        legacy_consts.append(m.group(1) if m else None)
    # the legacy test may use any constant that distinguishes the two prefixes
    leg_ok = len(legacy_consts) == 1 and legacy_consts[0] is not None and P_OLD.startswith(legacy_consts[0]) and not P_NEW.startswith(legacy_consts[0])
    ctx.check(sorted(main) == sorted(["str::starts_with(line,%r)" % P_NEW, "str::starts_with(line,%r)" % P_OLD]) and leg_ok, rule, fn, "prefixes",
              "the scan recognises exactly '//# sourceMappingURL=' and '//@ sourceMappingURL=' (plus one test that tells the legacy form apart)", detail=str(sw))
    LEG = rest[0] if rest else "?"
    ctx.check(len(P_NEW) == 21 and len(P_OLD) == 21, rule, fn, "prefix-len", "both prefixes are 21 bytes long")
    sl = [(bi, q.shape(b.expr_of_call(t), roles)) for bi, t in q.calls_to(b, "Index::index")]
    ctx.check([s for _, s in sl] in (["String::as_bytes(line)[RangeFrom{start:21}]"], ["line[RangeFrom{start:21}]"]), rule, fn, "slice:21", "the URL is what follows the 21 prefix bytes of that same line", detail=str(sl))
    A, B = "str::starts_with(line,%r)" % P_NEW, "str::starts_with(line,%r)" % P_OLD
    start = b.defs[line[0]][0][0]
    for a in (0, 1):
        for o in (0, 1):
            r = absint.reach(b, start, {A: a, B: o}, roles)
            hit = bool(sl) and sl[0][0] in r
            ctx.check(hit == bool(a or o), rule, fn, "dominance:new=%d,old=%d" % (a, o), "the slice is reached exactly when the line starts with one of the two prefixes")
            if (a or o) and sl:
                # ... and it cannot be missed: no other test sends a line with a prefix back to the loop head or out
                r2 = absint.reach(b, start, {A: a, B: o}, roles, stop=[sl[0][0]])
                heads = [hb for hb, t in q.calls_to(b, "Iterator::next")]
                esc = sorted(x for x in r2 if x in heads or x in b.return_blocks())
                ctx.check(bool(heads) and not esc, rule, fn, "no-skip:new=%d,old=%d" % (a, o),
                          "a line that starts with a prefix always reaches the URL slice (no further condition such as a minimum length skips it)", detail="escapes via bb%s" % esc)
    urls = [sh for l in sorted(b.var_names) for sh, _, _ in q.def_shapes(b, l, roles) if sh.startswith("ToOwned::to_owned(") or sh.startswith("str::trim(")]
    ctx.check(len(urls) == 1 and (q.wild("ToOwned::to_owned(str::trim(try(converts::from_utf8(String::as_bytes(*)[RangeFrom{start:21}]))))", urls[0])
                                  or urls[0] == "ToOwned::to_owned(str::trim(line[RangeFrom{start:21}]))"), rule, fn, "trim", "the URL is trimmed", detail=str(urls))
    lits = [(bi, s["rv"]["variant"]) for bi, si, s, it in b.locations() if not it and s["k"] == "assign" and s["rv"]["k"] == "agg" and s["rv"].get("adt") == "detector::SourceMapRef"]
    ok = sorted(v for _, v in lits) == ["LegacyRef", "Ref"]
    ctx.check(ok, rule, fn, "variants", "a reference is reported as Ref or LegacyRef")
    for bi, v in lits:
        f = ("true" if v == "LegacyRef" else "false", LEG, None)
        ctx.check(has_fact(b, bi, roles, f), rule, fn, "legacy:%s" % v, "the '@' form and only it is flagged as legacy", ctx.site(b, bi))
        # first match returns: from the literal the loop head is not reachable
        head = [hb for hb, t in q.calls_to(b, "Iterator::next")]
        ctx.check(bool(head) and not b.reaches(bi, head[0]), rule, fn, "first-match:%s" % v, "the first matching line is returned (no further lines are read)", ctx.site(b, bi))
    oks = [q.shape(b.expr_of_rvalue(s["rv"])) for bi, si, s, it in b.locations() if not it and s["k"] == "assign" and s["place"]["l"] == 0 and s["rv"]["k"] == "agg" and s["rv"].get("variant") == "Ok"]
    ctx.check("Result::Ok{0:Option::None{}}" in oks, rule, fn, "no-ref", "nothing is reported when no line begins that way")
    sb = ctx.body("detector::locate_sourcemap_reference_slice")
    calls = [q.shape(sb.expr_of_call(t)) for bi, t in sb.calls()]
    ctx.check(calls == ["detector::locate_sourcemap_reference(arg1)"], rule, sb.path, "slice-variant", "the slice variant runs the same scan", detail=str(calls))


def _bytes_literal(s):
    """Decode a rust byte-string literal b"..." as printed in constants."""
    if s.startswith("const "):
        s = s[6:]
    if not (s.startswith('b"') and s.endswith('"')):
        return None
    return codecs.escape_decode(s[2:-1])[0]


def format_prefix(body):
    """Literal text preceding the first argument of a format!/write! in the body."""
    for bi, t in body.calls():
        if q.nice(t.get("callee")) == "Arguments::new":
            for x in q.arg_expr(body, t, 0).walk():
                if isinstance(x, Const):
                    raw = _bytes_literal(x.s)
                    if raw:
                        n = raw[0]
                        return raw[1:1 + n].decode("utf-8", "replace")
    return None


def promoted_consts(facts, path, idx):
    pb = facts.promoted_of(path, idx)
    out = []
    if pb is None:
        return out
    for bi, si, s, it in pb.locations():
        if not it and s["k"] == "assign":
            out.append(q.shape(pb.expr_of_rvalue(s["rv"])))
    return out


def data_url_pairing(ctx, rule):
    f = ctx.facts
    prod = ctx.body("types::SourceMap::to_data_url")
    prefix = format_prefix(prod)
    ctx.check(prefix is not None and prefix.startswith("data:") and prefix.endswith(";base64,"), rule, prod.path, "producer:prefix", "to_data_url writes a base64 data URL prefix", detail=str(prefix))
    cons = ctx.body("decoder::decode_data_url")
    accepted = []
    for body in [cons] + list(f.closures_of(cons.path)):
        for bi, t in body.calls():
            if q.nice(t.get("callee")) in ("str::strip_prefix", "str::starts_with"):
                a = q.arg_expr(body, t, 1)
                while isinstance(a, Named):
                    a = a.x
                a = a.strip() if hasattr(a, "strip") else a
                if isinstance(a, Const):
                    if a.c.get("uneval") and a.c["uneval"] in f.consts:
                        cb = bytes(f.consts[a.c["uneval"]]["alloc"]["bytes"])
                        accepted.append(cb.decode("utf-8", "replace"))
                    elif a.str_value() is not None:
                        accepted.append(a.str_value())
    ctx.check(bool(accepted), rule, cons.path, "consumer:prefixes", "decode_data_url tests the URL against constant preambles", detail=str(accepted))
    ctx.check(prefix in accepted, rule, "to_data_url->decode_data_url", "pairing",
              "the preamble the library writes is one the library's own decoder accepts", detail="producer %r, consumer accepts %r" % (prefix, accepted))
    ctx.check("data:application/json;base64," in accepted, rule, cons.path, "plain-preamble", "the plain 'data:application/json;base64,' form is accepted")
    # payload after the matched prefix goes to the base64 decoder, standard alphabet on both sides
    enc = [q.shape(prod.expr_of_call(t)) for bi, t in prod.calls() if q.nice(t.get("callee")) == "Base64::encode_to_boxed_str"]
    pcs = []
    for bi, t in prod.calls():
        if q.nice(t.get("callee")) == "Base64::encode_to_boxed_str":
            for x in q.arg_expr(prod, t, 0).walk():
                if isinstance(x, Const) and x.c.get("promoted") is not None:
                    pcs = promoted_consts(f, prod.path, x.c["promoted"])
    ctx.check(len(enc) == 1 and any("STANDARD" in p for p in pcs), rule, prod.path, "producer:alphabet", "the payload is encoded with the standard padded base64 alphabet (base64_simd STANDARD)", detail=str(pcs))
    dec = [q.shape(cons.expr_of_call(t)) for bi, t in cons.calls() if q.nice(t.get("callee")) == "Encoding::decode"]
    ctx.check(len(dec) == 1 and dec[0].startswith("Encoding::decode(data_encoding::BASE64,str::as_bytes("), rule, cons.path, "consumer:alphabet", "the payload is decoded with the standard padded alphabet (data_encoding BASE64)", detail=str(dec)[:200])
    encs = [q.shape(prod.expr_of_call(t)) for bi, t in q.calls_to(prod, "encoder::encode")]
    if not encs:
        # ... through the map's own to_writer (which is encode, C01.R6w / C03.R6)
        encs = [q.shape(prod.expr_of_call(t)).replace("SourceMap::to_writer(", "encoder::encode(", 1) for bi, t in q.calls_to(prod, "types::SourceMap::to_writer")]
    ctx.check(len(encs) == 1 and encs[0].startswith("encoder::encode(arg1,"), rule, prod.path, "producer:payload", "the payload is the serialised map")
    fails = [bi for bi, si in q.err_variant_constructions(cons, "InvalidDataUrl")]
    ctx.check(bool(fails), rule, cons.path, "InvalidDataUrl", "other URLs are rejected with InvalidDataUrl")


def embedded(ctx, rule):
    b = ctx.body("detector::SourceMapRef::get_embedded_sourcemap")
    calls = [(bi, q.shape(b.expr_of_call(t))) for bi, t in q.calls_to(b, "decoder::decode_data_url")]
    ok = len(calls) == 1 and calls[0][1] == "decoder::decode_data_url(SourceMapRef::get_url(arg1))" and has_fact(b, calls[0][0], {}, ("true", "str::starts_with(SourceMapRef::get_url(arg1),'data:')", None))
    if not ok:
        # `url.starts_with("data:").then(|| decode_data_url(url)).transpose()`
        rets = [sh.replace("^", "") for sh, _, _ in q.def_shapes(b, 0, {})]
        ok = rets == ["Option::transpose(bool::then(str::starts_with(SourceMapRef::get_url(arg1),'data:'),\u03bb(decoder::decode_data_url(SourceMapRef::get_url(arg1)))))"]
    ctx.check(ok, rule, b.path, "data:->decode", "a reference whose URL starts with 'data:' is decoded with decode_data_url", detail=str(calls))
    g = ctx.body("detector::SourceMapRef::get_url")
    rets = sorted(q.shape(g.expr_of_call(t)) for bi, t in g.calls())
    ok = rets == ["String::as_str(legacyref(arg1))", "String::as_str(ref(arg1))"]
    if not ok and len(rets) == 1:
        # one arm for both variants (`Ref(url) | LegacyRef(url) => url.as_str()`)
        t0 = [t for bi, t in g.calls()][0]
        src = q.root_local(q.arg_expr(g, t0, 0))
        ds = sorted(sh for sh, _, _ in q.def_shapes(g, src, {})) if src is not None else []
        ok = q.nice(t0.get("callee")) in ("String::as_str", "Deref::deref", "String::as_ref") and ds == ["legacyref(arg1)", "ref(arg1)"]
        rets = rets + ds
    ctx.check(ok, rule, g.path, "get_url", "get_url returns the stored URL of either form", detail=str(rets))


def detection(ctx, rule):
    """C18.R4: the detection predicate is true for everything the three writers always write."""
    from rules import encrules
    pred = ctx.body("detector::is_sourcemap_common")
    fields = ["version", "file", "sources", "source_root", "sources_content", "sections", "names", "mappings"]
    seen = sorted(q.shape(pred.expr_of_call(t)) for bi, t in pred.calls())
    ctx.check(seen == sorted("Option::is_some(arg1.%s)" % f for f in fields), rule, pred.path, "inputs", "the predicate looks at the presence of the eight detection keys", detail=str(seen))

    def always(path):
        b = ctx.body(path)
        agg = encrules.raw_aggregate(b)
        return set(f for f, op in zip(agg[2].fields, agg[2].ops) if q.shape(op).startswith("Option::Some{")) if agg else set()

    for kind in ("regular", "index"):
        aw = always(encrules.AS_RAW[kind])
        env = absint._ArgEnv(1, 0)
        env2 = {"Option::is_some(arg1.%s)" % f: (1 if f in aw else 0) for f in fields}
        res = absint.eval_pred(pred, env2)
        ctx.check(res == 1, rule, pred.path, "recognises:%s" % kind, "a serialised %s map (keys always written: %s) is recognised even when every optional key is absent" % (kind, sorted(aw & set(fields))), detail=str(res))
    # full truth table vs the documented formula
    bad = []
    n = 0
    for m in range(256):
        vals = {f: (m >> i) & 1 for i, f in enumerate(fields)}
        env2 = {"Option::is_some(arg1.%s)" % f: v for f, v in vals.items()}
        got = absint.eval_pred(pred, env2)
        want = int(((vals["version"] or vals["file"]) and ((vals["sources"] or vals["source_root"] or vals["sources_content"] or vals["names"]) and vals["mappings"])) or vals["sections"])
        n += 1
        if got != want:
            bad.append(m)
    ctx.check(not bad, rule, pred.path, "truth-table", "over all 256 presence combinations: (version|file) & (sources|sourceRoot|sourcesContent|names) & mappings, or sections", detail=str(bad[:8]))
    ctx.count("detection_combinations", n)
    from rules.common import str_array_const
    mn = [v for k, v in ctx.facts.consts.items() if k.endswith("for jsontypes::MinimalRawSourceMap>::deserialize::FIELDS")]
    rw = [v for k, v in ctx.facts.consts.items() if k.endswith("for jsontypes::RawSourceMap>::deserialize::FIELDS")]
    a = str_array_const(mn[0]) if mn else []
    bb = str_array_const(rw[0]) if rw else []
    ctx.check(bool(a) and set(a) <= set(bb), rule, "jsontypes::MinimalRawSourceMap", "keys-subset", "the detection struct's keys are a subset of the map's keys (same renames)", detail=str(a))
    # each probe field accepts every value the writer can produce for that key: it ignores the
    # value's type altogether, or it has the very type the writer serialises
    mf = {f["name"]: f["ty"] for f in ctx.facts.adts.get("jsontypes::MinimalRawSourceMap", {"variants": [{"fields": []}]})["variants"][0]["fields"]}
    rf = {f["name"]: f["ty"] for f in ctx.facts.adts.get("jsontypes::RawSourceMap", {"variants": [{"fields": []}]})["variants"][0]["fields"]}
    ctx.check(sorted(mf) == sorted(fields), rule, "jsontypes::MinimalRawSourceMap", "probe-fields", "the detection struct has the eight probe fields", detail=str(sorted(mf)))
    for name, ty in sorted(mf.items()):
        anyty = ty in ("core::option::Option<serde_core::de::ignored_any::IgnoredAny>", "core::option::Option<serde::de::IgnoredAny>", "core::option::Option<serde_json::value::Value>", "core::option::Option<serde_json::Value>")
        ctx.check(anyty or ty == rf.get(name), rule, "jsontypes::MinimalRawSourceMap", "probe-type:%s" % name,
                  "the probe accepts any value the writer emits for %s (ignores the value, or has the writer's own type)" % name, detail="%s vs writer %s" % (ty, rf.get(name)))


# ------------------------------------------------------------------------------------------------
# C14 Hermes
HCL = "hermes::decode_hermes::{closure#0}"
SCOPE = "hermes::SourceMapHermes::get_scope_for_token"


def hermes_state(ctx, rule):
    b = ctx.body(HCL)
    fn = b.path
    aggs = [(bi, b.expr_of_rvalue(s["rv"])) for bi, si, s, it in b.locations() if not it and s["k"] == "assign" and s["rv"]["k"] == "agg" and s["rv"].get("adt") == "hermes::HermesScopeOffset"]
    if not ctx.check(len(aggs) == 1, rule, fn, "literal", "scope offsets are built at one place"):
        return
    ab, a = aggs[0]
    col, nm, ln = q.root_local(a.field("column")), q.root_local(a.field("name_index")), q.root_local(a.field("line"))
    if not ctx.check(None not in (col, nm, ln) and len({col, nm, ln}) == 3, rule, fn, "roles", "column, name index and line are three running variables"):
        return
    roles = {col: "COL", nm: "NAME", ln: "LINE"}
    loops = dict(b.loops())
    # the two loops, recognised by what they iterate over (split on ';' / ','), with or without a
    # `.filter(|s| !s.is_empty())` adapter in place of the `if s.is_empty() { continue }` guard
    NONEMPTY = "\u03bb(Not(str::is_empty(p1)))"
    its_ = {}
    filtered = {}
    for l in range(len(b.locals)):
        for sh, site, _ in q.def_shapes(b, l, {}):
            for sep, nm_ in ((59, "LINES"), (44, "SEGS")):
                if q.wild("IntoIterator::into_iter(str::split(*,%d))" % sep, sh):
                    its_[l] = nm_
                    filtered[nm_] = False
                elif q.wild("IntoIterator::into_iter(Iterator::filter(str::split(*,%d),%s))" % (sep, NONEMPTY), sh):
                    its_[l] = nm_
                    filtered[nm_] = True
    roles.update(its_)
    heads = [bi for bi, t in q.calls_to(b, "Iterator::next") if q.shape(q.arg_expr(b, t, 0), roles) in ("LINES", "SEGS")]
    if not ctx.check(len(heads) == 2 and sorted(set(its_.values())) == ["LINES", "SEGS"], rule, fn, "loops", "a ';' loop with a ',' loop inside"):
        return
    sizes = sorted((len(loops[min((len(bl), h) for h, bl in loops.items() if hd in bl)[1]]), hd) for hd in heads)
    inner_h, outer_h = sizes[0][1], sizes[1][1]
    inner = loops[min((len(bl), h) for h, bl in loops.items() if inner_h in bl)[1]]
    outer = loops[min((len(bl), h) for h, bl in loops.items() if outer_h in bl)[1]]
    NEXT = "Iterator::next(var:Copied<Iter<i64>>)"
    NUMS = "^var:Vec<i64>"
    V0, V1, V2 = "%s[0]" % NUMS, "Option::unwrap_or(slice::get(%s,1),0)" % NUMS, "Option::unwrap_or(slice::get(%s,2),0)" % NUMS
    indexed = any(sh in ("cast<u32>(Add(%s,from<i64>(COL)))" % V0, "cast<u32>(Add(from<i64>(COL),%s))" % V0) for sh, _, _ in q.def_shapes(b, col, roles))
    if indexed:
        # the three values taken by position (first()? / get(1) / get(2)) instead of through an iterator over the segment
        fc = expect_defs(ctx, rule, b, col, roles, {"0": "zero", "cast<u32>(Add(%s,from<i64>(COL)))" % V0: "acc", "cast<u32>(Add(from<i64>(COL),%s))" % V0: "acc"}, ["zero", "acc"], "column")
        fn_ = expect_defs(ctx, rule, b, nm, roles, {"0": "zero", "cast<u32>(Add(%s,from<i64>(NAME)))" % V1: "acc", "cast<u32>(Add(from<i64>(NAME),%s))" % V1: "acc"}, ["zero", "acc"], "name index")
        fl = expect_defs(ctx, rule, b, ln, roles, {"1": "one", "cast<u32>(Add(%s,from<i64>(LINE)))" % V2: "acc", "cast<u32>(Add(from<i64>(LINE),%s))" % V2: "acc"}, ["one", "acc"], "line")
    else:
        fc = expect_defs(ctx, rule, b, col, roles, {"0": "zero", "cast<u32>(Add(from<i64>(COL),try(%s)))" % NEXT: "acc"}, ["zero", "acc"], "column")
        fn_ = expect_defs(ctx, rule, b, nm, roles, {"0": "zero", "cast<u32>(Add(Option::unwrap_or(%s,0),from<i64>(NAME)))" % NEXT: "acc", "cast<u32>(Add(from<i64>(NAME),Option::unwrap_or(%s,0)))" % NEXT: "acc"}, ["zero", "acc"], "name index")
        fl = expect_defs(ctx, rule, b, ln, roles, {"1": "one", "cast<u32>(Add(Option::unwrap_or(%s,0),from<i64>(LINE)))" % NEXT: "acc", "cast<u32>(Add(from<i64>(LINE),Option::unwrap_or(%s,0)))" % NEXT: "acc"}, ["one", "acc"], "line")
    for site in fc.get("zero", []):
        ctx.check(site[0] in outer and site[0] not in inner, rule, fn, "column:reset-per-line", "the column restarts at 0 for every ';' piece, not per segment", ctx.site(b, *site))
    for lab, found in (("name index", fn_.get("zero", [])), ("line", fl.get("one", []))):
        for site in found:
            ctx.check(site[0] not in outer, rule, fn, "%s:global" % lab, "the %s state is initialised once, before both loops" % lab, ctx.site(b, *site))
    # order of the three next() calls: column, name index, line
    order = []
    for lab, found in (("column", fc), ("name", fn_), ("line", fl)):
        for site in found.get("acc", []):
            order.append((len(b.dominators_of(site[0])), lab))
    ctx.check(indexed or [l for _, l in sorted(order)] == ["column", "name", "line"], rule, fn, "order", "the segment's values are consumed in the order column, name index, line (Metro's format)", detail=str(sorted(order)))
    # every non-empty, parsable segment yields one offset
    pushes = [bi for bi, t in q.calls_to(b, "Vec::<T, A>::push") if q.shape(q.arg_expr(b, t, 1), roles).startswith("HermesScopeOffset{")]
    empt = [d for d in range(len(b.blocks)) if b.blocks[d]["term"]["k"] == "switch" and d in inner and q.shape(b.expr_of_operand(b.blocks[d]["term"]["discr"]), roles) == "str::is_empty(try(Iterator::next(SEGS)))"]
    pcalls = [bi for bi, t in q.calls_to(b, "vlq::parse_vlq_segment_into")]
    if filtered.get("SEGS"):
        body_entry = [tb for v, tb in b.blocks[b.blocks[inner_h]["term"]["t"]]["term"].get("arms", []) if v == 1]
        if ctx.check(len(pushes) == 1 and not empt and bool(body_entry), rule, fn, "push+empty-test", "one push per segment, empty segments filtered out by the iterator"):
            ctx.check(loop_passes(b, body_entry[0], inner_h, pushes), rule, fn, "segment:no-skip", "every non-empty segment that parses contributes an offset (no segment is dropped)")
            ctx.ok(rule, fn, "segment:empty-skipped", "an empty segment is skipped, not parsed (the segment iterator filters empty pieces)")
    elif ctx.check(len(pushes) == 1 and len(empt) == 1, rule, fn, "push+empty-test", "one push per segment, empty segments tested once"):
        nonempty = [tb for v, tb in b.blocks[empt[0]]["term"]["arms"] if v == 0]
        ctx.check(bool(nonempty) and loop_passes(b, nonempty[0], inner_h, pushes), rule, fn, "segment:no-skip", "every non-empty segment that parses contributes an offset (no segment is dropped)")
        ctx.check(len(pcalls) == 1 and any(c.bb == empt[0] and c.truth() is False for c in q.path_conditions(b, pcalls[0])), rule, fn, "segment:empty-skipped",
                  "an empty segment is skipped, not parsed (parsing it would fail and disable the whole function map)")
    its = [sh for l in sorted(b.var_names) for sh, _, _ in q.def_shapes(b, l, roles) if sh == "slice::iter(^var:Vec<i64>)"]
    ctx.check(len(its) == 1 or indexed, rule, fn, "nums-iter", "the values are read in order from the parsed segment")
    parse = [q.shape(b.expr_of_call(t)) for bi, t in b.calls() if q.nice(t.get("callee")) == "Result::ok"]
    parse = [q.shape(b.expr_of_call(t), roles) for bi, t in b.calls() if q.nice(t.get("callee")) == "Result::ok"]
    ctx.check(parse == ["Result::ok(vlq::parse_vlq_segment_into(try(Iterator::next(SEGS)),^var:Vec<i64>))"], rule, fn, "parse-error->None",
              "a segment that fails to parse disables scope lookup for this source only (.ok()? inside the per-source closure)", detail=str(parse))
    lit = [q.shape(b.expr_of_rvalue(s["rv"]), roles) for bi, si, s, it in b.locations() if not it and s["k"] == "assign" and s["rv"]["k"] == "agg" and s["rv"].get("adt") == "hermes::HermesFunctionMap"]
    ENTRY = "try(Iterator::next(slice::iter(try(arg2))))"
    if any("try(arg2)[0]" in x for x in lit):
        ENTRY = "try(arg2)[0]"  # `.first()?` instead of `.iter().next()?`
    pv = [q.root_local(q.arg_expr(b, t, 0)) for bi, t in q.calls_to(b, "Vec::<T, A>::push") if q.shape(q.arg_expr(b, t, 1), roles).startswith("HermesScopeOffset{")]
    lroles = dict(roles)
    if len(pv) == 1 and pv[0] is not None:
        lroles[pv[0]] = "OFFSETS"
    lit = [q.shape(b.expr_of_rvalue(s["rv"]), lroles) for bi, si, s, it in b.locations() if not it and s["k"] == "assign" and s["rv"]["k"] == "agg" and s["rv"].get("adt") == "hermes::HermesFunctionMap"]
    ctx.check(lit == ["HermesFunctionMap{names:%s.names,mappings:OFFSETS}" % ENTRY], rule, fn, "function-map",
              "the names of the source's first scope entry and the offsets decoded in this call form the function map", detail=str(lit)[:300])
    sp = [q.shape(b.expr_of_call(t), roles) for bi, t in q.calls_to(b, "str::<impl str>::split")]
    ctx.check(sorted(sp) == sorted(["str::split(%s.mappings,59)" % ENTRY, "str::split(try(Iterator::next(LINES)),44)"]), rule, fn, "mappings:same-entry",
              "the decoded text is the mappings string of that same entry, split on ';', each piece split on ','", detail=str(sp))
    # what the per-source step answers is what it built from this entry: its Some results are the one literal made of this
    # entry's names and the offsets decoded in this invocation (no map remembered from an earlier source is handed out)
    somes = [sh for sh, _, _ in q.def_shapes(b, 0, {}) if not sh.startswith("FromResidual::from_residual(") and sh != "Option::None{}"]
    ok = len(somes) == 1 and q.wild("Option::Some{0:HermesFunctionMap{names:%s.names,mappings:var:Vec<HermesScopeOffset>}}" % ENTRY, somes[0])
    ctx.check(ok, rule, fn, "result:built-here", "the function map returned for a source is built from that source's entry in this very step", detail=str(somes)[:300])
    # ... and a source's function map is given up (None) only for the reviewed reasons: no entry, an unparsable segment, a
    # segment without a column. Anything else (a range check that abandons the whole map for one odd entry) changes answers
    import re as _re
    nones = []
    for sh, _, _ in q.def_shapes(b, 0, {}):
        if sh.startswith("FromResidual::from_residual("):
            m = _re.search(r"Try::branch\(([\w:]+)\(", sh)
            nones.append(m.group(1) if m else sh[:50])
        elif sh == "Option::None{}":
            nones.append("explicit None")
    allowed_n = {"Option::as_ref", "Iterator::next", "slice::first", "Result::ok"}
    ctx.check(set(nones) <= allowed_n, rule, fn, "none:exact", "the function map of a source is abandoned only when the entry is missing, a segment does not parse or a segment has no column",
              detail=str(sorted(set(nones) - allowed_n)))
    h = ctx.body("hermes::decode_hermes")
    from rules.common import residual_blocks as _rb, result_blocks as _resb
    exits = len(set(_rb(h))) + len(set(_resb(h, "Err")))
    ctx.check(exits == 2, rule, h.path, "two-?", "decode_hermes itself fails only for a missing payload or a failing regular decode (two error exits)", detail=str(exits))
    fm = [sh for l in sorted(h.var_names) for sh, _, _ in q.def_shapes(h, l, {}) if "closure:decode_hermes::{closure#0}" in sh and sh.startswith("Iterator::collect(")]
    ctx.check(len(fm) == 1 and q.wild("Iterator::collect(Iterator::map(slice::iter(*x_facebook_sources*),closure:decode_hermes::{closure#0}))", fm[0]), rule, h.path, "one-per-source",
              "one function map (or None) per x_facebook_sources entry, in order", detail=str(fm)[:200])
    # ... and that list is what the map keeps: stored as collected, never cleared, truncated or edited afterwards
    fml = [l for l in sorted(h.var_names) for sh, _, _ in q.def_shapes(h, l, {}) if "closure:decode_hermes::{closure#0}" in sh and sh.startswith("Iterator::collect(")]
    lits = [h.expr_of_rvalue(s_["rv"]) for bi, si, s_, it in h.locations() if not it and s_["k"] == "assign" and s_["rv"]["k"] == "agg" and s_["rv"].get("adt") == "hermes::SourceMapHermes"]
    if ctx.check(len(fml) == 1 and len(lits) == 1, rule, h.path, "function_maps:stored", "decode_hermes builds one SourceMapHermes from the collected function maps"):
        from rules.common import mut_borrow_users
        same = q.root_local(lits[0].field("function_maps")) == fml[0]
        users = sorted(set(c for _, c in mut_borrow_users(h, fml[0])))
        ctx.check(same and not users, rule, h.path, "function_maps:as-collected", "the function maps are stored exactly as collected (one per entry; not cleared or edited when the table and `sources` differ in length)", detail=str(users))


def hermes_lookup(ctx, rule):
    from rules.common import facts_keys
    b = ctx.body(SCOPE)
    fn = b.path
    fmv = [l for l in sorted(b.var_names) if b.var_names[l] not in ("val", "residual") and any(sh.startswith("try(try(slice::get(arg1.function_maps,") for sh, _, _ in q.def_shapes(b, l, {}))]
    if len(fmv) > 1:
        fmv = fmv[:1]  # further names of the same value (the `self` of an inlined helper method)
    if not ctx.check(len(fmv) == 1, rule, fn, "function_map", "the token's function map is looked up"):
        return
    roles = {fmv[0]: "fm"}
    d = [sh for sh, _, _ in q.def_shapes(b, fmv[0], {})]
    ctx.check(d == ["try(try(slice::get(arg1.function_maps,cast<usize>(arg2.raw.src_id))))"], rule, fn, "by-src-id",
              "the function map is function_maps.get(src_id)?.as_ref()? (nothing when the source has none)", detail=str(d))
    calls = [(bi, b.expr_of_call(t)) for bi, t in b.calls() if q.callee_matches(t, "utils::greatest_lower_bound")]
    if not ctx.check(len(calls) == 1, rule, fn, "glb", "one greatest_lower_bound lookup"):
        return
    c = calls[0][1]
    ctx.check(q.shape(c.args[0], roles) == "fm.mappings", rule, fn, "glb:haystack", "the lookup runs over that map's offsets", detail=q.shape(c.args[0], roles))
    key = q.shape(c.args[1], roles)
    ctx.check(key in ("tuple(try(u32::checked_add(arg2.raw.src_line,1)),Token::get_src_col(arg2))", "tuple(u32::saturating_add(arg2.raw.src_line,1),Token::get_src_col(arg2))"), rule, fn, "glb:key",
              "the key is (original line + 1 [1-based], original column), computed without overflow", detail=key)
    cl = None
    for x in c.args[2].walk():
        if isinstance(x, Agg) and x.ak == "closure":
            cl = ctx.facts.body(x.closure)
    from rules.typesrules import closure_ret_shape
    ok = cl is not None and closure_ret_shape(cl) == ["tuple(arg2.line,arg2.column)"]
    ok = ok or q.shape(c.args[2], roles) == "\u03bb(tuple(p1.line,p1.column))"  # the same key as a simple closure or fn item
    ctx.check(ok, rule, fn, "glb:order", "offsets are ordered by (line, column), the same order as the key", detail=q.shape(c.args[2], roles))
    nm = [q.shape(b.expr_of_call(t), roles) for bi, t in b.calls() if q.nice(t.get("callee")) == "slice::get" and ".names" in q.shape(b.expr_of_call(t), roles)]
    ok = len(nm) == 1 and q.wild("slice::get(fm.names,cast<usize>(try(utils::greatest_lower_bound(*)).1.name_index))", nm[0])
    ctx.check(ok, rule, fn, "name", "the name is names.get(mapping.name_index) (non-panicking)", detail=str(nm)[:200])
    # nothing is answered only for the reviewed reasons: no function map for the source, line + 1 not representable, no
    # entry at or before the position, name index out of range - and never for a reason of its own (e.g. who made the token)
    from rules.common import opt_fact as _of
    REASONS = ("slice::get(arg1.function_maps,", "Option::as_ref(", "u32::checked_add(arg2.raw.src_line,1)", "utils::greatest_lower_bound(", "slice::get(fm.names,")
    for sh, site, _e in q.def_shapes(b, 0, roles):
        if sh.startswith("FromResidual::from_residual(break(Try::branch("):
            inner = sh[len("FromResidual::from_residual(break(Try::branch("):]
            ok = inner.startswith(REASONS[:4])
        elif sh == "Option::None{}":
            from rules.common import given_up_for
            ok = given_up_for(b, site[0], roles, REASONS + ("try(slice::get(arg1.function_maps,",))
        else:
            ok = sh.startswith(("Option::map(slice::get(fm.names,", "Option::Some{", "slice::get(fm.names,", "try(", "Option::and_then(", "Option::map("))
        ctx.check(ok, rule, fn, "none:only-reviewed", "nothing is returned only when the source has no function map, no entry lies at or before the position or the name index does not resolve", ctx.site(b, *site), detail=sh[:200])
    g = ctx.body("hermes::SourceMapHermes::get_original_function_name")
    calls = [q.shape(g.expr_of_call(t)) for bi, t in g.calls() if t.get("resolved_local")]
    LK = "SourceMap::lookup_token(arg1.sm,0,arg2)"
    ok = calls == [LK, "SourceMapHermes::get_scope_for_token(arg1,try(%s))" % LK]
    if not ok:
        # `lookup(..).and_then(|token| self.get_scope_for_token(token))`
        allc = [q.shape(g.expr_of_call(t)).replace("^", "") for bi, t in g.calls()]
        ok = calls == [LK] and "Option::and_then(%s,\u03bb(SourceMapHermes::get_scope_for_token(arg1,p1)))" % LK in allc
    ctx.check(ok, rule, g.path, "bytecode-offset",
              "a bytecode offset is looked up as (line 0, column offset) and resolved through the scope lookup", detail=str(calls))
    dm = ctx.body("types::DecodedMap::get_original_function_name")
    hc = [(bi, q.shape(dm.expr_of_call(t))) for bi, t in dm.calls() if q.nice(t.get("callee")) == "SourceMapHermes::get_original_function_name"]
    ok = len(hc) == 1 and hc[0][1] == "SourceMapHermes::get_original_function_name(hermes(arg1),arg3)" and has_fact(dm, hc[0][0], {}, ("Eq", "0", "arg2"))
    ctx.check(ok, rule, dm.path, "hermes-arm", "for Hermes maps only line 0 resolves, with the column as bytecode offset", detail=str(hc))
    others = sorted(q.shape(dm.expr_of_call(t)) for bi, t in dm.calls() if t.get("resolved_local") and "Hermes" not in q.shape(dm.expr_of_call(t)))
    ctx.check(others == ["SourceMap::get_original_function_name(regular(arg1),arg2,arg3,try(arg4),try(arg5))", "SourceMapIndex::get_original_function_name(index(arg1),arg2,arg3,try(arg4),try(arg5))"], rule, dm.path, "other-arms",
              "regular and index maps forward position, name and view unchanged", detail=str(others))


def hermes_pf(ctx, rule):
    paths = [SCOPE, "hermes::SourceMapHermes::get_original_function_name", "hermes::decode_hermes", HCL, "types::DecodedMap::get_original_function_name",
             "<hermes::SourceMapHermes as core::ops::deref::Deref>::deref"]
    pf.check_bodies(ctx, rule, [ctx.body(p) for p in paths] + list(ctx.facts.closures_of(SCOPE)))
