"""C03 - encoder output is valid v3 that any conforming reader decodes identically."""
from rules import encrules, vlqrules
from rules.common import run_rules

EXPLANATION = ("C03: the encoder's structure is compared with the Source Map v3 wire format: (R1) five deltas per segment in "
               "the v3 order, each taken against the previously emitted value of the same field, source fields under "
               "has_source, name under has_name, ';' once per line advanced, ',' only between segments of one line, the "
               "generated-column state (and only it) reset on a new line, exact duplicates the only tokens skipped; (R2) "
               "optional keys carry skip-if-none and the encoder yields None rather than empty values; (R3) version 3 in "
               "every writer; (R4) VLQ writer shape/alphabet and who-may-call encode_vlq; (R5) sections written "
               "recursively with unswapped offsets."
               " (R8) the data URL is standard padded base64 behind the literal preamble."
               " (RW) the wire structs RawSourceMap/RawSection carry derived serde impls only, so key names and optionality are exactly what the attributes say."
               " (R9) tokens are sorted by generated position after every write (SourceMap::new, adjust_mappings on every exit), which the line-advancing writer relies on.")
NOT_DECIDED = "that an independent v3 reader decodes exactly the map's tokens for all maps (value-level)."

RULES = {
    # the writer advances the generated line and takes deltas against the previous token: it relies on the tokens being
    # ordered by generated position whatever produced the map (constructor, adjust_mappings)
    "C03.R9": lambda ctx: __import__("rules.typesrules", fromlist=["x"]).sort_after_write(ctx, "C03.R9"),
    "C03.RW": lambda ctx: __import__("rules.foundations", fromlist=["x"]).wire_types_derived_only(ctx, "C03.RW"),
    "C03.RG": lambda ctx: __import__("rules.foundations", fromlist=["x"]).no_global_state(ctx, "C03.RG"),
    # the data URL the encoder side produces is standard padded base64 behind the literal preamble
    "C03.R8": lambda ctx: __import__("rules.detrules", fromlist=["x"]).data_url_pairing(ctx, "C03.R8"),
    "C03.R7": lambda ctx: __import__("rules.bldrules", fromlist=["x"]).cache_coherence(ctx, "C03.R7"),
    "C03.R6": lambda ctx: encrules.whole_document(ctx, "C03.R6"),
    "C03.RL": lambda ctx: __import__("rules.common", fromlist=["x"]).loop_exit_rule(ctx, "C03.RL", {'encoder::serialize_mappings': 1, 'encoder::encode_rmi': 0}),
    "C03.R1a": lambda ctx: encrules.field_order(ctx, "C03.R1a"),
    "C03.R1b": lambda ctx: encrules.resets(ctx, "C03.R1b"),
    "C03.R1c": lambda ctx: encrules.separators(ctx, "C03.R1c"),
    "C03.R1d": lambda ctx: encrules.only_duplicates_skipped(ctx, "C03.R1d"),
    "C03.R2": lambda ctx: encrules.optional_keys(ctx, "C03.R2"),
    "C03.R2b": lambda ctx: encrules.serde_symmetry(ctx, "C03.R2b"),
    "C03.R3": lambda ctx: encrules.version(ctx, "C03.R3"),
    "C03.R4": lambda ctx: encrules.who_calls_vlq(ctx, "C03.R4"),
    "C03.R4w": lambda ctx: vlqrules.writer_shape(ctx, "C03.R4w"),
    "C03.R4t": lambda ctx: vlqrules.tables(ctx, "C03.R4t"),
    "C03.R0": lambda ctx: __import__("rules.foundations", fromlist=["x"]).accessors(ctx, "C03.R0", None),
    "C03.R5": lambda ctx: encrules.sections(ctx, "C03.R5"),
}


def check(ctx):
    run_rules(ctx, RULES)
