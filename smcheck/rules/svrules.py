"""Rules about src/sourceview.rs (SourceView) shared by C15, C16, C17 and C05."""
import absint
import lockregions
import pf
import q
from callgraph import CallGraph
from mir import Agg, Bin, Call, Const, Deref, Field, Named, Ref, Var
from rules.common import expect_defs, has_fact, opt_fact, option_blocks

GET_LINE = "sourceview::SourceView::get_line"
LINE_COUNT = "sourceview::SourceView::line_count"
SLICE_CLOSURE = "sourceview::SourceView::get_line_slice::{closure#0}"
LINES_NEXT = "<sourceview::Lines<'a> as core::iter::traits::iterator::Iterator>::next"
ATOMIC_WRITES = ("fetch_add", "fetch_sub", "store", "swap", "fetch_and", "fetch_or", "fetch_xor", "fetch_max", "fetch_min",
                 "compare_exchange", "compare_exchange_weak", "fetch_update", "fetch_nand")
PU = "processed_until"
MUTEX = "lines"


def _via_guard(sh):
    return "MutexGuard" in sh or "Mutex::lock(" in sh


def sv_bodies(ctx):
    """Every non-derived local body that touches the protected state of SourceView."""
    out = []
    for b in ctx.facts.local_fns():
        if b.derived:
            continue
        if state_accesses(b) or [g for g in lockregions.guards_of(b)]:
            out.append(b)
    return out


def state_accesses(body):
    """(bb, kind, name) for every atomic operation on the progress counter."""
    out = []
    for bi, t in body.calls():
        nm = q.nice(t.get("callee"))
        if nm.startswith("Atomic::") and t["args"]:
            sh = q.shape(q.arg_expr(body, t, 0))
            if sh.endswith("." + PU):
                op = nm.split("::")[1]
                out.append((bi, "write" if op in ATOMIC_WRITES else "read", op))
    return out


def named_guards(body, field=MUTEX):
    return [g for g in lockregions.guards_of(body) if g.mutex_field == field]


# ---------------------------------------------------------------------------------------------
def r1_writes_under_lock(ctx, rule="C16.R1"):
    n = 0
    for b in sv_bodies(ctx):
        guards = named_guards(b)
        for bi, kind, op in state_accesses(b):
            if kind != "write":
                continue
            n += 1
            inside = any(bi in g.inside for g in guards)
            ctx.check(inside, rule, b.path, "atomic-%s" % op,
                      "every write of the progress counter happens while the line-cache mutex is held", ctx.site(b, bi))
        # mutations of the cached vector go through the guard by construction (type system); count them
        for bi, t in b.calls():
            if q.callee_matches(t, "Vec::<T, A>::push") and _via_guard(q.shape(q.arg_expr(b, t, 0))):
                n += 1
                ctx.check(any(bi in g.inside for g in guards), rule, b.path, "lines-push", "the cached vector is extended while its mutex guard is live", ctx.site(b, bi))
    ctx.floor(rule, "sourceview", "writes of the protected state", n, 3)


def r2_single_section(ctx, rule="C16.R2"):
    bodies = sv_bodies(ctx)
    ctx.floor(rule, "sourceview", "bodies touching the protected state", len(bodies), 2)
    for b in bodies:
        guards = named_guards(b)
        acc = state_accesses(b)
        # (a) every access of the counter, reads included, inside a live range
        for bi, kind, op in acc:
            ctx.check(any(bi in g.inside for g in guards), rule, b.path, "counter-%s:%s" % (kind, op),
                      "every access of the progress counter (reads included) lies inside a live range of the line-cache guard; "
                      "a Relaxed load outside the lock that decides control flow is a check-then-act race", ctx.site(b, bi))
        # (b) at most one acquisition on any path
        for g1 in guards:
            for g2 in guards:
                reach = b.reaches(g1.lock_bb, g2.lock_bb)
                ctx.check(not reach, rule, b.path, "acquisitions:bb-pair",
                          "no path acquires the line-cache mutex twice (one critical section per decision)",
                          ctx.site(b, g2.lock_bb), detail="second acquisition reachable from the first" if reach else None)
        if guards:
            ctx.ok(rule, b.path, "guards", "%d acquisition(s) of the line-cache mutex analysed" % len(guards))


def r3_no_panic_under_lock(ctx, rule="C16.R3"):
    n = 0
    for b in sv_bodies(ctx):
        for g in named_guards(b):
            inside = set(g.inside)
            cnt, _, _ = pf.check_bodies(ctx, rule, [b], only=lambda s, inside=inside: s.bb in inside,
                                        what="panic-capable site inside a live range of the line-cache guard (a panic there poisons the mutex for every later caller)")
            n += cnt
    ctx.floor(rule, "sourceview", "panic-capable sites under the lock", n, 5)


def r3b_finished_test(ctx, rule="C16.R3b"):
    """The slice source[processed_until..] is dominated, inside the same live range, by the
    finished test (processed_until > source.len() -> return None)."""
    b = ctx.body(GET_LINE)
    guards = named_guards(b)
    sites = []
    for bi, t in b.calls():
        if q.callee_matches(t, "Index::index"):
            sh = q.shape(b.expr_of_call(t))
            if q.wild("*arg1.source*[RangeFrom{start:Atomic::load(arg1.%s,*)}]" % PU, sh) and "][" not in sh:
                sites.append(bi)
    ctx.floor(rule, b.path, "slices starting at the progress counter", len(sites), 1)
    for bi in sites:
        in_g = [g for g in guards if bi in g.inside]
        ctx.check(bool(in_g), rule, b.path, "slice:under-lock", "the slice is taken with the guard live", ctx.site(b, bi))
        ok = False
        for c in q.path_conditions(b, bi):
            for f in q.facts_of_cond(c):
                if f.op == "Le" and q.wild("Atomic::load(arg1.%s,*)" % PU, str(f.l)) and q.wild("str::len(*arg1.source*)", str(f.r)):
                    if any(c.bb in g.inside for g in in_g):
                        ok = True
        ctx.check(ok, rule, b.path, "slice:finished-test",
                  "the finished test `processed_until > source.len() -> return` dominates the slice inside the same critical section", ctx.site(b, bi))


def r4_no_reentrancy(ctx, rule="C16.R4"):
    cg = CallGraph(ctx.facts)
    lockers = set(b.path for b in sv_bodies(ctx) if named_guards(b))
    n = 0
    for b in sv_bodies(ctx):
        for g in named_guards(b):
            for bi in sorted(g.inside):
                t = b.blocks[bi]["term"]
                if t["k"] != "call":
                    continue
                tgt = t.get("resolved") if t.get("resolved_local") else t.get("callee")
                if tgt in cg.bodies:
                    n += 1
                    reach = cg.closure([tgt])
                    bad = sorted(reach & lockers)
                    ctx.check(not bad, rule, b.path, "call-under-lock:%s" % q.nice(tgt),
                              "no call made while the guard is live can re-acquire the same mutex (deadlock)", ctx.site(b, bi), detail=str(bad))
                # closures passed to library calls under the lock
                for a in t["args"]:
                    pass
    ctx.ok(rule, "sourceview", "calls-under-lock", "%d local calls under the lock analysed; none reaches a locking function" % n)


def fresh_views(ctx, rule):
    """Every SourceView is created with an empty cache and a zero progress counter (clones do
    not inherit indexing state): the state a reader sees is only ever produced under the lock."""
    n = 0
    src_of = {}  # constructor function -> shape of the text its literal views
    for b in ctx.facts.local_fns():
        for bi, si, s, it in b.locations():
            if not it and s["k"] == "assign" and s["rv"]["k"] == "agg" and s["rv"].get("adt") == "sourceview::SourceView":
                a = b.expr_of_rvalue(s["rv"])
                n += 1
                ok = q.shape(a.field("processed_until")) == "Atomic::new(0)" and q.shape(a.field("lines")) in ("Mutex::new(Vec::new())", "Mutex::new(Default::default())", "Default::default()")
                ctx.check(ok, rule, b.path, "fresh-state", "a new or cloned SourceView starts unindexed (counter 0, empty cache)", ctx.site(b, bi, si), detail=q.shape(a)[:200])
                if ok:
                    src_of.setdefault(b.path, []).append(q.shape(a.field("source")))
                # the text a view shows is the text it was given: whole, unchanged (a constructor that drops a BOM or trims
                # makes the same contents read differently depending on how the view was made)
                ssh = q.shape(a.field("source"))
                ctx.check(ssh in ("arg1", "arg1.source") or ssh.startswith("from<") and ssh.endswith("(arg1)"), rule, b.path, "text-as-given", "the view's text is exactly the constructor's argument (or the cloned view's text)", ctx.site(b, bi, si), detail=ssh)
    ctx.floor(rule, "sourceview", "SourceView constructions", n, 1)
    # every function that hands out a SourceView by value builds a fresh literal or calls one that does
    makers = [b for b in ctx.facts.local_fns() if b.sig and b.sig.rstrip().endswith("-> sourceview::SourceView") and b.kind != "Closure"]
    ctx.floor(rule, "sourceview", "functions returning a SourceView", len(makers), 3)
    for b in makers:
        for sh, site, _ in q.def_shapes(b, 0, {}):
            via = [f for f in src_of if sh.startswith(q.nice(f) + "(")]
            ctx.check(sh.startswith("SourceView{") or bool(via), rule, b.path, "fresh-maker", "the returned view is a fresh literal or comes from a constructor that builds one", ctx.site(b, *site), detail=sh[:160])
    # ... and a view is never re-pointed or reset in place: no function stores into a field of an existing SourceView, and
    # none reaches the protected state through the exclusive-access back doors (get_mut / into_inner) that bypass the
    # lock discipline the other rules establish (a `clone_from` that swaps the text under a stale counter, say)
    stores, doors = [], []
    for b in ctx.facts.local_fns():
        for bi, si, st, it in b.locations():
            if it:
                if st.get("k") == "call" and q.nice(st.get("callee")) in ("Mutex::get_mut", "Mutex::into_inner", "Atomic::get_mut", "Atomic::into_inner", "AtomicUsize::get_mut", "AtomicUsize::into_inner"):
                    a0 = q.shape(q.arg_expr(b, st, 0))
                    if a0.endswith(".lines") or a0.endswith(".processed_until"):
                        doors.append("%s: %s" % (b.path, q.shape(b.expr_of_call(st))[:80]))
                continue
            if st["k"] == "assign" and st["place"]["p"] and st["place"]["p"][-1].get("k") == "field" and st["place"]["p"][-1].get("adt") == "sourceview::SourceView":
                stores.append("%s: .%s" % (b.path, st["place"]["p"][-1].get("n")))
    ctx.check(not stores and not doors, rule, "sourceview", "no-in-place-reset", "no field of an existing SourceView is overwritten and the lock-protected state is not reached through get_mut/into_inner",
              detail=str(stores + doors)[:300])
    cl = ctx.body("<sourceview::SourceView as core::clone::Clone>::clone")
    rets = [sh for sh, _, _ in q.def_shapes(cl, 0, {})]
    ok = len(rets) == 1 and (q.wild("SourceView{source:arg1.source,*", rets[0]) or any(rets[0] == "%s(arg1.source)" % q.nice(f) and src_of[f] == ["arg1"] for f in src_of))
    ctx.check(ok, rule, cl.path, "clone:same-text", "a clone views the same text", detail=str(rets))


def guards_stay_local(ctx, rule):
    """A lock guard never outlives the call that took it: no type of the crate stores a
    MutexGuard and no function returns one (a parked iterator or handle holding the lock would
    block - or deadlock with - every other caller)."""
    bad = []
    for path, a in sorted(ctx.facts.adts.items()):
        for v in a.get("variants", []):
            for f in v.get("fields", []):
                if "MutexGuard" in f["ty"] or "RwLock" in f["ty"] and "Guard" in f["ty"]:
                    bad.append("%s.%s: %s" % (path, f["name"], f["ty"]))
    for b in ctx.facts.local_fns():
        if b.sig and "MutexGuard" in b.sig.split("->")[-1] and "->" in b.sig:
            bad.append("%s returns %s" % (b.path, b.sig.split("->")[-1].strip()))
    ctx.check(not bad, rule, "sourceview", "guard:not-stored", "no struct field and no return type of the crate holds a lock guard", detail=str(bad))


def r5_monotone(ctx, rule="C15.R4"):
    """lines is append-only; the counter only grows."""
    ops = set()
    vec_ops = set()
    for b in sv_bodies(ctx):
        for bi, kind, op in state_accesses(b):
            ops.add(op)
        for bi, t in b.calls():
            if t["args"]:
                sh = q.shape(q.arg_expr(b, t, 0))
                if _via_guard(sh) and q.nice(t.get("callee")).startswith(("Vec::", "slice::")):
                    e = q.arg_expr(b, t, 0)
                    mut = any(isinstance(x, Call) and q.nice(x.callee) == "DerefMut::deref_mut" for x in e.walk())
                    if mut:
                        vec_ops.add(q.nice(t.get("callee")))
    ctx.check(ops <= {"load", "fetch_add"} and "fetch_add" in ops, rule, "sourceview", "counter-ops",
              "the progress counter is only read and advanced (fetch_add), never reset or decreased", detail=str(sorted(ops)))
    ctx.check(vec_ops <= {"Vec::push"} and vec_ops, rule, "sourceview", "lines-ops",
              "the cached line vector is append-only (the only mutation through the guard is push)", detail=str(sorted(vec_ops)))
    # fetch_add operands are non-negative increments (idx + 1 / rest.len() + 1)
    b = ctx.body(GET_LINE)
    for bi, t in b.calls():
        if q.callee_matches(t, "fetch_add"):
            sh = q.shape(q.arg_expr(b, t, 1))
            ctx.check(sh.startswith("Add(1,"), rule, b.path, "advance:%s" % sh[:40], "the counter advances by (piece length + 1)", ctx.site(b, bi))


# ---------------------------------------------------------------------------------------------
def _loop_always(b, head, blk):
    """Every pass through the loop body (head -> ... -> head) goes through blk."""
    body = dict(b.loops()).get(head, set())
    seen, stack = set(), [s_ for s_ in b.succ[head] if s_ in body]
    while stack:
        x = stack.pop()
        if x == blk or x in seen:
            continue
        seen.add(x)
        for y in b.succ[x]:
            if y == head:
                return False
            if y in body and y not in seen:
                stack.append(y)
    return blk in body


def c15_r1_protocol(ctx, rule="C15.R1"):
    b = ctx.body(GET_LINE)
    fn = b.path
    # scan predicate
    cl = [c for c in ctx.facts.closures_of(GET_LINE)]
    pos = q.calls_to(b, "Iterator::position")
    if not ctx.check(len(pos) == 1 and len(cl) >= 1, rule, fn, "scan", "lines are found with one position() scan over the unprocessed rest"):
        return
    pred = None
    e = q.arg_expr(b, pos[0][1], 1)
    for x in e.walk():
        if isinstance(x, Agg) and x.ak == "closure":
            pred = ctx.facts.body(x.closure)
    if not ctx.check(pred is not None, rule, fn, "scan:closure", "the scan predicate is a closure in get_line"):
        return
    truth = absint.pred_table(pred, 2)
    accepted = sorted(v for v, r in truth.items() if r == 1)
    undec = [v for v, r in truth.items() if r is None]
    ctx.check(accepted == [10, 13] and not undec, rule, pred.path, "terminators",
              "the scan stops at exactly the bytes \\n and \\r (value-set over all 256 byte values)", detail="accepted=%s undecided=%d" % (accepted, len(undec)))
    ctx.count("scan_predicate_values", 256)
    # role: idx = result of position (mutable), rest = slice
    idx_l = None
    for l, n in b.var_names.items():
        for sh, site, ex in q.def_shapes(b, l, {}):
            if sh.startswith("try(Iterator::position("):
                idx_l = l
    rest_l = None
    for l, n in b.var_names.items():
        for sh, site, ex in q.def_shapes(b, l, {}):
            if q.wild("*arg1.source*[RangeFrom{start:Atomic::load(arg1.%s,*)}]" % PU, sh) and "][" not in sh:
                if len(b.defs.get(l, [])) == 1 and (rest_l is None or l < rest_l):
                    rest_l = l
    if not ctx.check(idx_l is not None and rest_l is not None, rule, fn, "roles", "the terminator index and the unprocessed rest are recognisable"):
        return
    roles = {idx_l: "idx", rest_l: "rest"}
    found = expect_defs(ctx, rule, b, idx_l, roles, {"try(Iterator::position(*))": "found", "Add(1,idx)": "crlf-merge"}, ["found", "crlf-merge"], "terminator index")
    for site in found.get("crlf-merge", []):
        ok1 = has_fact(b, site[0], roles, ("Eq", "13", "rest[idx]"))
        ok2 = has_fact(b, site[0], roles, ("true", "PartialEq::eq(slice::get(rest,Add(1,idx)),*)", None))
        # the same test as a pattern: `if let Some(&b'\n') = rest.get(idx + 1)`
        pat_lf = has_fact(b, site[0], roles, *opt_fact("some", "slice::get(rest,Add(1,idx))")) and has_fact(b, site[0], roles, ("in", "try(slice::get(rest,Add(1,idx)))", (10,)))
        ok2 = ok2 or pat_lf
        ctx.check(ok1, rule, fn, "crlf:cr", "the index skips one more byte only when the terminator is \\r", ctx.site(b, *site))
        ctx.check(ok2, rule, fn, "crlf:lf", "... and the following byte (read with the non-panicking get) equals the constant", ctx.site(b, *site))
    pr = ctx.facts.promoted_of(GET_LINE, 0)
    ints = []
    if pr is not None:
        for bi, si, s, is_term in pr.locations():
            if not is_term and s["k"] == "assign" and s["rv"]["k"] == "use" and s["rv"]["op"]["k"] == "const":
                ints.append(s["rv"]["op"]["c"].get("int"))
    ctx.check(ints == [10] or (not ints and bool(found.get("crlf-merge")) and all(has_fact(b, st[0], roles, ("in", "try(slice::get(rest,Add(1,idx)))", (10,))) for st in found.get("crlf-merge", []))),
              rule, fn, "crlf:const", "the byte compared after \\r is \\n", detail=str(ints))
    # pushed piece = rest[..idx] sampled before the merge
    piece = None
    for l, n in b.var_names.items():
        for sh, site, ex in q.def_shapes(b, l, roles):
            if sh == "rest[RangeTo{end:idx}]":
                piece = (l, site)
    if ctx.check(piece is not None, rule, fn, "piece", "the line is the rest up to (excluding) the terminator: rest[..idx]"):
        ms = found.get("crlf-merge", [])
        ctx.check(all(b.dominates(piece[1][0], m[0]) and piece[1][0] != m[0] for m in ms), rule, fn, "piece:before-merge",
                  "the piece is taken before the index is advanced over the \\n of a \\r\\n pair")
    # what is cached: every scanned piece, as it is - one unconditional push per loop iteration of exactly the bytes of the
    # piece (rest[..idx] / the final rest); nothing is dropped (e.g. for equalling its predecessor) or edited (a prefix
    # stripped depending on which line was asked for)
    pushes = [(bi, t) for bi, t in q.calls_to(b, "Vec::<T, A>::push") if "MutexGuard" in q.shape(q.arg_expr(b, t, 0)) or q.shape(q.arg_expr(b, t, 0), roles).endswith("lines")]
    okp = len(pushes) == 1
    if okp:
        pb, pt = pushes[0]
        arg = q.arg_expr(b, pt, 1)
        ptr_of = [x for x in arg.walk() if isinstance(x, Call) and q.nice(x.callee) == "slice::as_ptr"]
        len_of = [x for x in arg.walk() if isinstance(x, Call) and q.nice(x.callee) == "slice::len"]
        rvl = set(q.root_local(x.args[0]) for x in ptr_of + len_of)
        okp = q.wild("converts::from_utf8_unchecked(raw::from_raw_parts(slice::as_ptr(*),slice::len(*)))", q.shape(arg, roles)) and len(rvl) == 1 and None not in rvl
        if okp:
            rv_shapes = sorted(sh for sh, _, _ in q.def_shapes(b, list(rvl)[0], roles))
            okp = rv_shapes in (sorted(["rest[RangeTo{end:idx}]", "rest"]), ["rest[RangeTo{end:idx}]"] if False else sorted(["rest[RangeTo{end:idx}]", "rest"]))
        heads = [h for h in dict(b.loops())]
        pos = [bi for bi, t in q.calls_to(b, "Iterator::position")]
        okp = okp and len(heads) == 1 and bool(pos) and all(pb in b.reachable_blocks(pos[0]) for _ in (0,)) and _loop_always(b, heads[0], pb)
    ctx.check(okp, rule, fn, "cache:every-piece", "each scanned piece is cached as it is: one unconditional push per iteration of the bytes rest[..idx] (or the final rest)",
              detail=str([q.shape(b.expr_of_call(t), roles)[:160] for _, t in pushes]))
    # progress
    adds = [(bi, q.shape(q.arg_expr(b, t, 1), roles)) for bi, t in q.calls_to(b, "fetch_add")]
    shapes = sorted(s for _, s in adds)
    ctx.check(shapes == ["Add(1,idx)", "Add(1,slice::len(rest))"], rule, fn, "progress",
              "the counter advances by idx + 1 after a terminator and by rest.len() + 1 after the final piece", detail=str(shapes))
    # done flag set exactly on the final piece
    done_l = [l for l, n in b.var_names.items() if b.local_ty(l) == "bool" and b.locals[l]["mut"]]
    for bi, s in adds:
        if s == "Add(1,slice::len(rest))":
            nb = b.blocks[bi]["term"].get("t")
            sets = [st for st in b.blocks[nb]["stmts"] if st["k"] == "assign" and st["place"]["l"] in done_l and st["rv"]["k"] == "use" and st["rv"]["op"].get("c", {}).get("int") == 1]
            ctx.check(bool(sets), rule, fn, "final:done", "the final piece ends the indexing loop")
    # finished test is strict
    nones = option_blocks(b, "None")
    strict = [nb for nb in nones if has_fact(b, nb, {}, ("Lt", "str::len(*arg1.source*)", "Atomic::load(arg1.%s,*)" % PU))]
    ctx.check(len(strict) >= 1, rule, fn, "finished:strict",
              "'everything indexed' is processed_until > source.len() (strict: with >= the empty line after a trailing terminator is lost)")
    # cached answer
    somes = option_blocks(b, "Some")
    ctx.check(len(somes) >= 2, rule, fn, "answers", "get_line answers from the cache (idx < lines.len()) or from the freshly indexed lines")
    # ... and what it answers is the cache entry of the requested index itself (widened, not clamped, wrapped or shifted)
    import re as _re
    for sh, site, _e in q.def_shapes(b, 0, {}):
        if sh.startswith("Option::Some{") or sh.startswith("Option::map(") or sh.startswith("Option::copied(") or sh.startswith("slice::get("):
            G = "var:MutexGuard<Vec<&str>>"
            good = sum(sh.count(x) for x in ("%s[cast<usize>(arg2)]" % G, "slice::get(%s,cast<usize>(arg2))" % G, "%s[from<usize>(arg2)]" % G, "slice::get(%s,from<usize>(arg2))" % G))
            ok = good >= 1 and good == sh.count(G)
            ctx.check(ok, rule, fn, "answers:requested-index", "the line returned is the cache entry at the requested index (the u32 widened; not clamped or otherwise rewritten)", ctx.site(b, *site), detail=sh[:200])


def slice_body(ctx):
    """The body that computes the slice: get_line_slice itself or the closure it hands to and_then."""
    root = "sourceview::SourceView::get_line_slice"
    for b in [ctx.body(root)] + list(ctx.facts.closures_of(root)):
        if q.calls_to(b, "str::get"):
            return b
    return ctx.body(SLICE_CLOSURE)


def c15_r2_units(ctx, rule="C15.R2"):
    b = slice_body(ctx)
    fn = b.path
    COL, SPAN = ("^arg3", "^arg4") if b.kind == "Closure" else ("arg3", "arg4")
    gets = q.calls_to(b, "str::get")
    if not ctx.check(len(gets) == 1, rule, fn, "final:get", "the slice is produced by one non-panicking str::get"):
        return
    rng = q.arg_expr(b, gets[0][1], 1)
    while isinstance(rng, Named):
        rng = rng.x
    if not ctx.check(isinstance(rng, Agg) and len(rng.ops) == 2, rule, fn, "final:range", "str::get receives a start..end range"):
        return
    # the text that is cut is the line get_line returned, and a line the view does not have gives None (not a slice of
    # a made-up empty line): either the closure form `get_line(line).and_then(|line| ..)` or `let line = get_line(line)?`
    recv = q.shape(q.arg_expr(b, gets[0][1], 0))
    GL = "SourceView::get_line(arg1,arg2)"
    if b.kind == "Closure":
        rootb = ctx.body("sourceview::SourceView::get_line_slice")
        rr = [sh for sh, _, _ in q.def_shapes(rootb, 0, {})]
        ok = recv == "arg2" and len(rr) == 1 and rr[0].startswith("Option::and_then(%s," % GL) and getattr(q.callable_body(q.def_shapes(rootb, 0, {})[0][2]), "path", None) == b.path
        det = recv + " / " + str(rr)[:200]
    else:
        ok = recv in ("try(%s)" % GL, "some(%s)" % GL)
        det = recv
        if ok:
            ok = all(GL in sh for sh, _, _ in q.def_shapes(b, 0, {}) if sh.startswith("FromResidual::from_residual")) or recv.startswith("some(")
    ctx.check(ok, rule, fn, "line:from-get_line", "the slice is cut from the line get_line(line) returned, and a line the view does not have yields None", detail=det[:300])
    byte_locals = [q.root_local(o) for o in rng.ops]
    roles = {}
    for i, l in enumerate(byte_locals):
        if l is not None:
            roles[l] = "B%d" % i
    if not ctx.check(len(roles) == 2, rule, fn, "byte-counters", "both bounds of the byte range are running counters"):
        return
    for l, rn in list(roles.items()):
        allowed = {"0": "zero", "B0": "copy", "B1": "copy"}
        allowed["Add(%s,char::len_utf8(*))" % rn] = "utf8"
        allowed["Add(char::len_utf8(*),%s)" % rn] = "utf8"
        expect_defs(ctx, rule, b, l, roles, allowed, ["utf8"], "byte offset %s" % rn)
    # the UTF-16 counter: compared with col / col+span
    u16 = set()
    for d in range(len(b.blocks)):
        t = b.blocks[d]["term"]
        if t["k"] != "switch":
            continue
        e = b.expr_of_operand(t["discr"])
        sh = q.shape(e, roles)
        if COL in sh:
            for x in e.walk():
                if isinstance(x, Var) and not x.is_arg and x.ty in ("usize", "u64"):
                    u16.add(x.local)
    u16 -= set(roles)
    if not ctx.check(len(u16) == 1, rule, fn, "u16-counter", "exactly one counter is compared with the UTF-16 column / column+span", detail=str(sorted(u16))):
        return
    u = u16.pop()
    roles[u] = "U"
    expect_defs(ctx, rule, b, u, roles, {"0": "zero", "Add(U,char::len_utf16(*))": "utf16", "Add(char::len_utf16(*),U)": "utf16"}, ["zero", "utf16"], "UTF-16 column counter")
    # comparisons against col and col + span (widened)
    cmps = []  # one entry per test (two tests may read alike once a condition is inverted)
    for d in range(len(b.blocks)):
        t = b.blocks[d]["term"]
        if t["k"] == "switch" and not b.blocks[d]["cleanup"]:
            sh = q.shape(b.expr_of_operand(t["discr"]), roles)
            if COL in sh:
                cmps.append(sh)
    want_col = [s for s in cmps if any(q.wild("Le(cast<usize>(%s),U)" % COL, f) for f in q.test_forms(s))]
    # `while let Some(c) = it.next_if(|_| idx < col)`: the same stop test, held by the iterator
    want_col += [s for s in cmps if q.wild("discr(Peekable::next_if(*,\u03bb(Lt(^var:usize,cast<usize>(^%s)))))" % COL, s)]
    SUM = "Add(from<u64>(%s),from<u64>(%s))" % (COL, SPAN)
    want_end = [s for s in cmps if "U" in s.replace(SUM, "") and q.wild("L?(*%s*" % SUM, s.replace("Lt", "L?").replace("Le", "L?"))]
    gb = gets[0][0]
    ctx.check(has_fact(b, gb, roles, ("Le", SUM, "cast<u64>(U)"), ("Le", "cast<usize>(%s)" % SUM, "U")), rule, fn, "result:only-when-long-enough",
              "a slice is returned only when the UTF-16 counter reached col + span (a line shorter than that yields None)", ctx.site(b, gb))
    rets = [sh for sh, _, _ in q.def_shapes(b, 0, roles) if sh != "Option::None{}" and not sh.startswith("FromResidual::from_residual")]
    ctx.check(len(rets) == 1 and rets[0].startswith("str::get("), rule, fn, "result:only-the-slice", "the only value ever returned is the slice cut by str::get (no shortcut answer, e.g. for an empty span)", detail=str(rets)[:200])
    nones = sorted(set(option_blocks(b, "None")) | set(site[0] for sh, site, _ in q.def_shapes(b, 0, roles) if sh == "Option::None{}"))
    ctx.check(bool(nones) and all(has_fact(b, nb, roles, ("Lt", "cast<u64>(U)", SUM), ("Lt", "U", "cast<usize>(%s)" % SUM)) for nb in nones), rule, fn, "none:only-when-short",
              "None is returned only when the line has fewer than col + span UTF-16 units (the test is in UTF-16 units, not bytes)")
    ctx.check(bool(want_col), rule, fn, "cmp:col", "the prefix walk stops when the UTF-16 counter reaches col", detail=str(sorted(cmps)))
    ctx.check(len(want_end) >= 2, rule, fn, "cmp:col+span", "the span walk and the final length test compare the UTF-16 counter with col + span computed without overflow", detail=str(sorted(cmps)))


def c15_r3_iter(ctx, rule="C15.R3"):
    b = ctx.body(LINES_NEXT)
    fn = b.path
    calls = q.calls_to(b, GET_LINE)
    ok = len(calls) == 1 and q.shape(q.arg_expr(b, calls[0][1], 1)) == "arg1.idx"
    ctx.check(ok, rule, fn, "get_line(self.idx)", "the iterator asks for line self.idx")
    # idx advanced only on Some
    advs = []
    for bi, si, s, is_term in b.locations():
        if not is_term and s["k"] == "assign" and s["place"]["p"] and s["place"]["p"][-1].get("n") == "idx":
            advs.append(bi)
            sh = q.shape(b.expr_of_rvalue(s["rv"]))
            ctx.check(sh == "Add(1,arg1.idx)", rule, fn, "idx+=1", "the index advances by one", ctx.site(b, bi, si))
            ctx.check(has_fact(b, bi, {}, *opt_fact("some", "SourceView::get_line(*)")), rule, fn, "idx:on-some", "... only after a line was returned", ctx.site(b, bi, si))
    somes = [site[0] for sh, site, _ in q.def_shapes(b, 0, {}) if sh.startswith("Option::Some{") or sh.startswith("try(") or "get_line" in sh and not sh.startswith("Option::None")]
    somes = [site[0] for sh, site, _ in q.def_shapes(b, 0, {}) if sh != "Option::None{}" and not sh.startswith("FromResidual")]
    ok_adv = len(advs) == 1 and bool(somes) and all(b.dominates(advs[0], x) or advs[0] == x for x in somes)
    if not advs:
        # `self.sv.get_line(self.idx).inspect(|_| self.idx += 1)`: the closure runs exactly when a line is returned
        rets = [sh for sh, _, _ in q.def_shapes(b, 0, {})]
        cls = list(ctx.facts.closures_of(fn))
        inc = []
        for cl in cls:
            for bi, si, s, is_term in cl.locations():
                if not is_term and s["k"] == "assign" and s["place"]["p"] and s["place"]["p"][-1].get("n") == "idx":
                    inc.append(q.shape(cl.expr_of_rvalue(s["rv"])).replace("^", ""))
        ok_adv = len(rets) == 1 and rets[0].startswith("Option::inspect(SourceView::get_line(arg1.sv,arg1.idx),") and inc == ["Add(1,arg1.idx)"]
    ctx.check(ok_adv, rule, fn, "idx:advances", "every returned line advances the index (each line is yielded once)")
    b2 = ctx.body(LINE_COUNT)
    calls = q.calls_to(b2, GET_LINE)
    ok = len(calls) == 1 and q.shape(q.arg_expr(b2, calls[0][1], 1)) in ("Not(0)", "4294967295")
    ctx.check(ok, rule, b2.path, "force-index", "line_count first forces complete indexing with get_line(!0)")
    lens = [bi for bi, t in q.calls_to(b2, "Vec::<T, A>::len") if _via_guard(q.shape(q.arg_expr(b2, t, 0)))]
    ctx.check(len(lens) == 1 and calls and b2.dominates(calls[0][0], lens[0]), rule, b2.path, "len-after", "... and then reports lines.len()")
    lines_fn = ctx.body("sourceview::SourceView::lines")
    aggs = [s for bi, si, s, it in lines_fn.locations() if not it and s["k"] == "assign" and s["rv"]["k"] == "agg" and s["rv"].get("adt", "").endswith("Lines")]
    ok = bool(aggs) and q.shape(lines_fn.expr_of_rvalue(aggs[0]["rv"])) == "Lines{sv:arg1,idx:0}"
    ctx.check(ok, rule, lines_fn.path, "lines()", "lines() starts the iterator at line 0 of this view")


def c15_r5_pf(ctx, rule="C15.R5"):
    paths = [GET_LINE, LINE_COUNT, LINES_NEXT, "sourceview::SourceView::get_line_slice", "sourceview::SourceView::lines",
             "sourceview::SourceView::source"]
    bodies = [ctx.body(p) for p in paths]
    for root in (GET_LINE, "sourceview::SourceView::get_line_slice"):
        bodies += list(ctx.facts.closures_of(root))
    pf.check_bodies(ctx, rule, bodies)
