"""C20 - indexed RAM bundles are parsed exactly and malformed ones are refused."""
from rules import ramrules
from rules.common import run_rules

EXPLANATION = ("C20 (feature ram_bundle): (R1) the header and table-entry layouts, taken from the compiler's ADT/layout facts, "
               "equal Metro's format and every structured read is little-endian; (R2) the byte buffer is accessed only through "
               "bounds-checked pread_with; (R3) the magic, index, empty-slot and zero-length guards dominate what they protect; "
               "(R4) fields are widened before arithmetic and offsets are header + id*entry, startup + entry.offset, length-1; "
               "(R5) the module iterator skips exactly the empty slots; (R6) recognition is a sibling of parse; (R7) "
               "panic-freedom of the six observed entry points (64-bit usize)."
               " (R8) the crate's iterators implement `next` only; (R6b) the RamBundle wrappers return only what the selected flavour returned."
               " (R9) parse fails only for the reviewed reasons (a header that cannot be read, or a wrong magic).")
NOT_DECIDED = "byte-exact equality of returned slices with what a writer wrote; scroll's own bounds checks (trusted)."
ASSUMPTIONS = ["crate built with feature ram_bundle"]

RULES = {
    "C20.R9": lambda ctx: ramrules.parse_rejections(ctx, "C20.R9"),
    "C20.RG": lambda ctx: __import__("rules.foundations", fromlist=["x"]).no_global_state(ctx, "C20.RG"),
    "C20.R8": lambda ctx: __import__("rules.foundations", fromlist=["x"]).iterator_overrides(ctx, "C20.R8"),
    "C20.R1": lambda ctx: ramrules.layout(ctx, "C20.R1"),
    "C20.R2": lambda ctx: ramrules.buffer_access(ctx, "C20.R2"),
    "C20.R3": lambda ctx: ramrules.guards(ctx, "C20.R3"),
    "C20.R5": lambda ctx: ramrules.iterator(ctx, "C20.R5"),
    "C20.R6": lambda ctx: ramrules.sibling(ctx, "C20.R6"),
    "C20.R6b": lambda ctx: ramrules.wrappers(ctx, "C20.R6b"),
    "C20.R7": lambda ctx: ramrules.ram_pf(ctx, "C20.R7"),
}


def check(ctx):
    if not any("ram_bundle" in c for c in ctx.facts.cfg):
        ctx.remark("fact base built without feature ram_bundle: the module is not compiled in this configuration")
        ctx.ok("C20.cfg", "ram_bundle", "feature-off", "the ram_bundle module is not part of this build configuration (nothing to check)")
        return
    run_rules(ctx, RULES)
