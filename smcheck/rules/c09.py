"""C09 - rewriting a map never changes what any position resolves to."""
import pf
from rules import bldrules
from rules.common import run_rules

EXPLANATION = ("C09: (R1) every token is re-inserted, positionally intact, through add_token -> add_with_id (operand "
               "provenance of all eight arguments, no skip path); (R2) interning tables assign ids by first insertion; "
               "(R3) contents are attached to the new id and read by the old id under the three guards; (R4) file and "
               "debug id are carried over; (R5) a prefix is stripped only under starts_with of that same prefix, at most "
               "once; (R6) Hermes function maps and raw metadata are permuted by the same old-id mapping with "
               "non-panicking lookups; (R7) panic-freedom of the rewrite path."
               " (R9) SourceMapBuilder::new stores the file as given; (R9b) local contents are loaded only for sources without contents; (R9c) rewrite is rewrite_with_mapping on every path."
               " (R11) the prefix computed for \"~\" is the leading run of components all sources share (the shared-prefix helper of C19).")
NOT_DECIDED = "equality of the resolved strings before and after rewrite for all maps and option combinations (value-level)."


def r7(ctx):
    B = bldrules.B
    paths = [bldrules.RWM, "types::SourceMap::rewrite", B + "add_token", B + "add_with_id", B + "add_source_with_id", B + "add_name", B + "set_source_contents",
             B + "has_source_contents", B + "get_source_contents", B + "strip_prefixes", B + "take_mapping", B + "into_sourcemap", B + "new", B + "set_debug_id"]
    pf.check_bodies(ctx, "C09.R7", [ctx.body(p) for p in paths])


RULES = {
    # the "~" prefix is computed by find_common_prefix: what it returns must be a common prefix of all sources
    "C09.R11": lambda ctx: __import__("rules.pathrules", fromlist=["x"]).same_prefix(ctx, "C09.R11"),
    # "for Hermes maps every token resolves to the same enclosing function before and after": the scope lookup itself
    "C09.R10": lambda ctx: __import__("rules.detrules", fromlist=["x"]).hermes_lookup(ctx, "C09.R10"),
    "C09.RG": lambda ctx: __import__("rules.foundations", fromlist=["x"]).no_global_state(ctx, "C09.RG"),
    "C09.R9": lambda ctx: bldrules.builder_new(ctx, "C09.R9"),
    "C09.R9b": lambda ctx: bldrules.local_contents_only_when_missing(ctx, "C09.R9b"),
    "C09.R9c": lambda ctx: bldrules.rewrite_delegates(ctx, "C09.R9c"),
    "C09.R8": lambda ctx: __import__("rules.typesrules", fromlist=["x"]).key_agreement(ctx, "C09.R8"),
    "C09.RL": lambda ctx: __import__("rules.common", fromlist=["x"]).loop_exit_rule(ctx, "C09.RL", {'types::SourceMap::rewrite_with_mapping': 0, 'builder::SourceMapBuilder::strip_prefixes': 1}),
    "C09.R1": lambda ctx: bldrules.add_with_id(ctx, "C09.R1"),
    "C09.R2": lambda ctx: bldrules.interning(ctx, "C09.R2"),
    "C09.R3": lambda ctx: bldrules.rewrite_loop(ctx, "C09.R3"),
    "C09.R3b": lambda ctx: bldrules.contents_predicates(ctx, "C09.R3b"),
    "C09.R4": lambda ctx: bldrules.builder_calls(ctx, "C09.R4"),
    "C09.R5": lambda ctx: bldrules.strip_prefixes(ctx, "C09.R5"),
    "C09.R6": lambda ctx: bldrules.hermes_permutation(ctx, "C09.R6"),
    "C09.R0": lambda ctx: __import__("rules.foundations", fromlist=["x"]).accessors(ctx, "C09.R0", None),
    "C09.R7": r7,
}


def check(ctx):
    run_rules(ctx, RULES)
