import json, sys, glob
import jsonschema
m=json.load(open('/verif/MANIFEST.json')); s=json.load(open('/root/.vp/MANIFEST.schema.json'))
jsonschema.validate(m,s); print("manifest valid; claimed", len(m['checks']), "n/a", len(m.get('not_applicable',[])))
s=json.load(open('/root/.vp/EVIDENCE.schema.json'))
for f in sorted(glob.glob('/verif/evidence/*.json')):
    jsonschema.validate(json.load(open(f)),s)
print("evidence valid:", len(glob.glob('/verif/evidence/*.json')))
