#!/usr/bin/env python3
"""Keep a confirmed sub-agent mutant as /verif/seeded/<prop>-m<N>/ (patch.diff, demo.rs, meta.json).
usage: keepseed.py <PROP> <N>   (reads /tmp/mutout/<PROP>/mN.* and mN.eval.json)"""
import json, os, shutil, sys
prop, n = sys.argv[1], sys.argv[2]
src = os.environ.get("MUTROOT", "/tmp/mutout") + "/%s" % prop
ev = json.load(open(os.path.join(src, "m%s.eval.json" % n)))
assert ev["confirmed"], "not confirmed"
dst = "/verif/seeded/%s-%s%s" % (prop, os.environ.get("SEEDTAG", "m"), n)
os.makedirs(dst, exist_ok=True)
shutil.copy(os.path.join(src, "m%s.diff" % n), os.path.join(dst, "patch.diff"))
shutil.copy(os.path.join(src, "m%s_demo.rs" % n), os.path.join(dst, "demo.rs"))
md = open(os.path.join(src, "m%s.md" % n)).read() if os.path.exists(os.path.join(src, "m%s.md" % n)) else ""
det = sorted(p for p, v in ev["checks"].items() if isinstance(v, dict) and v.get("exit") == 1)
old = {}
if os.path.exists(os.path.join(dst, "meta.json")):
    old = json.load(open(os.path.join(dst, "meta.json")))
det = sorted(set(det) | set(old.get("detected_by", [])))
meta = {
    "id": os.path.basename(dst), "property": prop, "origin": "independent sub-agent given only the property text and a scratch worktree",
    "what": md.strip().split("\n")[0][:400] if md else "", "notes": md.strip()[:1800],
    "needs": "see notes (what is needed to manifest) and demo.rs",
    "ran": "confirmed in scratch worktree /tmp/mw_verify: demo passes on the unmodified tree (%s); with the patch applied the demo fails (%s) while `cargo test --offline` (existing suite) and `cargo build --offline --features ram_bundle` still succeed" % (
        ev["demo_clean"].split("\n")[0][:80], ev["demo_mutant"].split("\n")[0][:80]),
    "compiles_and_passes_suite": True,
    "detected_by": det,
    "also_breaks": [p for p in det if p != prop],
    "rules_fired": {p: v.get("rules") for p, v in ev["checks"].items() if isinstance(v, dict) and v.get("exit") == 1},
}
json.dump(meta, open(os.path.join(dst, "meta.json"), "w"), indent=1)
print("kept", dst, "detected_by", det)
