#!/usr/bin/env python3
"""Development aid: apply one textual mutation to /repo, run checks, revert.
usage: mut.py <file> <old> <new> <PROP>..."""
import subprocess, sys
f, old, new = sys.argv[1:4]
props = sys.argv[4:]
p = "/repo/" + f
s = open(p).read()
assert s.count(old) >= 1, "pattern not found"
open(p, "w").write(s.replace(old, new, 1))
try:
    r = subprocess.run(["cargo", "build", "--offline", "--features", "ram_bundle"], cwd="/repo", capture_output=True, text=True)
    if r.returncode != 0:
        print("MUTANT DOES NOT COMPILE"); print(r.stderr[-800:])
    else:
        for pr in props:
            r = subprocess.run(["/verif/check", pr], capture_output=True, text=True)
            lines = [l for l in r.stdout.splitlines() if l.startswith("  rule") or l.startswith(pr)]
            print("\n".join(l[:230] for l in lines[:6] + lines[-1:]))
finally:
    subprocess.run(["git", "-C", "/repo", "checkout", "--", "."])
