#!/usr/bin/env python3
"""Regenerate /verif/MANIFEST.json from the rule modules present in smcheck/rules."""
import importlib
import json
import os
import sys

HERE = os.path.dirname(os.path.abspath(__file__))
VERIF = os.path.dirname(HERE)
sys.path.insert(0, HERE)

ALL = ["C%02d" % i for i in range(1, 21)]
PENDING_REASON = ("no static rule for this property is registered yet in this revision of /verif (rule module "
                  "under construction; see DESIGN.md section 3 for the planned structural clauses)")


def main():
    checks = []
    na = []
    for pid in ALL:
        path = os.path.join(HERE, "rules", pid.lower() + ".py")
        if not os.path.exists(path):
            na.append({"property_id": pid, "reason": PENDING_REASON})
            continue
        mod = importlib.import_module("rules." + pid.lower())
        checks.append({
            "property_id": pid,
            "quick_cmd": "./check %s --tier quick" % pid,
            "thorough_cmd": "./check %s --tier thorough" % pid,
            "evidence_file": "/verif/evidence/%s.json" % pid,
            "replay_cmd_template": "cat {path}",
            "engine": "smcheck",
            "level_claimed": {
                "category": "other",
                "text": getattr(mod, "LEVEL_TEXT", None) or (
                    "Static analysis: structural necessary conditions of the property are decided for every path, call site and "
                    "definition in the resolved MIR of the current tree; the value-level behaviour itself is not decided. "
                    + getattr(mod, "EXPLANATION", "")),
                "design_ref": "DESIGN.md section 3, %s" % pid,
            },
            "level_note": "Trusted: rustc's MIR construction, std/dependency semantics of named calls, the smfacts/smcheck code. "
                          "Not decided: " + getattr(mod, "NOT_DECIDED", ""),
            "technique": getattr(mod, "TECHNIQUE", "static analysis: custom rules over resolved MIR (dominance, def-use, path conditions, constant tables)"),
        })
    manifest = {
        "version": 1,
        "setup_cmd": "./setup.sh",
        "hooks": {
            "guard": "none",
            "enable": "no hooks: the checks analyse the unmodified source (cargo +nightly check with the smfacts rustc driver as RUSTC_WORKSPACE_WRAPPER)",
            "baseline_off_cmd": "cd /repo && cargo test --workspace --no-fail-fast --offline",
            "source_commits": [],
            "add_only": True,
        },
        "engines": [
            {"name": "smfacts", "path": "smfacts/", "serves_properties": [c["property_id"] for c in checks],
             "kind_free_text": "rustc_private driver (nightly) dumping resolved MIR, ADT layouts, evaluated constants of /repo as JSON facts"},
            {"name": "smcheck", "path": "smcheck/", "serves_properties": [c["property_id"] for c in checks],
             "kind_free_text": "Python rule engine: dominance/path-condition/def-use/lock-region/panic-site rules per property over the fact base"},
        ],
        "checks": checks,
        "not_applicable": na,
        "notes": "Technique family: static analysis only. Every check re-extracts facts from /repo's working tree when its content hash changed.",
    }
    with open(os.path.join(VERIF, "MANIFEST.json"), "w") as f:
        json.dump(manifest, f, indent=1)
    print("claimed:", [c["property_id"] for c in checks])


if __name__ == "__main__":
    main()
