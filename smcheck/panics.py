"""G1: panic-site enumeration and discharge.

A *site* is an instruction that can panic: an Assert terminator (overflow, bounds, division)
or a call to a library API documented to panic. A site is discharged by a sound local proof
rule (interval reasoning over dominating comparisons, constant folding, API facts) or by an
entry of the reviewed table tables/exceptions.py (one reason per entry, keyed without line
numbers or local names). Everything else is reported.
"""
import q
from mir import Agg, Bin, Call, Cast, Const, Deref, Discr, Downcast, Field, Index, Named, Ref, Un, Unknown, Upvar, Var

# objects cannot be larger than this many bytes/elements (documented assumption: 64-bit target,
# 2^56 exceeds any addressable allocation); used for lengths, counts and indices
LEN_MAX = (1 << 56) - 1

INT_RANGE = {
    "u8": (0, 255), "u16": (0, 65535), "u32": (0, (1 << 32) - 1), "u64": (0, (1 << 64) - 1), "usize": (0, (1 << 64) - 1),
    "i8": (-128, 127), "i16": (-(1 << 15), (1 << 15) - 1), "i32": (-(1 << 31), (1 << 31) - 1),
    "i64": (-(1 << 63), (1 << 63) - 1), "isize": (-(1 << 63), (1 << 63) - 1), "u128": (0, (1 << 128) - 1),
    "i128": (-(1 << 127), (1 << 127) - 1), "bool": (0, 1), "char": (0, 0x10FFFF),
}

PANICKING_CALLS = {
    "Index::index": "index", "IndexMut::index_mut": "index",
    "Option::unwrap": "unwrap", "Option::expect": "unwrap", "Result::unwrap": "unwrap", "Result::expect": "unwrap",
    "Result::unwrap_err": "unwrap", "Result::expect_err": "unwrap",
    "slice::copy_from_slice": "copy_from_slice", "slice::clone_from_slice": "copy_from_slice",
    "BitSlice::set": "bitset", "BitSlice::replace": "bitset", "BitField::store_le": "bitstore", "BitField::store_be": "bitstore",
    "BitField::store": "bitstore", "BitField::load": "bitload", "BitField::load_le": "bitload", "BitField::load_be": "bitload",
    "BitSlice::chunks": "chunks", "slice::chunks": "chunks", "slice::chunks_exact": "chunks", "slice::windows": "chunks",
    "panicking::begin_panic": "panic", "panicking::panic": "panic", "panicking::panic_fmt": "panic",
    "panicking::assert_failed": "panic", "panicking::panic_display": "panic", "panicking::unreachable_display": "panic",
    "panicking::panic_explicit": "panic", "panicking::panic_nounwind": "panic",
    "Iterator::sum": "sum", "Iterator::product": "sum",
    "Vec::remove": "vec-index", "Vec::insert": "vec-index", "Vec::swap_remove": "vec-index", "Vec::split_off": "vec-index",
    "Vec::drain": "vec-index", "slice::split_at": "vec-index", "slice::split_at_mut": "vec-index", "str::split_at": "vec-index",
    "slice::swap": "vec-index", "slice::rotate_left": "vec-index", "slice::rotate_right": "vec-index",
    "String::remove": "vec-index", "String::insert": "vec-index", "String::truncate": "vec-index", "String::drain": "vec-index",
    "String::replace_range": "vec-index", "String::insert_str": "vec-index", "String::split_off": "vec-index",
    "RefCell::borrow": "refcell", "RefCell::borrow_mut": "refcell",
    "Iterator::step_by": "step_by", "u32::pow": "pow", "usize::pow": "pow", "i64::pow": "pow", "u64::pow": "pow",
    "i64::abs": "abs", "i32::abs": "abs", "Duration::new": "panic-api", "char::from_digit": "panic-api",
    "u32::div_ceil": "div", "usize::div_ceil": "div", "u32::next_power_of_two": "pow", "usize::next_power_of_two": "pow",
    "Iterator::min_by_key": None, "Iterator::max_by_key": None,
}
PANICKING_CALLS = {k: v for k, v in PANICKING_CALLS.items() if v}

ALLOC_CALLS = {"Vec::with_capacity": 0, "Vec::resize": 1, "BitVec::resize": 1, "vec::from_elem": 1, "Vec::reserve": 1,
               "Vec::reserve_exact": 1, "String::with_capacity": 0, "String::reserve": 1, "BitVec::with_capacity": 0,
               "BitVec::repeat": 1, "HashMap::with_capacity": 0, "Vec::extend_from_within": None, "slice::repeat": 1,
               "str::repeat": 1, "iter::repeat_n": 1, "Iterator::cycle": None}


import re as _re

_LEN_FNS = ("PtrMetadata(", "Vec::len(", "str::len(", "slice::len(", "String::len(")
_TRANSPARENT_VIEWS = ("str::as_bytes(", "String::as_bytes(", "Vec::as_slice(", "String::as_str(", "slice::iter(")


def _strip_call(s, name):
    """Remove every standalone `name(` ... `)` wrapper (balanced) from a shape string, keeping
    the argument text."""
    rx = _re.compile(r"(?<![\w:])" + _re.escape(name))
    pos = 0
    while True:
        m = rx.search(s, pos)
        if not m:
            return s
        i = m.start()
        j = m.end() - 1  # index of '('
        depth = 0
        k = j
        while k < len(s):
            if s[k] == "(":
                depth += 1
            elif s[k] == ")":
                depth -= 1
                if depth == 0:
                    break
            k += 1
        if k >= len(s):
            return s
        s = s[:i] + s[j + 1:k] + s[k + 1:]
        pos = i


def norm_len(sh):
    """Identify the different spellings of 'length of X': PtrMetadata(X), Vec::len(X), str::len(X),
    slice::len(X), also through as_bytes()/as_slice() views (same length by API contract)."""
    for v in _TRANSPARENT_VIEWS[:4]:
        sh = _strip_call(sh, v)
    for f in _LEN_FNS:
        sh = _re.sub(r"(?<![\w:])" + _re.escape(f), "len(", sh)
    return sh


def USH(e):
    """shape with unique local names (sound identity of variables) and normalised lengths."""
    return norm_len(q.shape(e, q.UNIQ))


class Site:
    def __init__(self, body, bb, kind, what, desc, span, node, extra=None):
        self.body = body
        self.bb = bb
        self.kind = kind      # 'assert' | 'call'
        self.what = what      # e.g. 'Overflow:Add:u32', 'Bounds', 'index', 'unwrap', 'panic'
        self.desc = desc      # canonical descriptor (shape based, no names / lines)
        self.span = span
        self.node = node
        self.extra = extra or {}

    def key(self):
        return "%s|%s" % (self.what, self.desc)

    def __repr__(self):
        return "<Site %s %s %s>" % (self.body.path, self.what, self.desc)


def sites_of(body):
    out = []
    for bi, t in body.asserts():
        m = t["msg"]
        k = m["k"]
        if k == "Overflow":
            l = body.expr_of_operand(m["l"])
            r = body.expr_of_operand(m["r"])
            what = "Overflow:%s:%s" % (m["op"], m.get("ty", "?"))
            desc = "%s,%s" % (q.shape(l), q.shape(r))
            out.append(Site(body, bi, "assert", what, desc, t["span"], t, {"l": l, "r": r, "op": m["op"], "ty": m.get("ty")}))
        elif k == "OverflowNeg":
            x = body.expr_of_operand(m["x"])
            out.append(Site(body, bi, "assert", "OverflowNeg:%s" % m.get("ty", "?"), q.shape(x), t["span"], t, {"x": x, "ty": m.get("ty")}))
        elif k == "BoundsCheck":
            ln = body.expr_of_operand(m["len"])
            ix = body.expr_of_operand(m["index"])
            out.append(Site(body, bi, "assert", "Bounds", "%s[%s]" % (q.shape(ln), q.shape(ix)), t["span"], t, {"len": ln, "index": ix}))
        elif k in ("DivisionByZero", "RemainderByZero"):
            x = body.expr_of_operand(m["x"])
            out.append(Site(body, bi, "assert", k, q.shape(x), t["span"], t, {"x": x}))
        else:
            out.append(Site(body, bi, "assert", k, m.get("dbg", ""), t["span"], t))
    for bi, t in body.calls():
        nm = q.nice(t.get("callee"))
        if nm in PANICKING_CALLS:
            e = body.expr_of_call(t)
            out.append(Site(body, bi, "call", PANICKING_CALLS[nm], q.shape(e), t["span"], t, {"call": e, "name": nm}))
    return out


# ---------------------------------------------------------------------------
# intervals
# ---------------------------------------------------------------------------
def ty_range(ty):
    return INT_RANGE.get(ty)


def _join(a, b):
    if a is None:
        return b
    if b is None:
        return a
    return (min(a[0], b[0]), max(a[1], b[1]))


def _clamp(iv, ty):
    if iv == (1, 0):
        return iv
    r = ty_range(ty)
    if r is None:
        return iv
    if iv is None:
        return r
    if iv[0] < r[0] or iv[1] > r[1]:
        return r
    return iv


LEN_CALLS = {"Vec::len", "str::len", "slice::len", "String::len", "Iterator::count", "BitSlice::len", "BitVec::len",
             "BTreeSet::len", "HashMap::len", "VecDeque::len"}


def expr_ty(e):
    """Static type of an expression where the fact base records it."""
    if isinstance(e, (Var, Named, Const)):
        return e.ty
    if isinstance(e, Upvar):
        return e.ty
    if isinstance(e, Field):
        return e.ty
    if isinstance(e, Cast):
        return e.to_ty
    if isinstance(e, Call):
        return e.t["dest"]["ty"]
    if isinstance(e, Deref):
        t = expr_ty(e.x)
        if t and t.startswith("&"):
            t = t[1:]
            if t.startswith("'"):
                t = t.split(" ", 1)[1] if " " in t else t
            if t.startswith("mut "):
                t = t[4:]
            return t
        return None
    if isinstance(e, Bin):
        return "bool" if e.op in ("Lt", "Le", "Gt", "Ge", "Eq", "Ne") else e.lty
    if isinstance(e, Index):
        t = expr_ty(e.x)
        if t:
            import re
            m = re.match(r"^\[(.+); \d+\]$", t) or re.match(r"^\[(.+)\]$", t) or re.match(r"^alloc::vec::Vec<(.+)>$", t)
            if m:
                return m.group(1)
        return None
    return None


def _is_index_source(e):
    """Expressions that yield an index/count into an in-memory collection (bounded by LEN_MAX):
    the counter of enumerate(), char_indices()/match_indices() offsets, position() results."""
    x = e
    while isinstance(x, Named):
        x = x.x
    if isinstance(x, Field) and x.idx == 0:
        d = x.x
        while isinstance(d, Named):
            d = d.x
        if isinstance(d, Downcast) and d.variant == "Some":
            c = d.x
            while isinstance(c, (Named, Ref, Deref)):
                c = c.x
            if isinstance(c, Call) and q.nice(c.callee) in ("Iterator::position", "Iterator::rposition", "str::find", "str::rfind"):
                return True
        y = x.x
        while isinstance(y, (Named, Field)) and not (isinstance(y, Field) and False):
            if isinstance(y, Field):
                break
            y = y.x
        # (try(next(iter))).0 [.0]
        base = x.x
        while isinstance(base, (Named,)):
            base = base.x
        if isinstance(base, Field) and base.idx == 0:
            base = base.x  # tuple inside Some
        while isinstance(base, Named):
            base = base.x
        if isinstance(base, Downcast) and base.variant == "Some":
            c = base.x
            while isinstance(c, (Named, Ref, Deref)):
                c = c.x
            if isinstance(c, Call) and q.nice(c.callee) == "Iterator::next":
                recv = c.t["arg_tys"][0] if c.t.get("arg_tys") else ""
                for it in ("Enumerate<", "CharIndices<", "MatchIndices<"):
                    if ("::%s" % it) in recv or recv.startswith("&mut core::iter::adapters::enumerate::Enumerate<") or it in recv.split("<")[0] + "<":
                        return True
                if "enumerate::Enumerate<" in recv or "iter::CharIndices<" in recv or "iter::MatchIndices<" in recv:
                    return True
    return False


class Intervals:
    """Interval evaluation of expression trees at a program point (block)."""

    def __init__(self, body, bb):
        self.body = body
        self.bb = bb
        self.bounds = {}  # shape -> (lo, hi) from dominating comparisons with constants
        self.rel = set()  # (op, lshape, rshape) relational facts
        self.bools = set()  # (True/False, shape) boolean call facts
        for c in q.path_conditions(body, bb):
            if stale(body, c, bb):
                continue
            for f in q.facts_of_cond(c, q.UNIQ):
                self._learn(f)
        self._learn_call_facts()
        self._alias_len_snapshots()
        self._var_cache = {}

    def _learn(self, f):
        if isinstance(f.l, str):
            f.l = norm_len(f.l)
        if isinstance(f.r, str):
            f.r = norm_len(f.r)
        if f.op in ("true", "false"):
            self.bools.add((f.op == "true", f.l))
        if f.op == "true":
            # documented value ranges of core's ASCII classifiers
            m = _re.match(r"^(?:u8|char)::is_ascii(_uppercase|_lowercase|_digit|)\((.*)\)$", f.l)
            if m:
                lo, hi = {"_uppercase": (65, 90), "_lowercase": (97, 122), "_digit": (48, 57), "": (0, 127)}[m.group(1)]
                self._tight(m.group(2), lo, hi)
        if f.op in ("true", "false") and f.l.endswith(")") and "::is_empty(" in f.l:
            m = _re.match(r"^[\w\[\]]+::is_empty\((.*)\)$", f.l)
            if m:
                key = "len(%s)" % norm_len(m.group(1))
                if f.op == "false":
                    self._tight(key, 1, None)
                else:
                    self._tight(key, 0, 0)
        if f.op in ("Lt", "Le", "Eq", "Ne"):
            self.rel.add((f.op, f.l, f.r))
            lc, rc = _as_int(f.l), _as_int(f.r)
            if rc is not None and lc is None:
                self._bound(f.l, f.op, rc, True)
            elif lc is not None and rc is None:
                self._bound(f.r, f.op, lc, False)
        elif f.op in ("in",) and len(f.r) >= 1:
            vals = list(f.r)
            self._tight(f.l, min(vals), max(vals))

    def _tight(self, sh, lo, hi):
        cur = self.bounds.get(sh, (None, None))
        nlo = lo if cur[0] is None else (max(cur[0], lo) if lo is not None else cur[0])
        nhi = hi if cur[1] is None else (min(cur[1], hi) if hi is not None else cur[1])
        self.bounds[sh] = (nlo, nhi)

    def _bound(self, sh, op, c, var_on_left):
        if op == "Eq":
            self._tight(sh, c, c)
        elif op == "Lt":
            if var_on_left:
                self._tight(sh, None, c - 1)
            else:
                self._tight(sh, c + 1, None)
        elif op == "Le":
            if var_on_left:
                self._tight(sh, None, c)
            else:
                self._tight(sh, c, None)
        elif op == "Ne":
            # only useful at the ends of a known range: x != 0 for unsigned
            if c == 0:
                self.bounds.setdefault(sh, (None, None))
                cur = self.bounds[sh]
                self.bounds[sh] = (cur[0], cur[1], "ne0")

    def _alias_len_snapshots(self):
        """`let n = v.len();` followed by tests on n: the bounds learnt for the snapshot n also
        hold for len(v) at this point if v was not modified since the snapshot was taken."""
        body = self.body
        for key in list(self.bounds):
            m = _re.match(r"^_(\d+)$", key)
            if not m:
                continue
            l = int(m.group(1))
            ds = body.defs.get(l, [])
            if len(ds) != 1 or body.partial_defs.get(l):
                continue
            bi, si, kind, node = ds[0]
            ex = body.expr_of_call(node) if kind == "call" else body.expr_of_rvalue(node["rv"])
            x = ex
            while isinstance(x, (Named, Ref, Deref)):
                x = x.x
            if isinstance(x, Call) and q.nice(x.callee) in LEN_CALLS and x.args:
                root = q.root_local(x.args[0])
                if root is not None and not mutated_between(body, root, bi, self.bb):
                    tgt = USH(ex)
                    b = self.bounds[key]
                    cur = self.bounds.get(tgt, (None, None))
                    lo = b[0] if cur[0] is None else (max(cur[0], b[0]) if b[0] is not None else cur[0])
                    hi = b[1] if cur[1] is None else (min(cur[1], b[1]) if b[1] is not None else cur[1])
                    self.bounds[tgt] = (lo, hi)

    def _learn_call_facts(self):
        """Facts implied by library call results on the dominating edges (API contracts)."""
        body = self.body
        for c in q.path_conditions(body, self.bb):
            e = c.discr
            while isinstance(e, Named):
                e = e.x
            if isinstance(e, Discr):
                inner = e.x
                while isinstance(inner, (Named, Ref, Deref)):
                    inner = inner.x
                some = (not c.neg and c.values == {1}) or (c.neg and c.values == {0})
                cont = (not c.neg and c.values == {0})
                # try(ok_or(checked_shl(v, s))) succeeded  =>  s < bits
                if isinstance(inner, Call) and q.nice(inner.callee) == "Try::branch" and cont:
                    x = inner.args[0]
                    while isinstance(x, (Named, Ref, Deref)):
                        x = x.x
                    if isinstance(x, Call) and q.nice(x.callee) in ("Option::ok_or", "Option::ok_or_else"):
                        y = x.args[0]
                        while isinstance(y, (Named, Ref, Deref)):
                            y = y.x
                        self._checked_facts(y, c)
                if isinstance(inner, Call) and some:
                    self._checked_facts(inner, c, is_some=True)

    def _checked_facts(self, y, c, is_some=True):
        if not isinstance(y, Call):
            return
        nm = q.nice(y.callee)
        if nm.endswith("::checked_shl") or nm.endswith("::checked_shr"):
            bits = 64 if nm.startswith(("i64", "u64", "usize", "isize")) else 32 if nm.startswith(("i32", "u32")) else None
            if bits and not stale_expr(self.body, y.args[1], c.bb, self.bb):
                self._tight(USH(y.args[1]), None, bits - 1)
        if nm.endswith("::checked_sub") and is_some:
            if not stale_expr(self.body, y.args[0], c.bb, self.bb) and not stale_expr(self.body, y.args[1], c.bb, self.bb):
                self.rel.add(("Le", USH(y.args[1]), USH(y.args[0])))

    # -- evaluation ---------------------------------------------------------
    def of(self, e, depth=12):
        iv = self._of(e, depth)
        if iv == _BOTTOM:
            return _BOTTOM
        sh = USH(e)
        b = self.bounds.get(sh)
        if b is not None:
            lo, hi = b[0], b[1]
            base = iv
            if base is None:
                return None if lo is None or hi is None else (lo, hi)
            nlo = base[0] if lo is None else max(base[0], lo)
            nhi = base[1] if hi is None else min(base[1], hi)
            if len(b) > 2 and nlo == 0:
                nlo = 1
            if nlo <= nhi:
                return (nlo, nhi)
        return iv

    def _of(self, e, depth):
        if depth <= 0:
            return None
        if isinstance(e, Named):
            inner = self.of(e.x, depth)
            return inner if inner is not None else ty_range(e.ty)
        if isinstance(e, Deref):
            inner = self.of(e.x, depth)
            return inner if inner is not None else ty_range(expr_ty(e))
        if isinstance(e, Ref):
            return self.of(e.x, depth)
        if isinstance(e, Const):
            if e.int is not None:
                return (e.int, e.int)
            return ty_range(e.ty)
        if isinstance(e, Var):
            return self._var(e)
        if isinstance(e, Cast):
            inner = self.of(e.x, depth - 1)
            if inner == _BOTTOM:
                return _BOTTOM
            r = ty_range(e.to_ty)
            if r is None:
                return inner
            if inner is None:
                return r
            if inner[0] >= r[0] and inner[1] <= r[1]:
                return inner
            return r
        if isinstance(e, Field):
            inner = e.x
            while isinstance(inner, Named):
                inner = inner.x
            if isinstance(inner, Bin) and inner.op.endswith("WithOverflow") and e.idx == 0:
                if inner.op == "SubWithOverflow":
                    # the checked result of an unsigned subtraction (its own overflow assert is a site of its own):
                    # it lies between 0 and the minuend, whatever is known about the subtrahend
                    r = ty_range(inner.lty)
                    a = self.of(inner.l, depth - 1)
                    if r is not None and r[0] == 0 and a is not None and a != _BOTTOM and a[0] >= 0:
                        b = self.of(inner.r, depth - 1)
                        if b is None or b == _BOTTOM:
                            return (0, a[1])
                        lo, hi = max(0, a[0] - b[1]), a[1] - max(0, b[0])
                        if ("Lt", USH(inner.r), USH(inner.l)) in self.rel:
                            lo = max(lo, 1)
                        if lo <= hi:
                            return (lo, hi)
                return _clamp(self._bin(inner.op[:-12], inner.l, inner.r, depth), inner.lty)
            if _is_index_source(e):
                return (0, LEN_MAX)
            return ty_range(e.ty)
        if isinstance(e, Bin):
            return _clamp(self._bin(e.op, e.l, e.r, depth), e.lty) if e.op not in ("Lt", "Le", "Gt", "Ge", "Eq", "Ne") else (0, 1)
        if isinstance(e, Un):
            x = self.of(e.x, depth - 1)
            if x == _BOTTOM:
                return _BOTTOM
            if e.op == "Neg" and x is not None:
                return (-x[1], -x[0])
            if e.op == "PtrMetadata":
                return (0, LEN_MAX)
            return None
        if isinstance(e, Call):
            nm = q.nice(e.callee)
            if e.callee in q.TRANSPARENT_CALLS and len(e.args) == 1:
                inner = self.of(e.args[0], depth - 1)
                if inner == _BOTTOM:
                    return _BOTTOM
                dty = e.t["dest"]["ty"]
                r = ty_range(dty)
                if r is not None and inner is not None and inner[0] >= r[0] and inner[1] <= r[1]:
                    return inner
                return r or inner
            if nm in LEN_CALLS:
                return (0, LEN_MAX)
            if nm == "char::len_utf8":
                return (1, 4)
            if nm == "char::len_utf16":
                return (1, 2)
            if nm == "mem::size_of":
                return (0, 1 << 16)
            if nm.endswith("::saturating_add") or nm.endswith("::saturating_sub") or nm.endswith("::wrapping_add"):
                return ty_range(e.t["dest"]["ty"])
            return ty_range(e.t["dest"]["ty"])
        if isinstance(e, Downcast):
            return None
        if isinstance(e, Index):
            return ty_range(expr_ty(e))
        return self._leaf_type(e)

    def _leaf_type(self, e):
        if _is_index_source(e):
            return (0, LEN_MAX)
        return ty_range(expr_ty(e))

    def _var(self, v):
        if v.local in self._var_cache:
            return self._var_cache[v.local]
        tr = ty_range(v.ty)
        if tr is None:
            return None
        if v.is_arg:
            return tr
        body = self.body
        defs = body.defs.get(v.local, [])
        if not defs or body.partial_defs.get(v.local):
            self._var_cache[v.local] = tr
            return tr
        # flow-insensitive join over all definitions (evaluated without path facts), bounded fixpoint
        plain = Intervals.__new__(Intervals)
        plain.body = body
        plain.bb = self.bb
        plain.bounds = {}
        plain.rel = set()
        plain._var_cache = self._var_cache
        cur = _BOTTOM
        self._var_cache[v.local] = cur
        stable = False
        for _ in range(6):
            new = _BOTTOM
            for bi, si, kind, node in defs:
                if kind == "assign":
                    iv = plain.of(body.expr_of_rvalue(node["rv"]))
                else:
                    iv = ty_range(node["dest"]["ty"])
                if iv is None:
                    new = tr
                    break
                if iv is _BOTTOM or iv == _BOTTOM:
                    continue
                new = _join_b(new, _clamp(iv, v.ty))
            if new == cur:
                stable = True
                break
            cur = new
            self._var_cache[v.local] = cur
        if not stable or cur == _BOTTOM:
            cur = tr
        self._var_cache[v.local] = cur
        return cur

    def _bin(self, op, l, r, depth):
        a = self.of(l, depth - 1)
        b = self.of(r, depth - 1)
        if op in ("BitAnd",):
            # x & mask with non-negative constant mask
            if a == _BOTTOM or b == _BOTTOM:
                return _BOTTOM
            for x, y in ((a, b), (b, a)):
                if y is not None and y[0] == y[1] and y[0] >= 0:
                    return (0, y[0])
            if a is not None and b is not None and a[0] >= 0 and b[0] >= 0:
                return (0, min(a[1], b[1]))
            return None
        if a == _BOTTOM or b == _BOTTOM:
            return _BOTTOM
        if a is None or b is None:
            return None
        if op == "Add":
            return (a[0] + b[0], a[1] + b[1])
        if op == "Sub":
            lo, hi = a[0] - b[1], a[1] - b[0]
            # relational tightening: b <= a known  =>  a - b >= 0
            if ("Le", USH(r), USH(l)) in self.rel or ("Lt", USH(r), USH(l)) in self.rel:
                lo = max(lo, 0)
                if ("Lt", USH(r), USH(l)) in self.rel:
                    lo = max(lo, 1)
            return (lo, hi)
        if op == "Mul":
            c = [a[0] * b[0], a[0] * b[1], a[1] * b[0], a[1] * b[1]]
            return (min(c), max(c))
        if op == "Div" and b[0] > 0:
            c = [a[0] // b[0], a[0] // b[1], a[1] // b[0], a[1] // b[1]]
            return (min(c), max(c))
        if op == "Rem" and b[0] > 0 and a[0] >= 0:
            return (0, b[1] - 1)
        if op == "Shr" and b[0] == b[1] and b[0] >= 0:
            return (a[0] >> b[0], a[1] >> b[0])
        if op == "Shl" and b[0] == b[1] and 0 <= b[0] < 128:
            return (a[0] << b[0], a[1] << b[0]) if a[0] >= 0 else (min(a[0] << b[0], a[0]), a[1] << b[0])
        if op == "BitOr" and a[0] >= 0 and b[0] >= 0:
            m = max(a[1], b[1])
            p = 1
            while p <= m:
                p <<= 1
            return (max(a[0], b[0]), p - 1)
        return None


_BOTTOM = (1, 0)


def _join_b(a, b):
    if a == _BOTTOM:
        return b
    if b == _BOTTOM:
        return a
    return (min(a[0], b[0]), max(a[1], b[1]))


def _as_int(sh):
    try:
        return int(sh)
    except (TypeError, ValueError):
        return None


def mutated_between(body, local, a_bb, b_bb):
    """Is `local` (or memory reachable through it) possibly written on a path a_bb -> b_bb?
    Whole/partial definitions and mutable borrows count."""
    if local is None:
        return False
    # blocks on a path from the test (a) to the use (b) that does not pass the test again
    fwd = set()
    stack = [x for x in body.succ[a_bb] if x != a_bb]
    while stack:
        x = stack.pop()
        if x in fwd or x == a_bb:
            continue
        fwd.add(x)
        if x == b_bb:
            continue  # the use ends the path
        stack.extend(body.succ[x])
    bwd = set()
    stack = [b_bb]
    while stack:
        x = stack.pop()
        if x in bwd or x == a_bb:
            continue
        bwd.add(x)
        stack.extend(p for p in body.pred[x])
    on_path = fwd & bwd
    # statements of b_bb before the use are included conservatively
    for bi in on_path:
        blk = body.blocks[bi]
        for s in blk["stmts"]:
            if s["k"] == "assign":
                if s["place"]["l"] == local:
                    return True
                rv = s["rv"]
                if rv["k"] in ("ref", "rawptr") and rv.get("mut") and rv["place"]["l"] == local:
                    return True
        t = blk["term"]
        if t["k"] == "call" and t["dest"]["l"] == local:
            return True
    return False


def _walk_no_named(e):
    """Walk an expression without descending into immutable named bindings: their value is
    fixed at their (single) definition, and a test that dominates a use always refers to the
    binding's current value."""
    yield e
    if isinstance(e, Named):
        return
    for c in e.children():
        yield from _walk_no_named(c)


def stale_expr(body, e, a_bb, b_bb):
    for x in _walk_no_named(e):
        if isinstance(x, Var):
            if x.is_arg and not body.locals[x.local]["mut"] and not x.ty.startswith("&mut"):
                continue
            if mutated_between(body, x.local, a_bb, b_bb):
                return True
    return False


def stale(body, cond, bb):
    """A path condition is stale at bb if a variable it reads may have changed since the test."""
    return stale_expr(body, cond.discr, cond.bb, bb)


# ---------------------------------------------------------------------------
# discharge rules
# ---------------------------------------------------------------------------
def discharge(site, facts=None):
    """Return (rule, reason) if a sound local rule proves the site cannot panic, else None."""
    body = site.body
    if site.kind == "assert":
        import absint
        cv = absint.eval_expr(body.expr_of_operand(site.node["cond"]), {})
        if cv is not None and bool(cv) == site.node["expected"]:
            return ("const-cond", "the asserted condition is a compile-time constant")
        if site.what.startswith("Overflow:"):
            return _overflow(site)
        if site.what.startswith("OverflowNeg"):
            iv = Intervals(body, site.bb)
            x = iv.of(site.extra["x"])
            r = ty_range(site.extra["ty"])
            if x is not None and r is not None and x[0] > r[0]:
                return ("interval", "operand of negation is in %s, never %s::MIN" % (x, site.extra["ty"]))
            return None
        if site.what == "Bounds":
            iv = Intervals(body, site.bb)
            ix = iv.of(site.extra["index"])
            ln = site.extra["len"]
            lnv = iv.of(ln)
            lconst = _const_len(body, ln, facts)
            if lconst is not None:
                lnv = (lconst, lconst)
            if ix is not None and lnv is not None and ix[0] >= 0 and ix[1] < lnv[0]:
                return ("interval", "index in %s is below the length %s" % (ix, lnv))
            if ("Lt", USH(site.extra["index"]), USH(ln)) in iv.rel:
                return ("guard-cmp", "dominated by index < len")
            return None
        if site.what in ("DivisionByZero", "RemainderByZero"):
            iv = Intervals(body, site.bb)
            x = iv.of(site.extra["x"])
            if x is not None and (x[0] > 0 or x[1] < 0):
                return ("interval", "divisor in %s is never zero" % (x,))
            return None
        return None
    # calls
    e = site.extra["call"]
    nm = site.extra["name"]
    if site.what == "index":
        idx_ty = site.node["arg_tys"][1] if len(site.node["arg_tys"]) > 1 else ""
        if idx_ty.startswith("core::ops::range::RangeFull"):
            return ("range-full", "x[..] cannot panic")
        return _index_call(site)
    if site.what == "chunks":
        iv = Intervals(body, site.bb)
        n = iv.of(e.args[1])
        if n is not None and n[0] > 0:
            return ("interval", "chunk size %s is non-zero" % (n,))
        return None
    if site.what == "div" and len(e.args) == 2:
        iv = Intervals(body, site.bb)
        n = iv.of(e.args[1])
        if n is not None and (n[0] > 0 or n[1] < 0):
            return ("interval", "divisor %s of %s is never zero" % (n, nm))
        return None
    return None


def _const_len(body, ln, facts):
    """Length of a constant slice/array operand, if the bounds-check length is PtrMetadata of a constant."""
    x = ln
    while isinstance(x, (Named, Ref, Deref)):
        x = x.x
    if isinstance(x, Un) and x.op == "PtrMetadata":
        y = x.x
        while isinstance(y, (Named, Ref, Deref)):
            y = y.x
        if isinstance(y, Const) and y.c.get("uneval") and facts is not None:
            c = facts.consts.get(y.c["uneval"])
            if c is not None:
                a = c.get("alloc", {})
                if a.get("ptrs"):
                    return len(a["ptrs"][0]["alloc"].get("bytes", []))
    return None


def _overflow(site):
    body = site.body
    iv = Intervals(body, site.bb)
    op, ty = site.extra["op"], site.extra["ty"]
    l, r = site.extra["l"], site.extra["r"]
    rng = ty_range(ty)
    if op in ("Shl", "Shr"):
        b = iv.of(r)
        bits = {"u8": 8, "i8": 8, "u16": 16, "i16": 16, "u32": 32, "i32": 32, "u64": 64, "i64": 64, "usize": 64, "isize": 64}.get(ty)
        if b is not None and bits and 0 <= b[0] and b[1] < bits:
            return ("interval", "shift amount in %s is below the width %d" % (b, bits))
        return None
    if rng is None:
        return None
    if op == "Add" and ty in ("usize", "u64"):
        sc = _slow_counter(body, iv, l, r) or _slow_counter(body, iv, r, l)
        if sc:
            return ("slow-counter", sc)
    res = iv._bin(op, l, r, 12)
    if res is None or res is _BOTTOM:
        return None
    if res[0] >= rng[0] and res[1] <= rng[1]:
        return ("interval", "%s of %s and %s stays within %s (result in [%d, %d])" % (op, iv.of(l), iv.of(r), ty, res[0], res[1]))
    return None


def _unwrap_named(e):
    while isinstance(e, (Named,)):
        e = e.x
    return e


def _slow_counter(body, iv, v, step):
    """64-bit unsigned counter: every definition is a length-bounded value, another such counter,
    or `self + small`; it cannot reach 2^64 in fewer than 2^56 steps of at most 256."""
    v = _unwrap_named(v) if not isinstance(v, Var) else v
    if not isinstance(v, Var) or v.is_arg or v.ty not in ("usize", "u64"):
        return None
    st = iv.of(step)
    if st is None or st == _BOTTOM or st[0] < 0 or st[1] > 256:
        return None
    if _slow_var(body, iv.bb, v.local, set()):
        return "64-bit counter: every definition is a length-bounded value or self + (<=256); cannot reach 2^64"
    return None


def _slow_var(body, bb, local, seen):
    if local in seen:
        return True
    seen = seen | {local}
    if body.partial_defs.get(local) or local <= body.arg_count:
        return False
    if body.local_ty(local) not in ("usize", "u64"):
        return False
    plain = Intervals.__new__(Intervals)
    plain.body = body
    plain.bb = bb
    plain.bounds = {}
    plain.rel = set()
    for bi, si, kind, node in body.defs.get(local, []):
        if kind != "assign":
            return False
        ex = body.expr_of_rvalue(node["rv"])
        y = _unwrap_named(ex)
        if isinstance(y, Field) and y.idx == 0:
            inner = _unwrap_named(y.x)
            if isinstance(inner, Bin) and inner.op == "AddWithOverflow":
                y = Bin("Add", inner.l, inner.r, inner.lty)
        if isinstance(y, Var) and not y.is_arg and _slow_var(body, bb, y.local, seen):
            continue
        if isinstance(y, Bin) and y.op == "Add":
            a, b = _unwrap_named(y.l), _unwrap_named(y.r)
            ok = False
            for me, other in ((a, y.r), (b, y.l)):
                if isinstance(me, Var) and (me.local == local or _slow_var(body, bb, me.local, seen)):
                    plain._var_cache = {}
                    o = plain.of(other)
                    if o is not None and o != _BOTTOM and o[0] >= 0 and o[1] <= 256:
                        ok = True
                        break
            if ok:
                continue
            return False
        plain._var_cache = {local: (0, 0)}
        o = plain.of(ex)
        if o is None or o == _BOTTOM or o[0] < 0 or o[1] > LEN_MAX + 256:
            return False
    return True


def _index_call(site):
    """x[i] / x[a..b] through Index::index on Vec/slice/str: interval/relational reasoning for
    integer indices and ranges whose bounds are provably within the length."""
    body = site.body
    e = site.extra["call"]
    if len(e.args) != 2:
        return None
    iv = Intervals(body, site.bb)
    base, idx = e.args
    idx_ty = site.node["arg_tys"][1]
    base_sh = USH(base)
    lenkey = "len(%s)" % base_sh
    if idx_ty in ("usize",):
        ix = iv.of(idx)
        if ("Lt", USH(idx), lenkey) in iv.rel:
            return ("guard-cmp", "dominated by index < len(base)")
        lb = iv.bounds.get(lenkey)
        if ix is not None and lb is not None and lb[0] is not None and ix[0] >= 0 and ix[1] < lb[0]:
            return ("guard-len", "index in %s below the dominating lower bound %d of the length" % (ix, lb[0]))
        return None
    x = idx
    while isinstance(x, Named):
        x = x.x
    if isinstance(x, Agg) and x.ak == "adt":
        nm = x.adt.split("::")[-1]
        if nm == "RangeFrom":
            s = x.ops[0]
            ssh = USH(s)
            if ssh == lenkey:
                return ("range-from-len", "x[x.len()..] is the empty tail")
            if ssh.startswith("len(") and ssh.endswith(")"):
                pfx = ssh[4:-1]
                if (True, "str::starts_with(%s,%s)" % (base_sh, pfx)) in iv.bools:
                    return ("str-prefix", "s[p.len()..] dominated by s.starts_with(p): a char boundary within the string")
            if not idx_ty.endswith("<usize>"):
                return None
    return None
