"""Value-partition reachability: a small abstract interpreter over MIR control flow.

Given a body, a start block and an environment that assigns concrete representative
values to a few *tracked expressions* (identified by their canonical shape, e.g.
`Vec::len(nums)`), follow the CFG: a SwitchInt whose discriminant can be evaluated from
the environment takes the one matching edge; every other switch takes all edges. The
result is the set of blocks reachable under that assignment. Running it for every
representative of a finite partition of the tracked value's domain decides statements of
the form "for inputs of class k no path reaches site S" for all paths at once.

This interprets branch conditions only; no statement of the analysed program is executed.
"""
from collections import deque

import re

import q
from mir import Agg, Bin, Call, Cast, Const, Deref, Discr, Downcast, Field, Named, Ref, Un, Var

MASKS = {"u8": 0xFF, "u16": 0xFFFF, "u32": 0xFFFFFFFF, "u64": (1 << 64) - 1, "usize": (1 << 64) - 1}


# documented, pure classification functions of core on u8 / char (ASCII range); the argument is the scalar value
_ASCII = {
    "is_ascii": lambda v: v < 128,
    "is_ascii_uppercase": lambda v: 65 <= v <= 90,
    "is_ascii_lowercase": lambda v: 97 <= v <= 122,
    "is_ascii_alphabetic": lambda v: 65 <= v <= 90 or 97 <= v <= 122,
    "is_ascii_digit": lambda v: 48 <= v <= 57,
    "is_ascii_alphanumeric": lambda v: 48 <= v <= 57 or 65 <= v <= 90 or 97 <= v <= 122,
    "is_ascii_hexdigit": lambda v: 48 <= v <= 57 or 65 <= v <= 70 or 97 <= v <= 102,
    "is_ascii_whitespace": lambda v: v in (9, 10, 12, 13, 32),
    "is_ascii_control": lambda v: v < 32 or v == 127,
    "is_ascii_graphic": lambda v: 33 <= v <= 126,
    "is_ascii_punctuation": lambda v: 33 <= v <= 47 or 58 <= v <= 64 or 91 <= v <= 96 or 123 <= v <= 126,
    "to_ascii_lowercase": lambda v: v + 32 if 65 <= v <= 90 else v,
    "to_ascii_uppercase": lambda v: v - 32 if 97 <= v <= 122 else v,
}
STD_PURE = {}
for _t in ("u8", "char"):
    for _n, _f in _ASCII.items():
        STD_PURE["%s::%s" % (_t, _n)] = _f


def _const_table_get(x, env, roles):
    """x = `TABLE.get(i)` with TABLE a constant byte table of the crate and i evaluable: (in range?, element)."""
    while isinstance(x, (Named, Ref, Deref)):
        x = x.x
    if not (isinstance(x, Call) and q.nice(x.callee) == "slice::get" and len(x.args) == 2):
        return None
    t = x.args[0]
    while isinstance(t, (Named, Ref, Deref, Cast)):
        t = t.x
    owner = getattr(x, "owner", None)
    if not isinstance(t, Const) or owner is None or not t.c.get("uneval") or t.c.get("promoted") is not None:
        return None
    k = owner.facts.consts.get(t.c["uneval"])
    if not k or not re.match(r"^&(?:'static )?\[(u8|i8); \d+\]$", k.get("ty", "")):
        return None
    a = k.get("alloc") or {}
    data = a["ptrs"][0]["alloc"].get("bytes") if a.get("ptrs") else a.get("bytes")
    i = eval_expr(x.args[1], env, roles)
    if data is None or i is None:
        return None
    if not (0 <= i < len(data)):
        return (False, None)
    v = data[i]
    if "[i8" in k["ty"] and v >= 128:
        v -= 256
    return (True, v)


def eval_expr(e, env, roles=None):
    """Evaluate an expression tree to an int (bools as 0/1) given env {shape: value}; None if
    it depends on anything else."""
    sh = q.shape(e, roles)
    if sh in env:
        return env[sh]
    if isinstance(e, Var) and getattr(env, "store", None) is not None and e.local in env.store:
        return env.store[e.local]
    if isinstance(e, Named):
        return eval_expr(e.x, env, roles)
    if isinstance(e, (Ref, Deref)):
        return eval_expr(e.x, env, roles)
    if isinstance(e, Const):
        if e.int is not None:
            return e.int
        return None
    if isinstance(e, Field) and e.idx == 0 and isinstance(e.x, Downcast) and e.x.variant == "Some":
        hit = _const_table_get(e.x.x, env, roles)
        if hit is not None:
            return hit[1] if hit[0] else None  # the element TABLE.get(i) found
    if isinstance(e, Field) and e.idx == 0:
        inner = e.x
        while isinstance(inner, Named):
            inner = inner.x
        if isinstance(inner, Bin) and inner.op.endswith("WithOverflow"):
            return eval_expr(inner, env, roles)
        return None
    if isinstance(e, Agg) and e.ak == "adt" and not e.ops and "vi" in e.rv:
        return e.rv["vi"]  # unit enum variant: its discriminant index
    if isinstance(e, Discr):
        hit = _const_table_get(e.x, env, roles)
        if hit is not None:
            return 1 if hit[0] else 0  # Option discriminant of TABLE.get(i)
        return eval_expr(e.x, env, roles)
    if isinstance(e, Cast):
        v = eval_expr(e.x, env, roles)
        if v is None:
            return None
        if e.to_ty in MASKS:
            return v & MASKS[e.to_ty]
        return v
    if isinstance(e, Un):
        v = eval_expr(e.x, env, roles)
        if v is None:
            return None
        if e.op == "Not":
            return 0 if v else 1  # only used on bools here
        if e.op == "Neg":
            return -v
        return None
    if isinstance(e, Bin):
        l = eval_expr(e.l, env, roles)
        r = eval_expr(e.r, env, roles)
        if l is None or r is None:
            return None
        op = e.op
        if op == "Eq":
            return int(l == r)
        if op == "Ne":
            return int(l != r)
        if op == "Lt":
            return int(l < r)
        if op == "Le":
            return int(l <= r)
        if op == "Gt":
            return int(l > r)
        if op == "Ge":
            return int(l >= r)
        if op in ("Add", "AddWithOverflow"):
            return l + r
        if op in ("Sub", "SubWithOverflow"):
            return l - r
        if op == "BitAnd":
            return l & r
        if op == "BitOr":
            return l | r
        return None
    if isinstance(e, Call) and e.callee in q.TRANSPARENT_CALLS and len(e.args) == 1:
        return eval_expr(e.args[0], env, roles)
    if isinstance(e, Call) and len(e.args) == 1:
        f = STD_PURE.get(q.callee_id(e.t))
        if f is not None:
            v = eval_expr(e.args[0], env, roles)
            return None if v is None else int(f(v))
    return None


def reach(body, start, env, roles=None, stop=(), kill_on_call=None, known_only=False):
    """Blocks reachable from `start` under env, with path-sensitive constant propagation for
    locals that are assigned evaluable values on the way (e.g. the bool temporaries of `||`
    chains). `stop`: blocks not expanded (still included). kill_on_call(t) -> True makes the
    environment unknown after that call: the walk continues without it from there."""
    seen = set()
    out = set()
    dq = deque([(start, True, frozenset())])
    stop = set(stop)
    while dq:
        state = dq.popleft()
        if state in seen:
            continue
        seen.add(state)
        b, known, store = state
        if known or not known_only:
            out.add(b)
        if known_only and not known:
            continue
        if b in stop:
            continue
        st = dict(store)
        cur_env = _StoreEnv(env if known else {}, st)
        blk = body.blocks[b]
        for s in blk["stmts"]:
            if s["k"] == "assign" and not s["place"]["p"]:
                l = s["place"]["l"]
                if len(body.defs.get(l, [])) > 1 or body.var_names.get(l) is not None and body.locals[l]["mut"]:
                    v = eval_expr(body.expr_of_rvalue(s["rv"]), cur_env, roles)
                    if v is None:
                        st.pop(l, None)
                    else:
                        st[l] = v
        t = blk["term"]
        nxt_known = known
        if known and kill_on_call is not None and t["k"] == "call" and kill_on_call(t):
            nxt_known = False
        if t["k"] == "call" and not t["dest"]["p"]:
            l = t["dest"]["l"]
            if len(body.defs.get(l, [])) > 1:
                v = eval_expr(body.expr_of_call(t), cur_env, roles)
                if v is None:
                    st.pop(l, None)
                else:
                    st[l] = v
        fs = frozenset(st.items())
        if t["k"] == "switch":
            v = eval_expr(body.expr_of_operand(t["discr"]), cur_env, roles)
            if v is not None:
                tgt = None
                for val, tb in t["arms"]:
                    if val == v:
                        tgt = tb
                if tgt is None:
                    tgt = t["otherwise"]
                dq.append((tgt, nxt_known, fs))
                continue
        for sx in body.succ[b]:
            dq.append((sx, nxt_known, fs))
    return out


class _StoreEnv(dict):
    """env (shape -> value) extended with a store (local index -> value) for multi-def locals."""

    def __init__(self, env, store):
        super().__init__(env)
        self.store = store
        self.base = env

    def __contains__(self, k):
        return k in self.base

    def __getitem__(self, k):
        return self.base[k]


def decided_switches(body, start, env, roles=None):
    """Switch blocks reachable from start whose discriminant is decided by env (evidence)."""
    out = []
    for b in reach(body, start, env, roles):
        t = body.blocks[b]["term"]
        if t["k"] == "switch" and eval_expr(body.expr_of_operand(t["discr"]), env, roles) is not None:
            out.append(b)
    return sorted(out)


def constants_compared(body, tracked_shape, roles=None):
    """All integer constants the tracked expression is compared with in switch conditions."""
    consts = set()
    for b in range(len(body.blocks)):
        t = body.blocks[b]["term"]
        if t["k"] != "switch":
            continue
        e = body.expr_of_operand(t["discr"])
        for x in e.walk():
            if isinstance(x, Bin):
                ls, rs = q.shape(x.l, roles), q.shape(x.r, roles)
                if ls == tracked_shape and isinstance(_strip(x.r), Const) and _strip(x.r).int is not None:
                    consts.add(_strip(x.r).int)
                if rs == tracked_shape and isinstance(_strip(x.l), Const) and _strip(x.l).int is not None:
                    consts.add(_strip(x.l).int)
        if q.shape(e, roles) == tracked_shape:
            for v, _ in t["arms"]:
                consts.add(v)
    return consts


def _strip(e):
    while isinstance(e, (Named, Ref, Deref, Cast)):
        e = e.x
    return e


def eval_pred(body, env, roles=None, max_steps=500):
    """Follow the unique path the environment determines through a small pure body and return
    the final value assigned to the return place (int/bool), or None if some branch or the
    returned value depends on anything outside env. Calls on the path make the result None
    unless they are value-preserving wrappers."""
    b = 0
    ret = None
    known_ret = False
    store = {}
    base_env = env
    for _ in range(max_steps):
        blk = body.blocks[b]
        env = _StoreEnv(base_env, store)
        for s in blk["stmts"]:
            if s["k"] == "assign" and s["place"]["l"] == 0 and not s["place"]["p"]:
                ret = eval_expr(body.expr_of_rvalue(s["rv"]), env, roles)
                known_ret = True
            elif s["k"] == "assign" and not s["place"]["p"] and len(body.defs.get(s["place"]["l"], [])) > 1:
                # a temporary set on several paths (`matches!`, `||` chains): remember its value on this path
                v = eval_expr(body.expr_of_rvalue(s["rv"]), env, roles)
                if v is None:
                    store.pop(s["place"]["l"], None)
                else:
                    store[s["place"]["l"]] = v
        t = blk["term"]
        k = t["k"]
        if k == "return":
            return ret if known_ret else None
        if k == "goto":
            b = t["t"]
        elif k == "switch":
            v = eval_expr(body.expr_of_operand(t["discr"]), env, roles)
            if v is None:
                return None
            tgt = None
            for val, tb in t["arms"]:
                if val == v:
                    tgt = tb
            b = tgt if tgt is not None else t["otherwise"]
        elif k == "call":
            if t["dest"]["l"] == 0 and not t["dest"]["p"]:
                ret = eval_expr(body.expr_of_call(t), env, roles)
                known_ret = True
                if ret is None:
                    return None
            elif not t["dest"]["p"] and len(body.defs.get(t["dest"]["l"], [])) > 1:
                # a named bool built by `a() || b()`: one of its definitions is the call itself
                v = eval_expr(body.expr_of_call(t), env, roles)
                if v is None:
                    store.pop(t["dest"]["l"], None)
                else:
                    store[t["dest"]["l"]] = v
            if "t" not in t:
                return None
            b = t["t"]
        elif k in ("assert", "drop"):
            b = t["t"]
        else:
            return None
    return None


def pred_table(body, arg_local, domain=range(256), roles=None):
    """{value: result} of a one-argument predicate for every value of the domain. The
    argument may be passed by value or by reference (`x`, `*x`)."""
    from mir import Var
    out = {}
    name = body.var_names.get(arg_local) or ("arg%d" % arg_local)
    for v in domain:
        env = _ArgEnv(arg_local, v)
        out[v] = eval_pred(body, env, roles)
    return out


class _ArgEnv(dict):
    """Environment binding one argument local (by value or behind one reference)."""

    def __init__(self, local, value):
        super().__init__()
        self.local = local
        self.value = value
        self["arg%d" % local] = value

    def __contains__(self, k):
        return k == "arg%d" % self.local


def walk(body, start, env, roles=None, stop=(), max_steps=400):
    """Follow the unique path from `start` that env determines. Returns (events, end) where
    events is a list of tuples:
        ("store", field_name, value_or_None, bb)   - assignment to a place ending in a field
        ("call", nice_name, shape, bb)
        ("ret", variant_or_None, shape, bb)        - value stored to the return place
    and end is ("return", bb) | ("stop", bb) | ("undecided", bb) | ("limit", bb).
    Multi-definition locals are tracked in a store (constant propagation along the path)."""
    store = {}
    events = []
    b = start
    stop = set(stop)
    first = True
    for _ in range(max_steps):
        if b in stop and not first:
            return events, ("stop", b)
        first = False
        cur = _StoreEnv(env, store)
        blk = body.blocks[b]
        for s in blk["stmts"]:
            if s["k"] != "assign":
                continue
            pl = s["place"]
            ex = body.expr_of_rvalue(s["rv"])
            v = eval_expr(ex, cur, roles)
            if not pl["p"]:
                l = pl["l"]
                if l == 0:
                    variant = ex.variant if hasattr(ex, "variant") else None
                    events.append(("ret", variant, q.shape(ex, roles), b))
                if len(body.defs.get(l, [])) > 1:
                    if v is None:
                        store.pop(l, None)
                    else:
                        store[l] = v
                    if body.var_names.get(l) is not None:
                        events.append(("assign", l, v, b))
            elif pl["p"][-1].get("k") == "field":
                events.append(("store", pl["p"][-1].get("n"), v, b))
        t = blk["term"]
        k = t["k"]
        if k == "return":
            return events, ("return", b)
        if k == "goto":
            b = t["t"]
        elif k == "switch":
            v = eval_expr(body.expr_of_operand(t["discr"]), cur, roles)
            if v is None:
                return events, ("undecided", b)
            tgt = None
            for val, tb in t["arms"]:
                if val == v:
                    tgt = tb
            b = tgt if tgt is not None else t["otherwise"]
        elif k == "call":
            ex = body.expr_of_call(t)
            events.append(("call", q.nice(t.get("callee")), q.shape(ex, roles), b))
            if not t["dest"]["p"]:
                l = t["dest"]["l"]
                if l == 0:
                    events.append(("ret", None, q.shape(ex, roles), b))
                if len(body.defs.get(l, [])) > 1:
                    v = eval_expr(ex, cur, roles)
                    if v is None:
                        store.pop(l, None)
                    else:
                        store[l] = v
            if "t" not in t:
                return events, ("diverge", b)
            b = t["t"]
        elif k in ("assert", "drop"):
            b = t["t"]
        else:
            return events, ("undecided", b)
    return events, ("limit", b)


# ------------------------------------------------------------------------------------------------
# symbolic execution of an acyclic region
def sym_paths(body, start, stmt_from, end, store0, max_paths=64, avoid=()):
    """Enumerate the acyclic paths from (start block, first statement index) to block `end` and
    carry a symbolic store along each of them: {local: canonical shape string in terms of the
    symbols of store0}. Every assignment and call is processed in program order and every operand is
    printed through the store only (no expansion of temporaries by their definitions), so a value
    is what it was when it was computed, however the variable is changed afterwards - in-place
    updates (`x >>= 1; if s { x = -x }`), fresh bindings (`let m = x >> 1;`) and values passed
    through an inlined helper give the same result strings.
    Returns a list of {"conds": [(shape, taken value | ("not", values))], "store": {...}, "blocks": [...]}
    for every path that reaches `end` (its statements executed, its terminator not), or None when there are too many paths."""
    out = []
    avoid = set(avoid)

    def sh(e, store):
        return q.shape(e, store)

    def run_block(b, i0, store):
        blk = body.blocks[b]
        for si in range(i0, len(blk["stmts"])):
            s = blk["stmts"][si]
            if s["k"] != "assign":
                continue
            pl = s["place"]
            rv = s["rv"]
            val = None
            if rv["k"] == "use" and rv["op"].get("k") in ("copy", "move"):
                src = rv["op"]["place"]
                if len(src["p"]) == 1 and src["p"][0].get("k") == "field" and src["p"][0].get("i") == 0:
                    base = store.get(src["l"])
                    if base and re.match(r"^[A-Za-z]+WithOverflow\(", base):
                        val = base.replace("WithOverflow", "", 1)  # the value half of a checked operation
            if val is None:
                val = sh(body.expr_of_rvalue(rv, depth=0), store)
            if not pl["p"]:
                store[pl["l"]] = val
            else:
                # a store into a part of a local: its whole value is no longer known symbolically
                store.pop(pl["l"], None) if pl["p"][0]["k"] != "deref" else None

    def rec(b, i0, store, conds, visited):
        if len(out) > max_paths:
            return
        if b == end and i0 == 0:
            st = dict(store)
            run_block(b, 0, st)  # the statements of the end block (argument temporaries of its terminator)
            out.append({"conds": list(conds), "store": st, "blocks": list(visited)})
            return
        if b in visited or b in avoid:
            return
        visited = visited + [b]
        store = dict(store)
        run_block(b, i0, store)
        t = body.blocks[b]["term"]
        k = t["k"]
        if k == "goto":
            rec(t["t"], 0, store, conds, visited)
        elif k == "switch":
            d = sh(body.expr_of_operand(t["discr"], depth=0), store)
            listed = []
            for val, tb in t["arms"]:
                listed.append(val)
                rec(tb, 0, store, conds + [(d, val)], visited)
            rec(t["otherwise"], 0, store, conds + [(d, ("not", tuple(listed)))], visited)
        elif k == "call":
            if not t["dest"]["p"]:
                store[t["dest"]["l"]] = sh(body.expr_of_call(t, depth=0), store)
            if "t" in t:
                rec(t["t"], 0, store, conds, visited)
        elif k in ("assert", "drop"):
            if "t" in t:
                rec(t["t"], 0, store, conds, visited)
        # return / unreachable / resume: the path does not reach `end`

    rec(start, stmt_from, dict(store0), [], [])
    if len(out) > max_paths:
        return None
    return out
