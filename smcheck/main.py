#!/usr/bin/env python3
"""smcheck: static rule engine over the smfacts fact base.

usage: main.py <PROPERTY-ID> [--tier quick|thorough]

Exit 0: every obligation of the property's rules was discharged on /repo's current tree
(known findings are printed as KNOWN-FINDING lines). Exit 1: at least one obligation is
violated or cannot be decided; a `VIOLATION property=<id> replay=<path>` line is printed
per violation. Exit 2: infrastructure failure (tree does not compile, driver missing).
"""
import hashlib
import importlib
import json
import os
import re
import sys
import time
import traceback

HERE = os.path.dirname(os.path.abspath(__file__))
VERIF = os.path.dirname(HERE)
sys.path.insert(0, HERE)

import extract  # noqa: E402
from mir import Facts, MissingAnchor, span_str  # noqa: E402

TRUSTED = [
    "rustc nightly front end and MIR construction (facts are read from its resolved MIR)",
    "std/core/alloc semantics of the named library calls (Vec, slice, str, Mutex, sort, binary_search)",
    "dependencies: serde/serde_json, bitvec, scroll, data-encoding, base64-simd, url, unicode-id-start, debugid",
    "smfacts driver and smcheck rule engine (this repository's /verif)",
]


class Ctx:
    def __init__(self, prop, facts, tier, facts_default=None):
        self.prop = prop
        self.facts = facts
        self.facts_default = facts_default
        self.tier = tier
        self.obligations = []  # dicts
        self.remarks = []
        self.analysed_bodies = set()
        self.counters = {}
        self._seen_keys = {}

    # -- recording --------------------------------------------------------
    def _rec(self, status, rule, fn, construct, what, site, detail):
        key = "%s|%s|%s" % (rule, fn, construct)
        n = self._seen_keys.get(key, 0) + 1
        self._seen_keys[key] = n
        if n > 1:
            key = "%s#%d" % (key, n)
        self.obligations.append({
            "status": status, "rule": rule, "function": fn, "construct": construct, "key": key,
            "what": what, "site": site, "detail": detail,
        })
        if fn:
            self.analysed_bodies.add(fn)

    def ok(self, rule, fn, construct, what, site=None, detail=None):
        self._rec("held", rule, fn, construct, what, site, detail)

    def bad(self, rule, fn, construct, what, site=None, detail=None):
        self._rec("violated", rule, fn, construct, what, site, detail)

    def check(self, cond, rule, fn, construct, what, site=None, detail=None):
        """Record one obligation; `what` states the obligation, cond says whether it holds."""
        if cond:
            self.ok(rule, fn, construct, what, site, detail)
        else:
            self.bad(rule, fn, construct, what, site, detail)
        return bool(cond)

    def remark(self, text):
        self.remarks.append(text)

    def count(self, name, n=1):
        self.counters[name] = self.counters.get(name, 0) + n

    def floor(self, rule, fn, name, got, at_least):
        """Fail closed when fewer instances than confirmed by hand are recognised."""
        self.check(got >= at_least, rule, fn, "floor:%s" % name,
                   "at least %d instances of %s recognised (found %d)" % (at_least, name, got))

    # -- anchors ------------------------------------------------------------
    def body(self, path, facts=None):
        f = facts or self.facts
        b = f.body(path, required=False)
        if b is None:
            raise MissingAnchor(path)
        self.analysed_bodies.add(path)
        return b

    def site(self, body, bb=None, idx=None):
        if bb is None:
            return span_str(body.span)
        blk = body.blocks[bb]
        if idx is not None and idx < len(blk["stmts"]):
            return span_str(blk["stmts"][idx]["span"])
        return span_str(blk["term"]["span"])


def load_known():
    p = os.path.join(VERIF, "known_findings.json")
    if not os.path.exists(p):
        return {}
    with open(p) as f:
        data = json.load(f)
    known = {}
    for e in data.get("findings", []):
        known[(e["property"], e["key"])] = e
    return known


def run_rules(prop, facts, tier, facts_default=None):
    ctx = Ctx(prop, facts, tier, facts_default)
    for line in getattr(facts, "norm_log", []):
        ctx.remark("normalisation: " + line)
    mod = importlib.import_module("rules.%s" % prop.lower())
    try:
        mod.check(ctx)
    except MissingAnchor as e:
        ctx.bad("anchor", str(e), "missing",
                "anchor function %s exists in the analysed crate (rules fail closed when an anchor disappears)" % e)
    return ctx


def main(argv):
    if len(argv) < 2:
        print(__doc__)
        return 2
    prop = argv[1].upper()
    tier = os.environ.get("VERIF_TIER", "quick")
    if "--tier" in argv:
        tier = argv[argv.index("--tier") + 1]
    seed = int(os.environ.get("VERIF_SEED", "0") or 0)
    t0 = time.time()
    os.makedirs(os.path.join(VERIF, "evidence"), exist_ok=True)
    ev_path = os.path.join(VERIF, "evidence", "%s.json" % prop)
    try:
        fpath, th, fresh = extract.facts_path("ram")
        facts = Facts(fpath)
        facts_default = None
        if tier == "thorough":
            fpath2, _, _ = extract.facts_path("default")
            facts_default = Facts(fpath2)
    except extract.ExtractError as e:
        print("smcheck: cannot extract facts: %s" % e)
        return 2

    ctx = run_rules(prop, facts, tier, facts_default)
    extra = {}
    if tier == "thorough":
        # same rules on the default-feature configuration: verdicts must agree
        try:
            ctx2 = run_rules(prop, facts_default, tier)
            v1 = sorted(o["key"] for o in ctx.obligations if o["status"] != "held")
            v2 = sorted(o["key"] for o in ctx2.obligations if o["status"] != "held")
            extra["default_feature_config"] = {"obligations": len(ctx2.obligations), "violations": v2}
            if prop != "C20":
                for k in set(v2) - set(v1):
                    o = [x for x in ctx2.obligations if x["key"] == k][0]
                    o = dict(o)
                    o["what"] += " [default-feature configuration]"
                    ctx.obligations.append(o)
        except MissingAnchor:
            pass
        import thorough as th_mod
        extra.update(th_mod.run_witness(ctx, prop))
        extra.update(th_mod.replay_seeds(ctx, prop, run_rules))
        extra.update(th_mod.clippy_xref(ctx, prop))

    known = load_known()
    viol_dir = os.path.join(VERIF, "evidence", "%s.violations" % prop)
    violations = []
    known_hits = []
    for o in ctx.obligations:
        if o["status"] == "held":
            continue
        if (prop, o["key"]) in known:
            known_hits.append(o)
        else:
            violations.append(o)
    for o in known_hits:
        print("KNOWN-FINDING: property=%s %s [%s]" % (prop, known[(prop, o["key"])].get("what", o["what"]), o["key"]))
    if violations:
        os.makedirs(viol_dir, exist_ok=True)
    for o in violations:
        name = hashlib.sha1(o["key"].encode()).hexdigest()[:12]
        rp = os.path.join(viol_dir, name + ".json")
        with open(rp, "w") as f:
            json.dump({"property": prop, "tree_hash": th, **o}, f, indent=1)
        print("VIOLATION property=%s replay=%s" % (prop, rp))
        print("  rule %s in %s: NOT HELD: %s%s" % (o["rule"], o["function"], o["what"], (" at " + o["site"]) if o["site"] else ""))
        if o.get("detail"):
            print("    " + str(o["detail"])[:600])

    held = [o for o in ctx.obligations if o["status"] == "held"]
    rules = sorted(set(o["rule"] for o in ctx.obligations))
    spread = []
    seen_rules = set()
    for o in held:
        if o["rule"] not in seen_rules:
            seen_rules.add(o["rule"])
            spread.append(o)
    samples = [{"rule": o["rule"], "function": o["function"], "construct": o["construct"], "obligation": o["what"],
                "site": o["site"], "status": o["status"]} for o in (violations + known_hits + spread + held)[:16]]
    distinct = len(set(o["key"] for o in ctx.obligations))
    mod = importlib.import_module("rules.%s" % prop.lower())
    coverage = {
        "explanation": (getattr(mod, "EXPLANATION", "") + " Static analysis of the resolved MIR of /repo's current tree "
                        "(smfacts fact base, tree hash %s, features ram_bundle%s); no code of the crate was executed. "
                        "Rules named RL add: the loops that must visit every element end only when their iterator is "
                        "exhausted or with an error. All rules are evaluated on a normal form of the MIR (renamed or newly "
                        "extracted private helpers mapped back / inlined, aliases, `?`, constants and simple closures "
                        "canonicalised - DESIGN.md 8.6); normalisation steps applied to this tree are listed under remarks."
                        % (th, " + default" if tier == "thorough" else "")),
        "obligations": len(ctx.obligations),
        "discharged": len(held),
        "evaluations": len(ctx.obligations),
        "distinct_nontrivial": distinct,
        "rule": "one evaluation = one rule obligation (rule x function x construct) decided on the fact base; "
                "distinct = distinct obligation keys",
        "samples": samples,
        "checker_cmd": "./check %s --tier %s" % (prop, tier),
        "trusted_base": TRUSTED,
        "rules_applied": rules,
        "functions_analysed": sorted(ctx.analysed_bodies),
        "bodies_in_fact_base": len(facts.bodies),
        "counters": ctx.counters,
        "remarks": ctx.remarks,
        "known_findings_hit": [o["key"] for o in known_hits],
        "not_decided": getattr(mod, "NOT_DECIDED", ""),
        "facts_extracted_this_run": fresh,
    }
    coverage.update(extra)
    ev = {
        "property_id": prop,
        "tier": tier if tier in ("quick", "thorough") else "quick",
        "seed": seed,
        "level": "other",
        "coverage": coverage,
        "assumptions": getattr(mod, "ASSUMPTIONS", []) + ["64-bit target (usize = 64 bits)"],
        "wall_s": round(time.time() - t0, 3),
        "violations": len(violations),
    }
    with open(ev_path, "w") as f:
        json.dump(ev, f, indent=1)
    print("%s: %d obligations, %d held, %d violated, %d known findings (%s tier, %.1fs)" % (
        prop, len(ctx.obligations), len(held), len(violations), len(known_hits), tier, time.time() - t0))
    return 1 if violations else 0


if __name__ == "__main__":
    try:
        sys.exit(main(sys.argv))
    except SystemExit:
        raise
    except Exception:
        traceback.print_exc()
        sys.exit(2)
