"""G8: mutex guard live ranges.

A guard local G is the destination of Result::unwrap / expect (or `?`) applied to
Mutex::lock(&X.f). Its live range runs from the successor of the call that defines G to the
Drop(G) terminators (normal and cleanup). A block is *inside* if it is reachable from the
acquisition without passing a Drop(G)."""
import q
from mir import Call, Field, Named, Ref, Deref


class Guard:
    def __init__(self, body, local, lock_bb, def_bb, start_bb, mutex_field):
        self.body = body
        self.local = local
        self.lock_bb = lock_bb      # block whose terminator calls Mutex::lock
        self.def_bb = def_bb        # block whose terminator defines the guard local
        self.start_bb = start_bb    # first block with the guard live
        self.mutex_field = mutex_field
        self.inside = set()         # blocks executed with the guard live (including the one ending in Drop)
        self.drop_blocks = set()
        self._compute()

    def _compute(self):
        body = self.body
        stack = [self.start_bb]
        while stack:
            b = stack.pop()
            if b in self.inside:
                continue
            self.inside.add(b)
            t = body.blocks[b]["term"]
            if t["k"] == "drop" and t["place"]["l"] == self.local and not t["place"]["p"]:
                self.drop_blocks.add(b)
                continue
            for s in body.succs(b, unwind=False):
                stack.append(s)

    def temporary(self):
        """Guard that lives only inside one expression (e.g. `x.lock().unwrap().len()`)."""
        return self.body.var_names.get(self.local) is None


def mutex_field_of(body, t):
    """For a Mutex::lock call: name of the field the mutex is stored in (receiver `&(*self).f`)."""
    e = q.arg_expr(body, t, 0)
    x = e
    while isinstance(x, (Ref, Deref, Named)):
        x = x.x
    if isinstance(x, Field):
        return x.name
    return None


def guards_of(body):
    out = []
    for bi, t in body.calls():
        if not q.callee_matches(t, "Mutex::<T>::lock"):
            continue
        field = mutex_field_of(body, t)
        lock_res = t["dest"]["l"]
        # find the call that consumes the LockResult and defines the guard
        nb = t.get("t")
        guard = None
        for _ in range(3):
            if nb is None:
                break
            tt = body.blocks[nb]["term"]
            if tt["k"] == "call" and any(a.get("place", {}).get("l") == lock_res for a in tt["args"] if a["k"] in ("move", "copy")):
                if q.callee_matches(tt, "Result::<T, E>::unwrap", "Result::<T, E>::expect", "Result::<T, E>::unwrap_or_else"):
                    guard = (tt["dest"]["l"], nb, tt.get("t"))
                break
            nxt = body.succ[nb]
            nb = nxt[0] if len(nxt) == 1 else None
        if guard is None:
            out.append(Guard(body, lock_res, bi, bi, t.get("t"), field))
        else:
            out.append(Guard(body, guard[0], bi, guard[1], guard[2], field))
    return out
