#!/usr/bin/env python3
"""Evaluate a sub-agent mutant: confirm it (suite passes with it, demo fails with it and passes
without) in a scratch worktree, then run the checks against it on /repo and revert.
usage: evalmut.py <dir-with-mN.diff> <N> <PROP> [more props]"""
import json, os, subprocess, sys, shutil
d, n = sys.argv[1], sys.argv[2]
props = sys.argv[3:]
diff = os.path.join(d, "m%s.diff" % n)
demo = os.path.join(d, "m%s_demo.rs" % n)
WT = "/tmp/mw_verify"
def sh(cmd, cwd=None, **kw):
    return subprocess.run(cmd, cwd=cwd, shell=isinstance(cmd, str), capture_output=True, text=True, **kw)
if not os.path.exists(WT):
    sh("git -C /repo worktree add -q --detach %s HEAD" % WT)
sh("git checkout -q -- . && rm -f tests/demo_mut.rs", cwd=WT)
feat = "--features ram_bundle" if "ram_bundle" in open(demo).read() else ""
res = {"mutant": diff}
# demo without mutant
shutil.copy(demo, os.path.join(WT, "tests", "demo_mut.rs"))
r = sh("cargo test --offline %s --test demo_mut 2>&1 | grep -E '^test result|^error(\\[|:)' | head -3" % feat, cwd=WT)
res["demo_clean"] = r.stdout.strip()
r = sh("git apply %s" % diff, cwd=WT)
if r.returncode != 0:
    print("PATCH DOES NOT APPLY", r.stderr[:300]); sys.exit(1)
r = sh("cargo test --offline %s --test demo_mut 2>&1 | grep -E '^test result|^error(\\[|:)' | head -3" % feat, cwd=WT)
res["demo_mutant"] = r.stdout.strip()
os.unlink(os.path.join(WT, "tests", "demo_mut.rs"))
r = sh("cargo test --offline 2>&1 | grep -E '^test result|^error' | grep -v 'ok\\.' | head -3; cargo build --offline --features ram_bundle 2>&1 | grep -E '^error' | head -2", cwd=WT)
res["suite_with_mutant_failures"] = r.stdout.strip()
sh("git checkout -q -- .", cwd=WT)
confirmed = ("FAILED" in res["demo_mutant"] or "test failed" in res["demo_mutant"]) and "ok." in res["demo_clean"] and res["suite_with_mutant_failures"] == ""
res["confirmed"] = confirmed
# run checks on /repo
r = sh("git -C /repo apply %s" % diff)
det = {}
try:
    if r.returncode == 0:
        for p in props:
            rr = sh(["/verif/check", p])
            lines = [l.strip() for l in rr.stdout.splitlines() if l.strip().startswith("rule")]
            det[p] = {"exit": rr.returncode, "rules": sorted(set(l.split(" in ")[0].replace("rule ", "") for l in lines)), "first": lines[0][:260] if lines else None}
    else:
        det["apply_error"] = r.stderr[:200]
finally:
    sh("git -C /repo checkout -- .")
res["checks"] = det
if os.environ.get("VERBOSE"):
    print(json.dumps(res, indent=1))
else:
    print("%s confirmed=%s | %s" % (diff, confirmed, "; ".join("%s:%s%s" % (p, "DETECTED" if v.get("exit") == 1 else "missed(exit %s)" % v.get("exit"), v.get("rules", "")) for p, v in det.items() if isinstance(v, dict))))
    if not confirmed:
        print("   clean:", res["demo_clean"][:120], "| mutant:", res["demo_mutant"][:120], "| suite:", res["suite_with_mutant_failures"][:200])
json.dump(res, open(os.path.join(d, "m%s.eval.json" % n), "w"), indent=1)
