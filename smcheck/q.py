"""Query helpers over MIR bodies: path conditions, shapes, provenance, call lookup."""
from collections import deque

from mir import (Agg, Bin, Call, Cast, Const, Deref, Discr, Downcast, Expr, Field, Index, Named, Ref, Un,
                 Unknown, Upvar, Var, span_str)

ENUM_VARIANTS = {
    "core::option::Option": ["None", "Some"],
    "core::result::Result": ["Ok", "Err"],
    "core::ops::control_flow::ControlFlow": ["Continue", "Break"],
    "core::cmp::Ordering": None,
}


# ---------------------------------------------------------------------------
# shapes: canonical strings for expression trees, independent of local names
# ---------------------------------------------------------------------------
TRANSPARENT_CALLS = {
    # value-preserving wrappers that shape() looks through
    "core::convert::From::from": "from",
    "core::convert::Into::into": "into",
    "core::clone::Clone::clone": "clone",
    "core::ops::deref::Deref::deref": "deref",
    "core::ops::deref::DerefMut::deref_mut": "deref",
    "core::convert::AsRef::as_ref": "deref",
    "core::borrow::Borrow::borrow": "deref",
    "alloc::vec::Vec::<T, A>::as_slice": "deref",
    "alloc::vec::Vec::<T, A>::as_mut_slice": "deref",
}

IDENTITY_FNS = {"alloc::string::String::as_str", "alloc::string::String::as_ref", "core::ops::deref::Deref::deref", "alloc::string::String::as_mut_str"}

COMMUTATIVE = {"Add", "Mul", "BitAnd", "BitOr", "BitXor", "Eq", "Ne", "AddWithOverflow", "MulWithOverflow"}
FLIP = {"Lt": "Gt", "Gt": "Lt", "Le": "Ge", "Ge": "Le"}


def short(path):
    """Last two path segments without generic noise: good enough for local items."""
    if path is None:
        return "?"
    return path


class _Uniq(dict):
    """roles object under which every local prints as its unique MIR name `_N` (needed when
    facts about one variable must never be confused with another of the same type)."""

    def __contains__(self, k):
        return True

    def __getitem__(self, k):
        return "_%d" % k

    def __bool__(self):
        return True

    def get(self, k, d=None):
        return "_%d" % k


UNIQ = _Uniq()


def _pure(e):
    for x in e.walk():
        if isinstance(x, Var):
            if not x.is_arg or (x.ty or "").startswith("&mut"):
                return False
        if isinstance(x, (Unknown, Upvar)):
            return False
        if isinstance(x, Call) and nice(x.callee) not in PURE_CALLS:
            return False
    return True


PURE_CALLS = {"str::as_bytes", "String::as_bytes", "Vec::as_slice", "String::as_str", "Deref::deref", "From::from",
              "Into::into", "AsRef::as_ref", "Vec::len", "str::len", "slice::len", "String::len", "Option::as_deref",
              "Option::as_ref", "mem::size_of", "Borrow::borrow", "slice::is_empty", "str::is_empty", "Vec::is_empty"}


def shape(e, roles=None, depth=20):
    """Canonical string of an expression. roles: {local_index: role_name}.
    Looks through names, refs/derefs, copies; normalises commutative operands and
    comparison orientation (greater-than forms are rewritten to less-than forms)."""
    if roles is None:
        roles = {}
    if depth <= 0:
        return "..."
    if isinstance(e, Named):
        if isinstance(roles, _Uniq):
            # expand immutable bindings whose value is a pure function of the arguments
            # (canonical form); keep the unique local name otherwise
            if _pure(e.x):
                return shape(e.x, roles, depth)
            return "_%d" % e.local
        if e.local in roles:
            return roles[e.local]
        return shape(e.x, roles, depth)
    if isinstance(e, (Ref, Deref)):
        return shape(e.x, roles, depth)
    if isinstance(e, Var):
        if e.local in roles:
            return roles[e.local]
        if e.is_arg:
            return "arg%d" % e.local
        lift = getattr(e, "lift", None)
        if lift is not None and not isinstance(roles, _Uniq):
            scrut, some_v, none_v = lift
            xs = shape(scrut, roles, depth - 1)
            ss = shape(some_v, roles, depth - 1)
            if "try(%s)" % xs in ss:
                # match opt { Some(x) => f(x), None => d }  is  opt.map_or(d, f)
                body_ = ss.replace("try(%s)" % xs, "p1")
                ns = shape(none_v, roles, depth - 1)
                if ns == "Option::None{}" and body_.startswith("Option::Some{0:") and body_.endswith("}"):
                    # match opt { Some(x) => Some(f(x)), None => None }  is  opt.map(f)
                    inner_ = body_[len("Option::Some{0:"):-1]
                    m = _re.match(r"^([A-Za-z_][\w:<>]*)\(p1\)$", inner_)
                    if inner_ == "p1":
                        return xs
                    return "Option::map(%s,%s)" % (xs, "fn:%s" % m.group(1) if m else "\u03bb(%s)" % inner_)
                m = _re.match(r"^([A-Za-z_][\w:<>]*)\(p1\)$", body_)
                f_ = "fn:%s" % m.group(1) if m else "\u03bb(%s)" % body_
                return "Option::map_or(%s,%s,%s)" % (xs, ns, f_)
        return "var:%s" % short_ty(e.ty)
    if isinstance(e, Upvar):
        cap = e.captured()
        if cap is not None:
            # the value captured where the closure is created, in the creator's terms (name-free)
            return "^" + shape(cap, None if isinstance(roles, _Uniq) else {}, depth - 1)
        return "upvar#%d" % e.idx
    if isinstance(e, Const):
        if e.fn:
            if e.fn in TRANSPARENT_CALLS and TRANSPARENT_CALLS[e.fn] in ("deref", "into", "clone") or e.fn in IDENTITY_FNS:
                return "\u03bb(p1)"  # a reference conversion used as a function value: the identity on the value
            if e.c.get("fn_local") and getattr(e, "owner", None) is not None:
                suffix = field_getter(e.owner.facts, e.fn)
                if suffix is not None:
                    return "\u03bb(p1%s)" % suffix  # an accessor used as a function value
            lam = lambda_shape(getattr(e, "owner", None), e.fn, False, depth) if e.c.get("fn_local") else None
            return lam if lam is not None else "fn:%s" % nice(e.fn)
        if e.int is not None and e.c.get("uneval") and e.c.get("promoted") is None and getattr(e, "owner", None) is not None:
            cb = e.owner.facts.body(e.c["uneval"], required=False)
            if cb is not None and cb.kind.startswith("Const"):
                init = _plain_lambda(cb)
                if init is not None and "size_of<" in init:
                    return init  # a named constant for a layout-dependent expression prints as that expression
        if e.int is not None:
            bits = {"u8": 8, "u16": 16, "u32": 32, "u64": 64, "usize": 64}.get(e.ty)
            if bits and e.int == (1 << bits) - 1 and bits >= 16:
                return "Not(0)"  # the all-ones sentinel, however it is spelt (`!0`, `u32::MAX`, a named constant)
            return str(e.int)
        sv = e.str_value()
        if sv is not None:
            return repr(sv)
        if e.c.get("uneval"):
            v = const_value_shape(getattr(e, "owner", None), e.c)
            return v if v is not None else nice(e.c["uneval"])
        return e.s.replace("const ", "")
    if isinstance(e, Field):
        inner = e.x
        while isinstance(inner, Named) and inner.local not in roles:
            inner = inner.x
        if isinstance(inner, Call) and inner.t.get("resolved_local") and len(inner.args) == 1:
            # `x.get_pair().0` is `x.get_first()` when the crate has both accessors
            comp = _tuple_getter_component(inner, e.idx)
            if comp is not None:
                return _re.sub(r"\bp1\b", lambda _m: shape(inner.args[0], roles, depth - 1), comp)
        if isinstance(inner, Bin) and inner.op.endswith("WithOverflow") and e.idx == 0:
            return shape(Bin(inner.op[:-len("WithOverflow")], inner.l, inner.r, inner.lty), roles, depth)
        if isinstance(inner, Downcast) and e.idx == 0:
            base = inner.x
            while isinstance(base, Named) and base.local not in roles:
                base = base.x
            if isinstance(base, Call) and nice(base.callee) == "Try::branch" and inner.variant == "Continue":
                arg = base.args[0]
                while isinstance(arg, (Named, Ref, Deref)) and not (isinstance(arg, Named) and arg.local in roles):
                    arg = arg.x
                if isinstance(arg, Var) and getattr(arg, "ok_payload", None) is not None and arg.local not in roles:
                    return shape(arg.ok_payload, roles, depth - 1)  # `?` on a value built as Ok(p)/Some(p) at one place: p
                return _try_shape(shape(base.args[0], roles, depth - 1))
            v = inner.variant.lower()
            if v in ("some", "ok", "continue"):
                v = "try"  # the payload on the success path, however it was taken (`?`, `if let`, `match`)
            if v == "try":
                return _try_shape(shape(inner.x, roles, depth - 1))
            return "%s(%s)" % (v, shape(inner.x, roles, depth - 1))
        xs_ = shape(e.x, roles, depth - 1)
        if xs_.startswith("tuple(") and xs_.endswith(")") and str(e.name).isdigit() and _balanced(xs_[6:-1]):
            parts_ = _split_args(xs_[6:-1])
            if int(e.name) < len(parts_):
                return parts_[int(e.name)]  # a component of a tuple built right there (a helper returning a pair)
        return "%s.%s" % (xs_, e.name)
    if isinstance(e, Index):
        xs = shape(e.x, roles, depth - 1)
        is_ = shape(e.i, roles, depth - 1)
        if is_ == "RangeFull{}":
            return xs  # the full slice `&x[..]` is a view of all of x
        return "%s[%s]" % (xs, is_)
    if isinstance(e, Downcast):
        return "%s@%s" % (shape(e.x, roles, depth - 1), e.variant)
    if isinstance(e, Cast):
        if e.ck.startswith("IntToInt") or e.ck.startswith("FloatToInt") or e.ck.startswith("IntToFloat"):
            return "cast<%s>(%s)" % (e.to_ty, shape(e.x, roles, depth - 1))
        return shape(e.x, roles, depth)  # pointer coercions, unsizing: transparent
    if isinstance(e, Bin):
        op = e.op
        l = shape(e.l, roles, depth - 1)
        r = shape(e.r, roles, depth - 1)
        if op in ("Gt", "Ge"):
            op = FLIP[op]
            l, r = r, l
        if op in COMMUTATIVE and r < l:
            l, r = r, l
        return "%s(%s,%s)" % (op, l, r)
    if isinstance(e, Un):
        return "%s(%s)" % (e.op, shape(e.x, roles, depth - 1))
    if isinstance(e, Discr):
        return "discr(%s)" % shape(e.x, roles, depth - 1)
    if isinstance(e, Agg):
        if e.ak == "adt":
            n = nice(e.adt).split("::")[-1]
            if e.variant and e.variant != n:
                n += "::" + e.variant
            return "%s{%s}" % (n, ",".join("%s:%s" % (f, shape(o, roles, depth - 1)) for f, o in zip(e.fields or [], e.ops)))
        if e.ak == "closure":
            lam = lambda_shape(getattr(e, "owner", None), e.closure, True, depth)
            return lam if lam is not None else "closure:%s" % nice(e.closure)
        return "%s(%s)" % (e.ak, ",".join(shape(o, roles, depth - 1) for o in e.ops))
    if isinstance(e, Call):
        c = e.callee
        if c in TRANSPARENT_CALLS and len(e.args) == 1:
            kind = TRANSPARENT_CALLS[c]
            inner = shape(e.args[0], roles, depth - 1)
            if kind == "from":
                # widening conversions keep the value; keep the target type visible
                return "from<%s>(%s)" % (e.t["dest"]["ty"], inner)
            if kind == "into":
                return inner
            return inner
        if e.t.get("resolved_local") and len(e.args) == 1 and getattr(e, "owner", None) is not None:
            suffix = field_getter(e.owner.facts, e.t.get("resolved") or e.t.get("callee"))
            if suffix is not None:
                return _getter_on_place(e, suffix, roles, depth)  # accessor call = field read
        cid = callee_id(e.t)
        if cid == "mem::size_of" and e.t.get("callee_args"):
            return "size_of<%s>" % short_ty(e.t["callee_args"][0])
        if nice(c) in ("Index::index", "IndexMut::index_mut") and len(e.args) == 2:
            xs, is_ = shape(e.args[0], roles, depth - 1), shape(e.args[1], roles, depth - 1)
            if is_ == "RangeFull{}":
                return xs
            return "%s[%s]" % (xs, is_)
        parts = [shape(a, roles, depth - 1) for a in e.args]
        if cid in ("Option::is_some_and", "Option::flatten") and e.args:
            a0 = e.args[0]
            while isinstance(a0, Named) and a0.local not in roles:
                a0 = a0.x
            if isinstance(a0, Call):
                inner = callee_id(a0.t)
                if cid == "Option::is_some_and" and inner == "Result::ok" and len(parts) == 2 and len(a0.args) == 1:
                    return "Result::is_ok_and(%s,%s)" % (shape(a0.args[0], roles, depth - 1), parts[1])  # r.ok().is_some_and(f)
                if cid == "Option::flatten" and inner == "Option::map" and len(a0.args) == 2:
                    return "Option::and_then(%s,%s)" % (shape(a0.args[0], roles, depth - 1), shape(a0.args[1], roles, depth - 1))  # o.map(f).flatten()
        if cid == "Option::unwrap_or" and len(parts) == 2 and len(e.args) == 2:
            a0 = e.args[0]
            while isinstance(a0, Named) and a0.local not in roles:
                a0 = a0.x
            if isinstance(a0, Call) and callee_id(a0.t) == "Option::map" and len(a0.args) == 2:
                # opt.map(f).unwrap_or(d) is opt.map_or(d, f)
                return "Option::map_or(%s,%s,%s)" % (shape(a0.args[0], roles, depth - 1), parts[1], shape(a0.args[1], roles, depth - 1))
        if cid in ("Iterator::copied", "Iterator::cloned", "Option::copied", "Option::cloned") and len(parts) == 1:
            return parts[0]  # the same elements by value: `iter().copied()` / `.cloned()` / `|&x|` / `*x` are one spelling
        if cid == "Iterator::map" and len(parts) == 2 and parts[1] == "\u03bb(p1)":
            return parts[0]  # mapping a value-preserving conversion over an iterator keeps the elements
        if cid == "Option::map" and len(parts) == 2 and parts[1] == "\u03bb(p1)":
            return parts[0]  # mapping a reference conversion over an option keeps the value
        if cid in ("Option::as_deref", "Option::as_deref_mut") and len(parts) == 1:
            return "Option::as_ref(%s)" % parts[0]
        if cid in ("PartialEq::eq", "PartialEq::ne") and len(parts) == 2 and parts[1] < parts[0]:
            parts.reverse()  # equality is symmetric
        return "%s(%s)" % (cid, ",".join(parts))
    if isinstance(e, Unknown):
        return "?%s" % e.what
    return "?"


import re as _re

_LAMBDA_CACHE = {}
_GETTER_INDEX = {}


_FIELD_GETTERS = {}


def field_getter(facts, path):
    """For a one-argument function of the crate whose whole body is a field projection of its argument
    (`fn get_dst_line(&self) -> u32 { self.raw.dst_line }`): the projection as a suffix (".raw.dst_line"); None
    otherwise. A call of such an accessor and a direct read of the field are the same value, so both print as the
    field path (what the accessor returns is decided by the accessor table, rule R0)."""
    key = (id(facts), path)
    if key not in _FIELD_GETTERS:
        out = None
        b = facts.body(path, required=False) if path else None
        if b is not None and b.promoted is None and b.kind in ("Fn", "AssocFn") and b.arg_count == 1 and not b.derived:
            _FIELD_GETTERS[key] = None  # recursion guard
            lam = _plain_lambda(b)
            if lam and _re.match(r"^p1(\.[A-Za-z_]\w*|\.\d+)+$", lam):
                out = lam[2:]
                # the projection itself, for re-applying it to the caller's place
                def place_of(l, hops=0):
                    ds_ = b.defs.get(l, [])
                    if hops > 6 or len(ds_) != 1 or ds_[0][2] != "assign" or b.partial_defs.get(l):
                        return None
                    rv_ = ds_[0][3]["rv"]
                    pl_ = rv_["op"]["place"] if rv_["k"] == "use" and rv_["op"].get("k") in ("copy", "move") else rv_["place"] if rv_["k"] == "ref" else None
                    if pl_ is None or not all(x.get("k") in ("deref", "field") for x in pl_["p"]):
                        return None
                    if pl_["l"] == 1:
                        return list(pl_["p"])
                    inner = place_of(pl_["l"], hops + 1)
                    return None if inner is None else inner + list(pl_["p"])
                full = place_of(0)
                _GETTER_PROJS[key] = [x for x in full if x.get("k") == "field"] if full else None
        _FIELD_GETTERS[key] = out
    return _FIELD_GETTERS[key]


_GETTER_PROJS = {}


def _getter_on_place(call, suffix, roles, depth):
    """accessor(x) where x is a local of the caller: the field read on that local (so that what is known about the
    local's fields - a struct built by one literal - applies)."""
    owner = call.owner
    projs = _GETTER_PROJS.get((id(owner.facts), call.t.get("resolved") or call.t.get("callee")))
    a = call.args[0]
    while isinstance(a, (Ref, Deref)) or (isinstance(a, Named) and a.local not in (roles or {})):
        a = a.x
    if projs and isinstance(a, Var) and not a.is_arg and a.local not in (roles or {}) and hasattr(owner, "_stable_field"):
        op = owner._stable_field(a.local, projs[0]["i"])
        if op is not None and op.get("k") in ("copy", "move", "const"):
            e2 = owner._project(owner.expr_of_operand(op, depth - 1), projs[1:], depth - 1, None)
            return shape(e2, roles, depth - 1)
    return shape(call.args[0], roles, depth - 1) + suffix


def _getter_index(facts):
    """{(impl self type, λ-shape): printed callee} for the one-argument straight-line functions of the crate."""
    key = id(facts)
    if key not in _GETTER_INDEX:
        idx = {}
        for b in facts.bodies:
            if b.promoted is None and b.kind in ("Fn", "AssocFn") and b.arg_count == 1 and not b.derived:
                lam = _plain_lambda(b)
                if lam is not None:
                    idx.setdefault((b.raw.get("parent"), lam), nice(b.path))
        _GETTER_INDEX[key] = idx
    return _GETTER_INDEX[key]


def expand_plain_call(call):
    """`f(a, b)` for a function of the crate whose body is one straight-line, effect-free expression: that
    expression with the parameters replaced by the argument shapes (a constructor that delegates to a more general
    constructor builds what the general one builds). None if f is not that simple."""
    owner = getattr(call, "owner", None)
    if owner is None or not call.t.get("resolved_local"):
        return None
    b = owner.facts.body(call.t.get("resolved") or call.t.get("callee"), required=False)
    if b is None or b.promoted is not None or b.kind not in ("Fn", "AssocFn") or len(call.args) != b.arg_count:
        return None
    if any(b.blocks[x]["term"]["k"] in ("switch", "call") for x in range(len(b.blocks)) if not b.blocks[x]["cleanup"]):
        return None
    ds = b.defs.get(0, [])
    if len(ds) != 1 or b.partial_defs.get(0) or ds[0][2] != "assign":
        return None
    roles = {l: "\x00%d\x00" % l for l in range(1, b.arg_count + 1)}
    sh = shape(b.expr_of_rvalue(ds[0][3]["rv"]), roles, 12)
    if "var:" in sh or "?" in sh or len(sh) > 600:
        return None
    for l in range(1, b.arg_count + 1):
        sh = sh.replace("\x00%d\x00" % l, shape(call.args[l - 1]))
    return sh


def _plain_lambda(b):
    if any(b.blocks[x]["term"]["k"] == "switch" for x in range(len(b.blocks)) if not b.blocks[x]["cleanup"]):
        return None
    ds = b.defs.get(0, [])
    if len(ds) != 1 or b.partial_defs.get(0):
        return None
    bi, si, kind, node = ds[0]
    e = b.expr_of_rvalue(node["rv"]) if kind == "assign" else b.expr_of_call(node)
    sh = shape(e, {1: "p1"}, 10)
    return sh if len(sh) < 200 else None


def _tuple_getter_component(call, k):
    owner = getattr(call, "owner", None)
    if owner is None:
        return None
    facts = owner.facts
    path = call.t.get("resolved") or call.t.get("callee")
    b = facts.body(path, required=False)
    if b is None or b.arg_count != 1:
        return None
    lam = _plain_lambda(b)
    if lam is None or not lam.startswith("tuple("):
        return None
    parts = _split_args(lam[len("tuple("):-1])
    if k >= len(parts):
        return None
    # component k of the pair the accessor builds, in terms of its argument p1 (`x.get_pair().0` is what the
    # accessor puts first: a field path, or a call of another accessor)
    if _re.match(r"^[\w:<>]+\(p1\)$", parts[k]) or _re.match(r"^p1(\.[A-Za-z_]\w*|\.\d+)+$", parts[k]):
        return parts[k]
    g = _getter_index(facts).get((b.raw.get("parent"), parts[k]))
    return "%s(p1)" % g if g else None


def _split_args(s):
    out, depth, cur = [], 0, ""
    for ch in s:
        if ch in "({[":
            depth += 1
        elif ch in ")}]":
            depth -= 1
        if ch == "," and depth == 0:
            out.append(cur)
            cur = ""
        else:
            cur += ch
    if cur:
        out.append(cur)
    return out


def const_value_shape(owner, c):
    """Small constants print by value, so that a literal, a promoted temporary and a named `const`
    item of the same value look the same: integers as numbers, strings quoted, arrays/slices of
    up to 8 integers or chars as `array(v1,v2,...)`. Larger tables keep their path name."""
    if owner is None:
        return None
    facts = owner.facts
    path = c.get("uneval")
    if c.get("promoted") is not None:
        pb = facts.promoted_of(path, c["promoted"])
        if pb is None:
            return None
        vals = None
        for bi, si, st, it in pb.locations():
            if not it and st["k"] == "assign" and st["rv"]["k"] == "agg" and st["rv"].get("ak") == "array":
                if vals is not None:
                    return None
                vals = []
                for o in st["rv"]["ops"]:
                    if o["k"] != "const" or o["c"].get("int") is None:
                        return None
                    vals.append(o["c"]["int"])
        if vals is not None and 0 < len(vals) <= 8:
            return "array(%s)" % ",".join(str(v) for v in vals)
        return None
    k = facts.consts.get(path)
    if k is None:
        return None
    if k.get("int") is not None:
        cb = facts.body(path, required=False)
        if cb is not None and cb.kind.startswith("Const"):
            init = _plain_lambda(cb)
            if init is not None and "size_of<" in init:
                return init  # a named constant for a layout-dependent expression prints as that expression
        bits = {"u8": 8, "u16": 16, "u32": 32, "u64": 64, "usize": 64}.get(k.get("ty"))
        if bits and k["int"] == (1 << bits) - 1:
            return "Not(0)"  # the all-ones sentinel, however it is spelt (`!0`, `u32::MAX`, a named constant)
        return str(k["int"])
    ty = k.get("ty", "")
    a = k.get("alloc") or {}
    data = a["ptrs"][0]["alloc"].get("bytes") if a.get("ptrs") else a.get("bytes")
    if data is None:
        return None
    if ty.endswith("str"):
        try:
            return repr(bytes(data).decode("utf-8")) if len(data) <= 64 else None
        except UnicodeDecodeError:
            return None
    m = _re.match(r"^&(?:'static )?\[(char|u8|u16|u32|u64|usize|i8|i16|i32|i64)(?:; \d+)?\]$", ty)
    if m:
        w = {"char": 4, "u8": 1, "i8": 1, "u16": 2, "i16": 2, "u32": 4, "i32": 4, "u64": 8, "i64": 8, "usize": 8}[m.group(1)]
        n = len(data) // w
        if 0 < n <= 8:
            return "array(%s)" % ",".join(str(int.from_bytes(bytes(data[i * w:(i + 1) * w]), "little", signed=m.group(1).startswith("i"))) for i in range(n))
    return None


def lambda_shape(owner, path, is_closure, depth=20):
    """Canonical, name-free form of a *simple* callable: a closure - or a function of the crate that is
    new with respect to the reference table - whose body is one straight-line expression. Printed
    as `\u03bb(<shape of the result>)` with the parameters written p1, p2, ...; captured values keep
    the `^<expression>` form. Anything else (branches, loops, several results) keeps its path name."""
    if owner is None or depth < 4:
        return None
    facts = owner.facts
    key = (id(facts), path)
    if key in _LAMBDA_CACHE:
        return _LAMBDA_CACHE[key]
    _LAMBDA_CACHE[key] = None  # recursion guard
    b = facts.body(path, required=False)
    out = None
    if b is not None:
        if not is_closure:
            import normalize
            if path in normalize.baseline():
                return None
        simple = not any(b.blocks[x]["term"]["k"] == "switch" for x in range(len(b.blocks)) if not b.blocks[x]["cleanup"])
        # no side effects through references or captured places, and a value to speak of
        for bi, si, st, it in b.locations():
            if not it and st["k"] == "assign" and st["place"]["p"] and st["place"]["p"][0]["k"] in ("deref", "field") and st["place"]["l"] <= b.arg_count:
                simple = False
            if not it and st["k"] == "assign" and st["place"]["p"] and st["place"]["p"][0]["k"] == "deref":
                simple = False
        if b.locals[0]["ty"] == "()":
            simple = False
        ds = b.defs.get(0, [])
        if simple and len(ds) == 1 and not b.partial_defs.get(0):
            bi, si, kind, node = ds[0]
            e = b.expr_of_rvalue(node["rv"]) if kind == "assign" else b.expr_of_call(node)
            first = 2 if is_closure else 1
            roles = {l: "p%d" % (l - first + 1) for l in range(first, b.arg_count + 1)}
            sh = shape(e, roles, 12)
            if len(sh) <= 240 and "..." not in sh:
                m = _re.match(r"^([A-Za-z_][\w:<>]*)\(p1\)$", sh)
                if m and b.arg_count - first + 1 == 1:
                    out = "fn:%s" % m.group(1)  # |x| f(x) is f
                else:
                    out = "\u03bb(%s)" % sh
    _LAMBDA_CACHE[key] = out
    return out


def nice(path):
    """Short, generic-free display name of an item path: `Vec::push`, `i64::checked_shl`,
    `SourceMap::get_token`, `Try::branch`, `Token::eq` (for `<types::Token<'_> as PartialEq>::eq`)."""
    if path is None:
        return "?"
    p = path
    m = _re.match(r"^<(.+) as (.+)>::(\w+)$", p)
    if m:
        self_ty = _strip_generics(m.group(1))
        return "%s::%s" % (self_ty.split("::")[-1].lstrip("&"), m.group(3))
    p = p.replace("<impl [T]>", "slice")
    p = _re.sub(r"<impl ([^<>]*(?:<[^<>]*>)?[^<>]*)>", lambda mm: _strip_generics(mm.group(1)).split("::")[-1], p)
    p = p.replace("<impl [T]>", "slice")
    p = _strip_generics(p)
    segs = [x for x in p.split("::") if x]
    return "::".join(segs[-2:])


def _strip_generics(p):
    out = []
    depth = 0
    i = 0
    while i < len(p):
        c = p[i]
        if c == "<":
            depth += 1
        elif c == ">":
            depth -= 1
        elif depth == 0:
            out.append(c)
        i += 1
    r = "".join(out)
    r = r.replace("::::", "::")
    while r.endswith("::"):
        r = r[:-2]
    return r


def short_ty(ty):
    """Type without module paths and lifetimes: `Enumerate<TokenIter>`, `Vec<i64>`, `&mut Vec<u8>`."""
    if not ty:
        return "?"
    t = _re.sub(r"(?:[A-Za-z_][A-Za-z0-9_]*::)+", "", ty)
    t = _re.sub(r"<'[a-z_]+>", "", t)
    t = _re.sub(r"'[a-z_]+,? ?", "", t)
    return t


def callee_id(t):
    """A stable short identifier of a call's target: the resolved item when it is local to the
    analysed crate (an impl in /repo), the declared callee (trait method) otherwise."""
    c = t.get("callee")
    r = t.get("resolved")
    if c is None:
        return "<indirect>"
    if r and r != c and t.get("resolved_local"):
        return nice(r)
    return nice(c)


def callee_matches(t, *suffixes):
    """True if the callee (declared or resolved) ends with one of the suffixes."""
    for p in (t.get("callee"), t.get("resolved")):
        if p:
            n = nice(p)
            for s in suffixes:
                if p == s or p.endswith("::" + s) or p.endswith(s) or n == s or n == nice(s):
                    return True
    return False


# ---------------------------------------------------------------------------
# path conditions
# ---------------------------------------------------------------------------
class Cond:
    """On every path to the block, `discr` had one of `values` (or, if neg, none of them)."""

    def __init__(self, body, sw_bb, discr_expr, values, neg, dty):
        self.body = body
        self.bb = sw_bb
        self.discr = discr_expr
        self.values = values
        self.neg = neg
        self.dty = dty

    def truth(self):
        """For a bool discriminant: True / False / None."""
        if self.dty != "bool":
            return None
        if not self.neg:
            if self.values == {0}:
                return False
            if self.values == {1}:
                return True
        else:
            if self.values == {0}:
                return True
            if self.values == {1}:
                return False
        return None

    def __repr__(self):
        return "Cond(bb%d %s %s%s)" % (self.bb, self.discr, "not in " if self.neg else "in ", sorted(self.values))


def _reach_without_edge(body, target, src, dsts):
    """Is target reachable from entry if the edges src->d (d in dsts) are removed?"""
    seen = {0}
    dq = deque([0])
    while dq:
        b = dq.popleft()
        if b == target:
            return True
        for s in body.succ[b]:
            if b == src and s in dsts:
                continue
            if s not in seen:
                seen.add(s)
                dq.append(s)
    return target in seen


def path_conditions(body, bb):
    """Conditions (from SwitchInt terminators) that hold on every path from entry to bb."""
    out = []
    for d in range(len(body.blocks)):
        t = body.blocks[d]["term"]
        if t["k"] != "switch" or d == bb and False:
            continue
        if not body.dominates(d, bb) or d == bb:
            continue
        arms = t["arms"]
        targets = {}
        for v, tb in arms:
            targets.setdefault(tb, set()).add(v)
        other = t["otherwise"]
        listed = set(v for v, _ in arms)
        discr = body.expr_of_operand(t["discr"])
        for tb, vals in targets.items():
            if tb == other:
                continue
            if not _reach_without_edge(body, bb, d, {tb}):
                out.append(Cond(body, d, discr, set(vals), False, t["dty"]))
        # otherwise edge
        if other not in [tb for tb in targets if tb != other] or True:
            vals_to_other = targets.get(other, set())
            if not _reach_without_edge(body, bb, d, {other}):
                # discr not in (listed - vals_to_other)
                excl = listed - vals_to_other
                out.append(Cond(body, d, discr, excl, True, t["dty"]))
    return out


class Fact:
    """Atomic fact: op(l, r) is true, in canonical shape strings."""

    def __init__(self, op, l, r=None, cond=None):
        self.op = op
        self.l = l
        self.r = r
        self.cond = cond

    def key(self):
        return (self.op, self.l, self.r)

    def __repr__(self):
        return "%s(%s,%s)" % (self.op, self.l, self.r)


CMP_CALLS = {"PartialOrd::lt": "Lt", "PartialOrd::le": "Le", "PartialOrd::gt": "Gt", "PartialOrd::ge": "Ge", "PartialEq::eq": "Eq", "PartialEq::ne": "Ne"}
NEGATE = {"Eq": "Ne", "Ne": "Eq", "Lt": "Ge", "Ge": "Lt", "Le": "Gt", "Gt": "Le"}


def _strip_value(e):
    while isinstance(e, (Named,)):
        e = e.x
    return e


def _materialised_test(body, local, truth):
    """A bool temporary with exactly two definitions, `true` in block A and `false` in block B, where A and B
    are entered only from the two sides of one switch P (what `matches!`, a `match` yielding bools, or a
    materialised comparison leave behind): the temporary is true iff P took the edge to A. Returns the
    Cond of that edge (or of the edge to B when truth is False)."""
    ds = body.defs.get(local, [])
    if len(ds) != 2 or body.partial_defs.get(local):
        return None
    blocks = {}
    for bi, si, kind, node in ds:
        if kind != "assign" or node["rv"]["k"] != "use" or node["rv"]["op"]["k"] != "const":
            return None
        v = node["rv"]["op"].get("c", {}).get("int")
        if v is None:
            v = node["rv"]["op"].get("c", {}).get("bool")
        if v in (True, 1, "1", "true"):
            blocks[True] = bi
        elif v in (False, 0, "0", "false"):
            blocks[False] = bi
        else:
            return None
    if set(blocks) != {True, False} or blocks[True] == blocks[False]:
        return None
    pa, pb = body.pred[blocks[True]], body.pred[blocks[False]]
    if len(pa) != 1 or len(pb) != 1 or list(pa)[0] != list(pb)[0]:
        return None
    p = list(pa)[0]
    t = body.blocks[p]["term"]
    if t["k"] != "switch":
        return None
    tgt = blocks[truth]
    other = t["otherwise"]
    vals = set(v for v, tb in t["arms"] if tb == tgt)
    listed = set(v for v, _ in t["arms"])
    discr = body.expr_of_operand(t["discr"])
    if tgt == other:
        return Cond(body, p, discr, listed - vals, True, t["dty"])
    return Cond(body, p, discr, vals, False, t["dty"])


def facts_of_cond(c, roles=None):
    """Turn a Cond into atomic Facts (comparison facts, boolean call facts, variant facts)."""
    res = []
    e = _strip_value(c.discr)
    tr = c.truth()
    if isinstance(e, Un) and e.op == "Not" and tr is not None:
        e = _strip_value(e.x)
        tr = not tr
    if isinstance(e, Var) and tr is not None and c.body is not None:
        src = _materialised_test(c.body, e.local, tr)
        if src is not None:
            res.extend(facts_of_cond(src, roles))  # `let t = matches!(x, ..)` / `let t = a < b`: the test behind the bool
    if isinstance(e, Bin) and e.op in NEGATE and tr is not None:
        op = e.op if tr else NEGATE[e.op]
        l, r = e.l, e.r
        ls, rs = shape(l, roles), shape(r, roles)
        # canonical orientation: Lt/Le only; Eq/Ne sorted
        if op in ("Gt", "Ge"):
            op = FLIP[op]
            ls, rs = rs, ls
        if op in ("Eq", "Ne") and rs < ls:
            ls, rs = rs, ls
        res.append(Fact(op, ls, rs, c))
    elif isinstance(e, Discr):
        res.append(Fact("variant_not_in" if c.neg else "variant_in", shape(e.x, roles), tuple(sorted(c.values)), c))
    elif tr is not None:
        res.append(Fact("true" if tr else "false", shape(e, roles), None, c))
        if isinstance(e, Call) and len(e.args) == 2 and nice(e.callee) in ("Range::contains", "RangeBounds::contains", "RangeInclusive::contains") and tr:
            rng = e.args[0]
            while isinstance(rng, (Named, Ref, Deref)):
                rng = rng.x
            if isinstance(rng, Agg) and rng.ak == "adt" and len(rng.ops) == 2 and nice(rng.adt or "").endswith("Range"):
                xs = shape(e.args[1], roles)
                res.append(Fact("Le", shape(rng.ops[0], roles), xs, c))   # (a..b).contains(&x): a <= x
                res.append(Fact("Lt", xs, shape(rng.ops[1], roles), c))   # ... and x < b
        # comparisons made through the comparison traits (tuples, strings, ...): also as ordering facts
        if isinstance(e, Call) and len(e.args) == 2:
            op = CMP_CALLS.get(nice(e.callee))
            if op is not None:
                if not tr:
                    op = NEGATE[op]
                ls, rs = shape(e.args[0], roles), shape(e.args[1], roles)
                if op in ("Gt", "Ge"):
                    op = FLIP[op]
                    ls, rs = rs, ls
                if op in ("Eq", "Ne") and rs < ls:
                    ls, rs = rs, ls
                res.append(Fact(op, ls, rs, c))
    else:
        res.append(Fact("not_in" if c.neg else "in", shape(e, roles), tuple(sorted(c.values)), c))
    return res


def facts_at(body, bb, roles=None):
    out = []
    for c in path_conditions(body, bb):
        out.extend(facts_of_cond(c, roles))
    return out


# ---------------------------------------------------------------------------
# definitions of locals
# ---------------------------------------------------------------------------
def def_shapes(body, local, roles=None):
    """List of (shape, (bb, idx)) for every whole-local definition of `local`."""
    out = []
    for bi, si, kind, node in _expanded_defs(body, local, 3):
        if kind == "assign":
            e = body.expr_of_rvalue(node["rv"])
        else:
            e = body.expr_of_call(node)
        out.append((shape(e, roles), (bi, si), e))
    return out


def _expanded_defs(body, local, depth):
    """Definitions of a local; a definition that merely moves an unnamed temporary with several
    definitions of its own (`_0 = move _t` after `_t = Ok(..)` / `_t = Err(..)`: what remains of a
    helper's return value once it is inlined, or of a `match` used as tail expression) is replaced
    by the temporary's definitions."""
    res = []
    for d in body.defs.get(local, []):
        bi, si, kind, node = d
        if depth > 0 and kind == "assign" and node["rv"]["k"] == "use" and node["rv"]["op"]["k"] in ("move", "copy"):
            pl = node["rv"]["op"]["place"]
            x = pl["l"]
            if not pl["p"] and x not in body.var_names and x > body.arg_count and len(body.defs.get(x, [])) > 1 and not body.partial_defs.get(x):
                res.extend(_expanded_defs(body, x, depth - 1))
                continue
        if depth > 0 and kind == "call" and (node.get("resolved") or node.get("callee") or "").endswith("Option::<core::option::Option<T>>::flatten") and len(node["args"]) == 1 \
                and node["args"][0].get("k") in ("move", "copy") and not node["args"][0]["place"]["p"]:
            # `_0 = flatten(_t)` after `_t = Some(y)` / `_t = None` (what `c.then(|| y).flatten()` leaves once the
            # closure is in place): the definitions are y and None
            x = node["args"][0]["place"]["l"]
            inner = body.defs.get(x, [])
            if x not in body.var_names and x > body.arg_count and len(inner) > 1 and not body.partial_defs.get(x) and all(
                    k2 == "assign" and n2["rv"].get("k") == "agg" and n2["rv"].get("adt") == "core::option::Option" for _, _, k2, n2 in inner):
                for b2, s2, k2, n2 in inner:
                    if n2["rv"].get("variant") == "Some":
                        res.append((b2, s2, "assign", {"k": "assign", "place": n2["place"], "rv": {"k": "use", "op": n2["rv"]["ops"][0]}, "span": n2.get("span")}))
                    else:
                        res.append((b2, s2, k2, n2))
                continue
        res.append(d)
    return res


def find_local(body, name):
    """Locals whose user-visible name is `name` (several scopes may reuse a name)."""
    return [l for l, n in body.var_names.items() if n == name]


def calls_to(body, *suffixes):
    return [(bi, t) for bi, t in body.calls() if callee_matches(t, *suffixes)]


def arg_expr(body, t, k):
    return body.expr_of_operand(t["args"][k])


def root_local(e):
    """The local at the root of a place-like expression (through refs, derefs, fields, names)."""
    _seen_try = False
    while True:
        if isinstance(e, Named):
            # `let a = b;` (also a parameter of an inlined helper bound to the caller's variable): a is b
            inner = e.x
            while isinstance(inner, (Ref, Deref)):
                inner = inner.x
            if isinstance(inner, (Var, Named)):
                e = inner
                continue
            if isinstance(inner, Field) and inner.idx == 0 and isinstance(inner.x, Downcast) and inner.x.variant == "Continue":
                base = inner.x.x
                while isinstance(base, Named):
                    base = base.x
                if isinstance(base, Call) and nice(base.callee) == "Try::branch" and base.args:
                    a0 = base.args[0]
                    while isinstance(a0, (Named, Ref, Deref)):
                        a0 = a0.x
                    if isinstance(a0, Var) and getattr(a0, "ok_payload", None) is not None:
                        e = a0.ok_payload  # `let v = r?;` where r was built as Ok(p) at one place: v is p
                        continue
            return e.local
        if isinstance(e, Var):
            if getattr(e, "ok_payload", None) is not None and _seen_try:
                e = e.ok_payload  # `?` applied to a value built as Ok(p) at one place: p
                continue
            return e.local
        if isinstance(e, Field) and e.idx == 0 and isinstance(e.x, Downcast) and e.x.variant == "Continue":
            base = e.x.x
            while isinstance(base, Named):
                base = base.x
            if isinstance(base, Call) and nice(base.callee) == "Try::branch" and base.args:
                _seen_try = True
                e = base.args[0]
                continue
        if isinstance(e, (Ref, Deref, Field, Index, Downcast, Cast)):
            e = e.x
            continue
        if isinstance(e, Call) and e.callee in TRANSPARENT_CALLS and e.args:
            e = e.args[0]
            continue
        return None


def fold_question(shapes):
    """The definitions of an Option-returning function's result written with `?` - the residual of `X?` and a
    value built from its payload - as the combinator they spell: [residual(X), Some(B(try X))] is `X.map(B)`,
    [residual(X), B(try X)] is `X.and_then(B)`. Any other list is returned unchanged."""
    res = [sh for sh in shapes if sh.startswith("FromResidual::from_residual(break(Try::branch(") and sh.endswith(")))")]
    rest = [sh for sh in shapes if sh not in res]
    if len(res) != 1 or len(rest) != 1:
        return shapes
    x = res[0][len("FromResidual::from_residual(break(Try::branch("):-3]
    v = rest[0]
    payload = _try_shape(x)
    if payload not in v or "Result::" in v[:12]:
        return shapes
    comb = "Option::and_then"
    if v.startswith("Option::Some{0:") and v.endswith("}"):
        comb, v = "Option::map", v[len("Option::Some{0:"):-1]
    body_ = v.replace(payload, "p1")
    if "try(" in body_ and payload in body_:
        return shapes
    m = _re.match(r"^([A-Za-z_][\w:<>]*)\(p1\)$", body_)
    if body_ == "p1":
        return [x]
    return ["%s(%s,%s)" % (comb, x, "fn:%s" % m.group(1) if m else "\u03bb(%s)" % body_)]


def value_shape(body, local, roles=None):
    """Shape of a local's value as a whole: the single definition, or the `map_or` form of a
    two-sided match on an Option (the individual definitions are in def_shapes)."""
    ds = body.defs.get(local, [])
    if len(ds) == 1:
        return def_shapes(body, local, roles)[0][0]
    e = body.expr_of_local(local)
    while isinstance(e, Named):
        e = e.x
    if isinstance(e, Var) and getattr(e, "lift", None) is not None:
        return shape(e, roles)
    return None


def _try_shape(inner):
    """The success payload of `inner`. The first element of a slice obtained through `first()` is
    the element `[0]` (whether the emptiness was tested with is_empty() or by the Option)."""
    m = _re.match(r"^slice::first\((.*)\)$", inner)
    if m and _balanced(m.group(1)):
        return "%s[0]" % m.group(1)
    # the payload of `opt.as_ref()` is the payload of `opt` (by reference): `x.as_ref()?` reads like `let Some(y) = &x`
    m = _re.match(r"^Option::as_ref\((.*)\)$", inner)
    if m and _balanced(m.group(1)):
        return "try(%s)" % m.group(1)
    # `opt.ok_or(e)?` / `opt.ok_or_else(f)?`: the success payload is the payload of `opt`
    m = _re.match(r"^Option::(ok_or|ok_or_else)\((.*)\)$", inner)
    if m:
        parts = _split_args(m.group(2))
        if len(parts) == 2 and _balanced(parts[0]):
            return _try_shape(parts[0])
    return "try(%s)" % inner


def _balanced(s):
    d = 0
    for ch in s:
        if ch in "([{":
            d += 1
        elif ch in ")]}":
            d -= 1
            if d < 0:
                return False
    return d == 0


def test_forms(shape_str):
    """Both spellings of one ordering test: `Lt(a,b)` and its negation `Le(b,a)` (a test and its
    negation with swapped branches are the same program). Other shapes: just themselves."""
    m = _re.match(r"^(Lt|Le|Eq|Ne)\((.*)\)$", shape_str)
    if not m:
        return frozenset([shape_str])
    parts = _split_args(m.group(2))
    if len(parts) != 2:
        return frozenset([shape_str])
    op, l, r = m.group(1), parts[0], parts[1]
    neg = {"Lt": ("Le", r, l), "Le": ("Lt", r, l), "Eq": ("Ne", l, r), "Ne": ("Eq", l, r)}[op]
    return frozenset(["%s(%s,%s)" % (op, l, r), "%s(%s,%s)" % neg])


def same_test(a, b):
    return bool(test_forms(a) & test_forms(b))


def tuple_component(e):
    """`pair.k` where the pair is a tuple literal built at one place (also behind `?` on an `Ok((a, b))` that an
    inlined helper returned): the k-th operand itself, so that its own definitions can be looked at. Otherwise e."""
    x = e
    while isinstance(x, Named):
        x = x.x
    if not isinstance(x, Field) or not str(x.name).isdigit():
        return e
    base = x.x
    for _ in range(6):
        while isinstance(base, (Named, Ref, Deref)):
            base = base.x
        if isinstance(base, Field) and base.idx == 0 and isinstance(base.x, Downcast):
            inner = base.x.x
            while isinstance(inner, (Named, Ref, Deref)):
                inner = inner.x
            if isinstance(inner, Call) and nice(inner.callee) == "Try::branch" and inner.args:
                inner = inner.args[0]
                while isinstance(inner, (Named, Ref, Deref)):
                    inner = inner.x
            if isinstance(inner, Var) and getattr(inner, "ok_payload", None) is not None:
                base = inner.ok_payload
                continue
            if isinstance(inner, Agg) and inner.ak == "adt" and inner.variant in ("Ok", "Some") and inner.ops:
                base = inner.ops[0]
                continue
        break
    if isinstance(base, Agg) and base.ak == "tuple" and int(x.name) < len(base.ops):
        return base.ops[int(x.name)]
    return e


def callable_body(e):
    """Body of the first crate-local callable (closure or function item) mentioned in an expression."""
    for x in e.walk():
        owner = getattr(x, "owner", None)
        if owner is None:
            continue
        if isinstance(x, Agg) and x.ak == "closure":
            return owner.facts.body(x.closure, required=False)
        if isinstance(x, Const) and x.fn and x.c.get("fn_local"):
            return owner.facts.body(x.fn, required=False)
    return None


def first_param(body):
    """Local of the first user parameter (closures keep their environment in _1)."""
    return 2 if body.kind == "Closure" else 1


def site_str(body, bb):
    return span_str(body.blocks[bb]["term"]["span"])


def stmt_site(body, bb, idx):
    b = body.blocks[bb]
    if idx < len(b["stmts"]):
        return span_str(b["stmts"][idx]["span"])
    return span_str(b["term"]["span"])


def writes_between(body, local, a_bb, b_bb):
    """Definition sites of `local` (whole or partial) lying on some path a_bb ->* b_bb
    (excluding a_bb's own statements before its terminator is not attempted: block-level)."""
    on_path = set()
    fwd = body.reachable_blocks(a_bb)
    for x in fwd:
        if x == b_bb or body.reaches(x, b_bb):
            on_path.add(x)
    sites = []
    for bi, si, kind, node in body.defs.get(local, []) + getattr(body, "partial_defs", {}).get(local, []):
        if bi in on_path and bi != a_bb:
            sites.append((bi, si))
    return sites


def err_variant_constructions(body, variant):
    """Blocks/statement sites where errors::Error::<variant> is constructed."""
    out = []
    for bi, si, s, is_term in body.locations():
        if not is_term and s["k"] == "assign" and s["rv"]["k"] == "agg" and s["rv"].get("ak") == "adt":
            if s["rv"]["adt"].endswith("errors::Error") and s["rv"]["variant"] == variant:
                out.append((bi, si))
    return out


def wild(pattern, text):
    """Whole-string match where `*` in pattern matches any substring."""
    rx = ".*".join(_re.escape(part) for part in pattern.split("*"))
    return _re.fullmatch(rx, text, _re.S) is not None


def match_any(patterns, text):
    for p in patterns:
        if wild(p, text):
            return p
    return None


def eqs(kind, a, b):
    """Canonical shape of an equality call PartialEq::<kind>(a, b): operands sorted, as shape() prints them."""
    x, y = sorted([a, b])
    return "PartialEq::%s(%s,%s)" % (kind, x, y)


def eq_wild(kind, a, b, text):
    """Match an equality-call shape against operand patterns (with `*`) in either order."""
    return wild("PartialEq::%s(%s,%s)" % (kind, a, b), text) or wild("PartialEq::%s(%s,%s)" % (kind, b, a), text)
