"""Panic-freedom checker: sites of a set of bodies are discharged by a generic rule or by a
reviewed table entry whose requirements hold; the rest become violations."""
import importlib

import panics
import q
from tables.exceptions import EXCEPTIONS

_IN_PROGRESS = set()


def rule_holds(facts, rule_id):
    """Evaluate one rule (by id, e.g. 'C06.R1') on the fact base in a scratch context.
    True iff the rule produced at least one obligation and all of them hold. Cached per
    fact base; a requirement cycle fails closed."""
    cache = facts.__dict__.setdefault("_rule_cache", {})
    if rule_id in cache:
        return cache[rule_id]
    if rule_id in _IN_PROGRESS:
        return False
    prop = rule_id.split(".")[0]
    try:
        mod = importlib.import_module("rules.%s" % prop.lower())
    except ImportError:
        cache[rule_id] = False
        return False
    rules = getattr(mod, "RULES", {})
    ids = [r for r in rules if r == rule_id or r.startswith(rule_id)]
    if not ids:
        cache[rule_id] = False
        return False
    from main import Ctx
    from rules.common import guarded
    _IN_PROGRESS.add(rule_id)
    try:
        ctx = Ctx(prop, facts, "quick")
        for r in ids:
            guarded(ctx, r, "<requirement>", lambda r=r: rules[r](ctx))
        ok = bool(ctx.obligations) and all(o["status"] == "held" for o in ctx.obligations)
    finally:
        _IN_PROGRESS.discard(rule_id)
    cache[rule_id] = ok
    return ok


def check_bodies(ctx, rule, bodies, only=None, what="panic-capable site"):
    """Discharge every site of `bodies` (optionally filtered by only(site)). Records one
    obligation per site. Returns (n_sites, n_generic, n_table)."""
    facts = ctx.facts
    n = g = tb = 0
    for body in bodies:
        sites = panics.sites_of(body)
        if only is not None:
            sites = [s for s in sites if only(s)]
        used = {}  # exception index -> count
        for s in sites:
            n += 1
            d = panics.discharge(s, facts)
            construct = "%s:%s" % (s.what, s.desc[:160])
            site_str = ctx.site(body, s.bb)
            if d is not None:
                g += 1
                ctx.ok(rule, body.path, construct, "site cannot panic [%s: %s]" % d, site_str)
                continue
            ex = _match_exception(body.path, s)
            if ex is None:
                ctx.bad(rule, body.path, construct,
                        "every %s is discharged by a proof rule or a reviewed table entry (this one is not: %s on %s)" % (what, s.what, s.desc[:200]), site_str)
                continue
            i, e = ex
            used[i] = used.get(i, 0) + 1
            if used[i] > e.get("count", 1):
                ctx.bad(rule, body.path, construct,
                        "no more sites of this shape than the reviewed table lists (%d allowed) - a new %s appeared" % (e.get("count", 1), s.what), site_str)
                continue
            missing = [r for r in e.get("requires", []) if not rule_holds(facts, r)]
            if missing:
                ctx.bad(rule, body.path, construct,
                        "the structural facts this reviewed exception leans on hold (%s do not): %s" % (", ".join(missing), e["reason"]), site_str)
                continue
            tb += 1
            ctx.ok(rule, body.path, construct, "site cannot panic [table: %s]" % e["reason"], site_str)
    ctx.count("pf_sites", n)
    ctx.count("pf_generic", g)
    ctx.count("pf_table", tb)
    return n, g, tb


def _root(path):
    import re as _re
    return _re.sub(r"(::\{closure#\d+\})+$", "", path)


def _match_exception(fn, s):
    """A table entry is written for a construct of a function; the construct may sit in the function
    itself or in one of its closures (`opt.map(|x| ..)` vs `if let Some(x) = opt`), so entries match
    on the enclosing function and ignore the capture marker of the description."""
    for i, e in enumerate(EXCEPTIONS):
        if _root(e["fn"]) == _root(fn) and e["what"] == s.what and (q.wild(e["desc"], s.desc) or q.wild(e["desc"].replace("^", ""), s.desc.replace("^", ""))):
            return i, e
    return None
