"""G2: call graph over local bodies (resolved callees, closures, fn items, local trait impls)."""
from collections import deque

import q


class CallGraph:
    def __init__(self, facts):
        self.facts = facts
        # (a body the normal form spliced into all of its callers - a new private helper, a desugared closure - no
        #  longer exists as a caller of its own: its calls are its callers' calls)
        self.bodies = {b.path: b for b in facts.bodies if b.promoted is None and not b.raw.get("inlined_away")}
        self.edges = {p: set() for p in self.bodies}
        self.call_sites = {}  # (caller, callee) -> [bb]
        # local impls of trait methods: trait method path -> [body path]
        self.trait_impls = {}
        for b in self.bodies.values():
            if b.impl_trait:
                key = "%s::%s" % (b.impl_trait, b.name)
                self.trait_impls.setdefault(key, []).append(b.path)
        for p, b in self.bodies.items():
            self._scan(p, b)

    def _add(self, a, c, bb=None):
        if c in self.bodies:
            self.edges[a].add(c)
            if bb is not None:
                self.call_sites.setdefault((a, c), []).append(bb)

    def _scan_operand(self, p, op):
        if op.get("k") == "const":
            c = op["c"]
            if c.get("fn") and c.get("fn_local"):
                self._add(p, c["fn"])

    def _scan(self, p, b):
        for bi, blk in enumerate(b.blocks):
            for s in blk["stmts"]:
                if s["k"] != "assign":
                    continue
                rv = s["rv"]
                if rv["k"] == "agg":
                    if rv.get("ak") == "closure":
                        self._add(p, rv["closure"])
                    for o in rv["ops"]:
                        self._scan_operand(p, o)
                elif rv["k"] in ("use", "cast", "repeat"):
                    self._scan_operand(p, rv["op"])
            t = blk["term"]
            if t["k"] == "call":
                r = t.get("resolved")
                c = t.get("callee")
                if r and t.get("resolved_local"):
                    self._add(p, r, bi)
                elif c in self.bodies:
                    self._add(p, c, bi)
                # unresolved trait method (generic receiver): all local impls
                if c and (not r or r == c) and t.get("callee_trait"):
                    for imp in self.trait_impls.get(c, []):
                        self._add(p, imp, bi)
                for a in t["args"]:
                    self._scan_operand(p, a)
                self._scan_operand(p, t["func"])

    def closure(self, roots, stop=()):
        stop = set(stop)
        seen = set()
        dq = deque(r for r in roots if r in self.bodies and r not in stop)
        seen.update(dq)
        while dq:
            x = dq.popleft()
            for y in self.edges.get(x, ()):
                if y not in seen and y not in stop:
                    seen.add(y)
                    dq.append(y)
        return seen

    def callers(self, path):
        return sorted(a for a, cs in self.edges.items() if path in cs)

    def path_to(self, roots, target):
        """One call chain root -> ... -> target (for diagnostics)."""
        prev = {}
        dq = deque(r for r in roots if r in self.bodies)
        for r in list(dq):
            prev[r] = None
        while dq:
            x = dq.popleft()
            if x == target:
                out = []
                while x is not None:
                    out.append(x)
                    x = prev[x]
                return list(reversed(out))
            for y in self.edges.get(x, ()):
                if y not in prev:
                    prev[y] = x
                    dq.append(y)
        return None
