"""Fact extraction: run the smfacts rustc driver over /repo's current working tree.

The fact file is keyed by a hash over every build input, so one edit of /repo costs one
extraction that all 20 checks share, and a stale fact file can never be used.
"""
import fcntl
import glob
import hashlib
import json
import os
import shutil
import subprocess
import sys
import time
import uuid

VERIF = os.path.dirname(os.path.dirname(os.path.abspath(__file__)))
REPO = os.environ.get("SMCHECK_REPO", "/repo")
CACHE = os.environ.get("SMCHECK_CACHE", os.path.join(VERIF, ".cache"))
DRIVER = os.path.join(VERIF, "smfacts", "target", "release", "smfacts")

CONFIGS = {
    # name -> cargo feature flags
    "ram": ["--features", "ram_bundle"],
    "default": [],
}


class ExtractError(Exception):
    pass


def _sysroot():
    return subprocess.check_output(["rustc", "+nightly", "--print", "sysroot"], text=True).strip()


def tree_hash(repo=REPO):
    h = hashlib.sha256()
    files = sorted(glob.glob(os.path.join(repo, "src", "**", "*.rs"), recursive=True))
    files += [os.path.join(repo, "Cargo.toml"), os.path.join(repo, "Cargo.lock"), os.path.join(repo, "build.rs")]
    for f in files:
        if os.path.exists(f):
            h.update(os.path.relpath(f, repo).encode())
            h.update(b"\0")
            with open(f, "rb") as fh:
                h.update(fh.read())
            h.update(b"\0")
    if os.path.exists(DRIVER):
        with open(DRIVER, "rb") as fh:
            h.update(hashlib.sha256(fh.read()).digest())
    return h.hexdigest()[:24]


def ensure_driver():
    if os.path.exists(DRIVER):
        return
    env = dict(os.environ, CARGO_NET_OFFLINE="true")
    r = subprocess.run(["cargo", "build", "--release", "--offline"], cwd=os.path.join(VERIF, "smfacts"), env=env,
                       stdout=subprocess.PIPE, stderr=subprocess.STDOUT, text=True)
    if r.returncode != 0 or not os.path.exists(DRIVER):
        raise ExtractError("cannot build smfacts driver:\n" + r.stdout[-4000:])


def facts_path(config="ram", repo=REPO, cache=CACHE):
    """Return the path of an up-to-date fact file for the current tree, extracting if needed."""
    ensure_driver()
    os.makedirs(os.path.join(cache, "facts"), exist_ok=True)
    lock_path = os.path.join(cache, "lock-%s" % config)
    with open(lock_path, "w") as lock:
        fcntl.flock(lock, fcntl.LOCK_EX)
        th = tree_hash(repo)
        out = os.path.join(cache, "facts", "%s-%s.json" % (th, config))
        if os.path.exists(out) and os.path.getsize(out) > 1000:
            return out, th, False
        t0 = time.time()
        _extract(out, config, repo, cache)
        # keep the cache small: drop fact files of other tree states (of the main tree only)
        for f in glob.glob(os.path.join(cache, "facts", "*-%s.json" % config)) if repo == REPO else []:
            if f != out:
                try:
                    os.unlink(f)
                except OSError:
                    pass
        return out, th, True


def _extract(out, config, repo, cache):
    target = os.path.join(cache, "target-%s" % config)
    os.makedirs(target, exist_ok=True)
    # defeat cargo's freshness cache for the analysed crate only (deps stay warm)
    for pat in ("debug/.fingerprint/sourcemap-*", "debug/deps/libsourcemap-*", "debug/deps/sourcemap-*", "debug/incremental/sourcemap-*"):
        for f in glob.glob(os.path.join(target, pat)):
            if os.path.isdir(f):
                shutil.rmtree(f, ignore_errors=True)
            else:
                try:
                    os.unlink(f)
                except OSError:
                    pass
    nonce = uuid.uuid4().hex
    tmp_out = out + ".tmp-" + nonce
    env = dict(os.environ)
    env.update({
        "CARGO_NET_OFFLINE": "true",
        "LD_LIBRARY_PATH": os.path.join(_sysroot(), "lib") + ":" + env.get("LD_LIBRARY_PATH", ""),
        "RUSTFLAGS": "-Zmir-opt-level=0 -Coverflow-checks=on -Cdebug-assertions=off -Awarnings",
        "RUSTC_WORKSPACE_WRAPPER": DRIVER,
        "SMFACTS_OUT": tmp_out,
        "SMFACTS_NONCE": nonce,
        "SMFACTS_CRATE": "sourcemap",
        "CARGO_TARGET_DIR": target,
        "CARGO_INCREMENTAL": "0",
    })
    env.pop("RUSTC_WRAPPER", None)
    cmd = ["cargo", "+nightly", "check", "--offline", "--lib"] + CONFIGS[config]
    r = subprocess.run(cmd, cwd=repo, env=env, stdout=subprocess.PIPE, stderr=subprocess.STDOUT, text=True)
    if r.returncode != 0:
        raise ExtractError("cargo check of %s failed (the tree does not compile?):\n%s" % (repo, r.stdout[-6000:]))
    if not os.path.exists(tmp_out):
        raise ExtractError("driver did not write a fact file (cargo skipped the crate?)\n" + r.stdout[-3000:])
    with open(tmp_out) as f:
        head = f.read(4096)
    if nonce not in head:
        raise ExtractError("fact file does not carry this run's nonce")
    os.replace(tmp_out, out)


if __name__ == "__main__":
    cfg = sys.argv[1] if len(sys.argv) > 1 else "ram"
    t = time.time()
    p, th, fresh = facts_path(cfg)
    print(p, th, "extracted" if fresh else "cached", "%.1fs" % (time.time() - t))
