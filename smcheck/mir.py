"""Fact base access: bodies, CFG, dominators, def-use, expression reconstruction.

Everything here is computed from the JSON written by smfacts (resolved MIR of /repo).
No code of the analysed crate is executed.
"""
import json
import re
from collections import defaultdict, deque


class Facts:
    def __init__(self, path):
        import normalize
        with open(path) as f:
            self.raw, self.norm_log = normalize.apply(f.read())
        for b in self.raw["bodies"]:
            if b.get("name") and not b["path"].endswith(b["name"]) and b.get("promoted") is None and "{" not in b["path"].rsplit("::", 1)[-1]:
                b["name"] = b["path"].rsplit("::", 1)[-1]
        self.bodies = []
        self.by_path = defaultdict(list)
        for b in self.raw["bodies"]:
            body = Body(self, b)
            self.bodies.append(body)
            self.by_path[body.path].append(body)
        self.adts = {a["path"]: a for a in self.raw["adts"]}
        self.consts = {c["path"]: c for c in self.raw["consts"]}
        self.cfg = self.raw.get("cfg", [])
        self.nonce = self.raw.get("nonce")

    def body(self, path, required=True):
        """The (non-promoted) body with exactly this def path."""
        for b in self.by_path.get(path, []):
            if b.promoted is None:
                return b
        if required:
            raise MissingAnchor(path)
        return None

    def find(self, pred):
        return [b for b in self.bodies if b.promoted is None and pred(b)]

    def closures_of(self, path):
        return [b for b in self.bodies if b.promoted is None and b.root == path and b.kind == "Closure"]

    def promoted_of(self, path, idx):
        for b in self.by_path.get(path, []):
            if b.promoted == idx:
                return b
        return None

    def local_fns(self):
        return [b for b in self.bodies if b.promoted is None and b.kind in ("Fn", "AssocFn", "Closure")]


class MissingAnchor(Exception):
    pass


def span_str(sp):
    if not sp:
        return "?"
    f = sp["file"]
    i = f.find("src/")
    if i >= 0:
        f = f[i:]
    return "%s:%d" % (f, sp["l0"])


class Body:
    def __init__(self, facts, raw):
        self.facts = facts
        self.raw = raw
        self.path = raw["path"]
        self.kind = raw["kind"].split(" ")[0]
        self.name = raw.get("name", "")
        self.root = raw.get("root")
        self.promoted = raw.get("promoted")
        self.impl_self = raw.get("impl_self")
        self.impl_trait = raw.get("impl_trait")
        self.derived = raw.get("derived", False)
        self.vis = raw.get("vis")
        self.reachable = raw.get("reachable", False)
        self.sig = raw.get("sig")
        self.arg_count = raw["arg_count"]
        self.locals = raw["locals"]
        self.blocks = raw["blocks"]
        self.span = raw["span"]
        self.file = raw["span"]["file"]
        # variable names
        self.var_names = {}  # local index -> name (only for whole-local places)
        self.upvar_names = {}  # field index of closure env -> name
        for v in raw["vars"]:
            p = v.get("place")
            if not p:
                continue
            if not p["p"]:
                self.var_names.setdefault(p["l"], v["name"])
            else:
                # closure upvar: _1.f or (*_1).f [deref]
                fs = [e for e in p["p"] if e["k"] == "field"]
                if p["l"] == 1 and fs:
                    self.upvar_names[fs[0]["i"]] = v["name"]
        self._succ = None
        self._pred = None
        self._idom = None
        self._defs = None
        self._mut_borrowed = None
        self._ipdom = None

    def __repr__(self):
        return "<Body %s>" % self.path

    def capture_exprs(self):
        """For a closure body: the operand expressions of the closure aggregate in the body that
        creates it (the values captured for upvars 0..n), else None."""
        if getattr(self, "_captures", False) is not False:
            return self._captures
        self._captures = None
        if self.kind != "Closure":
            return None
        parent = self.raw.get("parent")
        cands = [b for b in self.facts.by_path.get(parent, []) if b.promoted is None] if parent else []
        for pb in cands:
            for bi, si, s, is_term in pb.locations():
                if not is_term and s["k"] == "assign" and s["rv"]["k"] == "agg" and s["rv"].get("ak") == "closure" and s["rv"].get("closure") == self.path:
                    self._captures = [pb.expr_of_operand(o) for o in s["rv"]["ops"]]
                    return self._captures
        return None

    # ---- CFG ---------------------------------------------------------
    def term(self, bb):
        return self.blocks[bb]["term"]

    def succs(self, bb, unwind=False):
        t = self.blocks[bb]["term"]
        k = t["k"]
        out = []
        if k == "goto":
            out = [t["t"]]
        elif k == "switch":
            out = [a[1] for a in t["arms"]] + [t["otherwise"]]
        elif k in ("call", "assert", "drop"):
            if "t" in t:
                out = [t["t"]]
            if unwind and "unwind" in t:
                out = out + [t["unwind"]]
        return out

    @property
    def succ(self):
        if self._succ is None:
            self._succ = [list(dict.fromkeys(self.succs(i))) for i in range(len(self.blocks))]
        return self._succ

    @property
    def pred(self):
        if self._pred is None:
            p = [[] for _ in self.blocks]
            for i, ss in enumerate(self.succ):
                for s in ss:
                    p[s].append(i)
            self._pred = p
        return self._pred

    def reachable_blocks(self, start=0, avoid=()):
        avoid = set(avoid)
        seen = set()
        if start in avoid:
            return seen
        dq = deque([start])
        seen.add(start)
        while dq:
            b = dq.popleft()
            for s in self.succ[b]:
                if s not in seen and s not in avoid:
                    seen.add(s)
                    dq.append(s)
        return seen

    def reaches(self, a, b, avoid=()):
        """Is there a CFG path a ->+ b (at least one edge) avoiding blocks in avoid."""
        avoid = set(avoid)
        seen = set()
        dq = deque()
        for s in self.succ[a]:
            if s not in avoid and s not in seen:
                seen.add(s)
                dq.append(s)
        while dq:
            x = dq.popleft()
            if x == b:
                return True
            for s in self.succ[x]:
                if s not in seen and s not in avoid:
                    seen.add(s)
                    dq.append(s)
        return b in seen

    @property
    def idom(self):
        if self._idom is None:
            self._idom = _dominators(len(self.blocks), self.succ, self.pred, 0)
        return self._idom

    def dominates(self, a, b):
        """block a dominates block b (reflexive)."""
        idom = self.idom
        if b not in idom and b != 0:
            return False
        x = b
        while True:
            if x == a:
                return True
            if x == 0 or x not in idom:
                return False
            x = idom[x]

    def dominators_of(self, b):
        out = [b]
        idom = self.idom
        x = b
        while x != 0 and x in idom:
            x = idom[x]
            out.append(x)
        return out

    def return_blocks(self):
        return [i for i, b in enumerate(self.blocks) if b["term"]["k"] == "return"]

    def loops(self):
        """Natural loops: list of (header, set(body blocks))."""
        res = {}
        for b in range(len(self.blocks)):
            for s in self.succ[b]:
                if self.dominates(s, b):  # back edge b->s
                    body = res.setdefault(s, {s})
                    stack = [b]
                    while stack:
                        x = stack.pop()
                        if x not in body:
                            body.add(x)
                            stack.extend(self.pred[x])
        return sorted(res.items())

    # ---- statements / locations ----------------------------------------
    def locations(self, cleanup=False):
        """Yield (bb, idx, stmt_or_term, is_term) for normal (non-cleanup) blocks."""
        for bi, b in enumerate(self.blocks):
            if b["cleanup"] and not cleanup:
                continue
            for si, s in enumerate(b["stmts"]):
                yield bi, si, s, False
            yield bi, len(b["stmts"]), b["term"], True

    def calls(self, pred=None):
        """Yield (bb, term) for call terminators (non-cleanup)."""
        for bi, b in enumerate(self.blocks):
            t = b["term"]
            if t["k"] == "call" and not b["cleanup"]:
                if pred is None or pred(t):
                    yield bi, t

    def asserts(self):
        for bi, b in enumerate(self.blocks):
            t = b["term"]
            if t["k"] == "assert" and not b["cleanup"]:
                yield bi, t

    @property
    def defs(self):
        """local -> list of (bb, idx, kind, node) definitions of the *whole* local.
        kind in assign/call; partial (projected) writes are in self.partial_defs."""
        if self._defs is None:
            d = defaultdict(list)
            pd = defaultdict(list)
            for bi, si, s, is_term in self.locations(cleanup=False):
                if not is_term and s["k"] == "assign":
                    pl = s["place"]
                    (d if not pl["p"] else pd)[pl["l"]].append((bi, si, "assign", s))
                elif is_term and s["k"] == "call":
                    pl = s["dest"]
                    (d if not pl["p"] else pd)[pl["l"]].append((bi, si, "call", s))
            self._defs = d
            self.partial_defs = pd
        return self._defs

    def local_name(self, l):
        return self.var_names.get(l)

    def local_ty(self, l):
        return self.locals[l]["ty"]

    def is_temp(self, l):
        return l not in self.var_names and l > self.arg_count

    # ---- expression reconstruction -------------------------------------
    def expr_of_operand(self, op, depth=30, at=None):
        k = op["k"]
        if k == "const":
            c = Const(op["c"])
            c.owner = self
            return c
        if k in ("copy", "move"):
            return self.expr_of_place(op["place"], depth, at)
        return Unknown(op.get("dbg", "?"))

    def _stable_field(self, l, i):
        """A struct local built by one literal and afterwards only modified in *other* fields (`let mut t = T { a, b };
        t.b = ..;`): field i still holds the operand the literal gave it. Returns that operand or None."""
        if l <= self.arg_count:
            return None
        ds = self.defs.get(l, [])
        pds = self.partial_defs.get(l, [])
        if len(ds) != 1 or not pds or ds[0][2] != "assign" or ds[0][3]["rv"]["k"] != "agg" or ds[0][3]["rv"].get("ak") not in ("adt", "tuple"):
            return None
        ops = ds[0][3]["rv"]["ops"]
        if i >= len(ops) or ds[0][3]["rv"].get("variant") not in (None, ds[0][3]["rv"].get("adt", "").split("::")[-1]):
            return None
        for _, _, kind, node in pds:
            pl = node["place"] if kind == "assign" else node["dest"]
            if not pl["p"] or pl["p"][0].get("k") != "field" or pl["p"][0].get("i") == i:
                return None
        if self._mut_borrowed is None:
            mb = set()
            for bi, si, st, it in self.locations(cleanup=False):
                if not it and st["k"] == "assign" and st["rv"]["k"] in ("ref", "rawptr") and st["rv"].get("mut"):
                    mb.add(st["rv"]["place"]["l"])
            self._mut_borrowed = mb
        if l in self._mut_borrowed:
            return None
        return ops[i]

    def expr_of_place(self, pl, depth=30, at=None):
        if pl["p"] and pl["p"][0].get("k") == "field" and depth > 2:
            op = self._stable_field(pl["l"], pl["p"][0]["i"])
            if op is not None and op.get("k") in ("copy", "move", "const"):
                e = self.expr_of_operand(op, depth - 1, at)
                return self._project(e, pl["p"][1:], depth, at)
        base = self.expr_of_local(pl["l"], depth, at)
        return self._project(base, pl["p"], depth, at)

    def _project(self, e, projs, depth, at):
        for pr in projs:
            kk = pr["k"]
            if kk == "deref":
                e = Deref(e)
            elif kk == "field":
                # closure upvars
                if isinstance(e, (Var,)) and e.local == 1 and self.kind == "Closure" and pr["i"] in self.upvar_names:
                    e = Upvar(self.upvar_names[pr["i"]], pr["i"], pr.get("ty"), self)
                elif isinstance(e, Deref) and isinstance(e.x, Var) and e.x.local == 1 and self.kind == "Closure" and pr["i"] in self.upvar_names:
                    e = Upvar(self.upvar_names[pr["i"]], pr["i"], pr.get("ty"), self)
                else:
                    e = Field(e, pr.get("n", str(pr["i"])), pr["i"], pr.get("adt"), pr.get("ty"))
            elif kk == "index":
                e = Index(e, self.expr_of_local(pr["l"], depth - 1, at))
            elif kk == "cindex":
                e = Index(e, Const({"ty": "usize", "s": "const %d" % pr["offset"], "int": pr["offset"]}))
            elif kk == "downcast":
                e = Downcast(e, pr.get("n", str(pr["vi"])))
            else:
                e = Unknown(kk)
        return e

    def expr_of_local(self, l, depth=30, at=None):
        """Reconstruct the value of a local as an expression tree. Temps with exactly one
        definition are expanded; user variables, arguments and multiply-defined locals are
        leaves (Var)."""
        name = self.var_names.get(l)
        if l <= self.arg_count and l != 0:
            return Var(l, name or ("arg%d" % l), self.locals[l]["ty"], is_arg=True)
        ds = self.defs.get(l, [])
        if depth <= 0 or len(ds) != 1 or self.partial_defs.get(l):
            v = Var(l, name or ("_%d" % l), self.locals[l]["ty"])
            if depth > 0 and len(ds) > 1 and not self.partial_defs.get(l):
                v.ok_payload = self._ok_payload(ds, depth)
                if len(ds) == 2 and depth > 3:
                    v.lift = self._match_lift(ds, depth)
            return v
        if name is not None and self.locals[l]["mut"]:
            return Var(l, name, self.locals[l]["ty"])
        bi, si, kind, node = ds[0]
        if kind == "assign":
            e = self.expr_of_rvalue(node["rv"], depth - 1)
        else:
            e = self.expr_of_call(node, depth - 1)
        e.site = (bi, si)
        if name is not None:
            e = Named(name, l, e, self.locals[l]["ty"])
        return e

    def _match_lift(self, ds, depth):
        """`let v = match opt { Some(x) => f(x), None => d };` (or the `if let` spelling): the two
        definitions of v sit on the Some and on the None side of one test of `opt`. Returns
        (scrutinee, value on the Some side, value on the None side) or None."""
        import q as _q
        if getattr(self, "_lifting", False):
            return None
        self._lifting = True
        try:
            sides = {}
            scrut = None
            sw = None
            for bi, si, kind, node in ds:
                found = None
                for c in _q.path_conditions(self, bi):
                    if isinstance(c.discr, Discr) and len(c.values) == 1:
                        val = list(c.values)[0]
                        if c.neg:
                            val = 1 - val if val in (0, 1) else None
                        if val in (0, 1):
                            found = (c, val)
                if found is None:
                    return None
                c, val = found
                if sw is not None and c.bb != sw:
                    return None
                sw = c.bb
                scrut = c.discr.x
                sides[val] = self.expr_of_rvalue(node["rv"], depth - 2) if kind == "assign" else self.expr_of_call(node, depth - 2)
            if set(sides) != {0, 1} or scrut is None:
                return None
            x = scrut
            while isinstance(x, (Named, Ref, Deref)):
                x = x.x
            if isinstance(x, Call):
                ty = x.t["dest"]["ty"]
            else:
                rl = _q.root_local(scrut)
                ty = self.locals[rl]["ty"] if rl is not None else ""
            while ty.startswith("&"):
                ty = ty[1:].lstrip()
                if ty.startswith("mut "):
                    ty = ty[4:]
            if not ty.startswith("core::option::Option<"):
                return None
            return (scrut, sides[1], sides[0])
        finally:
            self._lifting = False

    def _ok_payload(self, ds, depth):
        """For a Result/Option local with several definitions of which exactly one builds the
        success variant (all others build the failure variant or propagate a residual): the
        payload of that success value. `x?` on such a local continues with exactly this payload."""
        ok = []
        for bi, si, kind, node in ds:
            if kind == "assign" and node["rv"]["k"] == "agg" and node["rv"].get("ak") == "adt" and node["rv"].get("adt") in ("core::result::Result", "core::option::Option"):
                if node["rv"].get("variant") in ("Ok", "Some"):
                    ok.append((bi, si, node))
                continue
            if kind == "call" and (node.get("callee") or "").endswith("FromResidual::from_residual"):
                continue
            return None
        if len(ok) != 1:
            return None
        bi, si, node = ok[0]
        e = self.expr_of_operand(node["rv"]["ops"][0], depth - 1)
        return e

    def expr_of_call(self, t, depth=30):
        args = [self.expr_of_operand(a, depth) for a in t["args"]]
        c = Call(t, args)
        c.owner = self
        return c

    def expr_of_rvalue(self, rv, depth=30):
        k = rv["k"]
        if k == "use":
            return self.expr_of_operand(rv["op"], depth)
        if k == "ref":
            return Ref(self.expr_of_place(rv["place"], depth), rv["mut"])
        if k == "rawptr":
            return Ref(self.expr_of_place(rv["place"], depth), "raw")
        if k == "cast":
            return Cast(self.expr_of_operand(rv["op"], depth), rv["from"], rv["to"], rv["ck"])
        if k == "bin":
            return Bin(rv["op"], self.expr_of_operand(rv["l"], depth), self.expr_of_operand(rv["r"], depth), rv.get("lty"))
        if k == "un":
            return Un(rv["op"], self.expr_of_operand(rv["x"], depth))
        if k == "discr":
            return Discr(self.expr_of_place(rv["place"], depth))
        if k == "agg":
            a = Agg(rv, [self.expr_of_operand(o, depth) for o in rv["ops"]])
            a.owner = self
            return a
        if k == "repeat":
            return Unknown("repeat")
        return Unknown(rv.get("dbg", k))


# ---- expression tree ------------------------------------------------------
class Expr:
    site = None

    def walk(self):
        yield self
        for c in self.children():
            yield from c.walk()

    def children(self):
        return []

    def strip(self):
        """Look through names, refs, derefs, copies and value-preserving wrappers."""
        e = self
        while True:
            if isinstance(e, Named):
                e = e.x
            elif isinstance(e, (Ref, Deref)):
                e = e.x
            else:
                return e

    def unname(self):
        e = self
        while isinstance(e, Named):
            e = e.x
        return e


class Const(Expr):
    def __init__(self, c):
        self.c = c
        self.ty = c["ty"]
        self.int = c.get("int")
        self.fn = c.get("fn")
        self.s = c["s"]

    def str_value(self):
        m = re.match(r'^(?:const )?"(.*)"$', self.s, re.S)
        if m:
            return _unescape(m.group(1))
        return None

    def __str__(self):
        if self.fn:
            return self.fn
        return self.s.replace("const ", "")


def _unescape(s):
    try:
        return bytes(s, "utf-8").decode("unicode_escape").encode("latin-1").decode("utf-8")
    except Exception:
        return s


class Var(Expr):
    def __init__(self, local, name, ty, is_arg=False):
        self.local = local
        self.name = name
        self.ty = ty
        self.is_arg = is_arg

    def __str__(self):
        return self.name


class Upvar(Expr):
    def __init__(self, name, idx, ty=None, body=None):
        self.name = name
        self.idx = idx
        self.ty = ty
        self.body = body

    def captured(self):
        """The expression captured for this upvar where the closure is created (in the parent
        body), or None."""
        b = self.body
        if b is None:
            return None
        ops = b.capture_exprs()
        if ops is not None and self.idx < len(ops):
            return ops[self.idx]
        return None

    def __str__(self):
        return "^" + self.name


class Named(Expr):
    def __init__(self, name, local, x, ty=None):
        self.name = name
        self.local = local
        self.x = x
        self.ty = ty

    def children(self):
        return [self.x]

    def __str__(self):
        return "%s{=%s}" % (self.name, self.x)


class Deref(Expr):
    def __init__(self, x):
        self.x = x

    def children(self):
        return [self.x]

    def __str__(self):
        return "*%s" % self.x


class Ref(Expr):
    def __init__(self, x, mut):
        self.x = x
        self.mut = mut

    def children(self):
        return [self.x]

    def __str__(self):
        return "&%s%s" % ("mut " if self.mut is True else "", self.x)


class Field(Expr):
    def __init__(self, x, name, idx, adt=None, ty=None):
        self.x = x
        self.name = name
        self.idx = idx
        self.adt = adt
        self.ty = ty

    def children(self):
        return [self.x]

    def __str__(self):
        return "%s.%s" % (self.x, self.name)


class Index(Expr):
    def __init__(self, x, i):
        self.x = x
        self.i = i

    def children(self):
        return [self.x, self.i]

    def __str__(self):
        return "%s[%s]" % (self.x, self.i)


class Downcast(Expr):
    def __init__(self, x, variant):
        self.x = x
        self.variant = variant

    def children(self):
        return [self.x]

    def __str__(self):
        return "(%s as %s)" % (self.x, self.variant)


class Cast(Expr):
    def __init__(self, x, from_ty, to_ty, ck):
        self.x = x
        self.from_ty = from_ty
        self.to_ty = to_ty
        self.ck = ck

    def children(self):
        return [self.x]

    def __str__(self):
        return "(%s as %s)" % (self.x, self.to_ty)


class Bin(Expr):
    def __init__(self, op, l, r, lty=None):
        self.op = op
        self.l = l
        self.r = r
        self.lty = lty

    def children(self):
        return [self.l, self.r]

    def __str__(self):
        return "(%s %s %s)" % (self.l, self.op, self.r)


class Un(Expr):
    def __init__(self, op, x):
        self.op = op
        self.x = x

    def children(self):
        return [self.x]

    def __str__(self):
        return "%s(%s)" % (self.op, self.x)


class Discr(Expr):
    def __init__(self, x):
        self.x = x

    def children(self):
        return [self.x]

    def __str__(self):
        return "discr(%s)" % self.x


class Agg(Expr):
    def __init__(self, rv, ops):
        self.rv = rv
        self.ak = rv["ak"]
        self.adt = rv.get("adt")
        self.variant = rv.get("variant")
        self.fields = rv.get("fields")
        self.closure = rv.get("closure")
        self.ops = ops

    def children(self):
        return self.ops

    def field(self, name):
        if self.fields and name in self.fields:
            return self.ops[self.fields.index(name)]
        return None

    def __str__(self):
        if self.ak == "adt":
            n = self.adt.split("::")[-1]
            if self.variant and self.variant != n:
                n += "::" + self.variant
            return "%s{%s}" % (n, ", ".join("%s: %s" % (f, o) for f, o in zip(self.fields or [], self.ops)))
        if self.ak == "closure":
            return "closure<%s>(%s)" % (self.closure, ", ".join(map(str, self.ops)))
        return "%s(%s)" % (self.ak, ", ".join(map(str, self.ops)))


class Call(Expr):
    def __init__(self, t, args):
        self.t = t
        self.args = args
        self.callee = t.get("callee")
        self.resolved = t.get("resolved") or t.get("callee")
        self.name = t.get("callee_name")

    def children(self):
        return self.args

    def __str__(self):
        return "%s(%s)" % (short_callee(self.t), ", ".join(map(str, self.args)))


class Unknown(Expr):
    def __init__(self, what):
        self.what = what

    def __str__(self):
        return "?%s?" % self.what


def short_callee(t):
    c = t.get("callee")
    if not c:
        return "<indirect %s>" % t.get("indirect", "?")
    return c


def callee_is(t, *names):
    """Match a call terminator against def paths (either the declared callee or the resolved
    instance). Names are full def paths as printed without visible/trimmed paths."""
    c = t.get("callee")
    r = t.get("resolved")
    return c in names or r in names


# ---- dominators (Cooper-Harvey-Kennedy) ------------------------------------
def _dominators(n, succ, pred, entry):
    order = []
    seen = set()
    stack = [(entry, 0)]
    seen.add(entry)
    while stack:
        node, i = stack[-1]
        if i < len(succ[node]):
            stack[-1] = (node, i + 1)
            s = succ[node][i]
            if s not in seen:
                seen.add(s)
                stack.append((s, 0))
        else:
            order.append(node)
            stack.pop()
    rpo = list(reversed(order))
    idx = {b: i for i, b in enumerate(rpo)}
    idom = {entry: entry}
    changed = True
    while changed:
        changed = False
        for b in rpo[1:]:
            new = None
            for p in pred[b]:
                if p in idom:
                    if new is None:
                        new = p
                    else:
                        f1, f2 = p, new
                        while f1 != f2:
                            while idx[f1] > idx[f2]:
                                f1 = idom[f1]
                            while idx[f2] > idx[f1]:
                                f2 = idom[f2]
                        new = f1
            if new is not None and idom.get(b) != new:
                idom[b] = new
                changed = True
    return idom


# ---- pretty printer -------------------------------------------------------------
def pp_place(body, pl):
    name = body.var_names.get(pl["l"])
    s = "_%d" % pl["l"] + ("<%s>" % name if name else "")
    for pr in pl["p"]:
        k = pr["k"]
        if k == "deref":
            s = "(*%s)" % s
        elif k == "field":
            s = "%s.%s" % (s, pr.get("n", pr["i"]))
        elif k == "index":
            s = "%s[_%d]" % (s, pr["l"])
        elif k == "cindex":
            s = "%s[%s%d]" % (s, "-" if pr["from_end"] else "", pr["offset"])
        elif k == "downcast":
            s = "(%s as %s)" % (s, pr.get("n", pr["vi"]))
        else:
            s = "%s.?%s" % (s, k)
    return s


def pp_op(body, op):
    k = op["k"]
    if k == "const":
        c = op["c"]
        if c.get("fn"):
            return c["fn"]
        return c["s"]
    if k in ("copy", "move"):
        return ("move " if k == "move" else "") + pp_place(body, op["place"])
    return "?"


def pp_rv(body, rv):
    k = rv["k"]
    if k == "use":
        return pp_op(body, rv["op"])
    if k == "ref":
        return "&%s%s" % ("mut " if rv["mut"] else "", pp_place(body, rv["place"]))
    if k == "rawptr":
        return "&raw %s" % pp_place(body, rv["place"])
    if k == "cast":
        return "%s as %s (%s)" % (pp_op(body, rv["op"]), rv["to"], rv["ck"])
    if k == "bin":
        return "%s(%s, %s)" % (rv["op"], pp_op(body, rv["l"]), pp_op(body, rv["r"]))
    if k == "un":
        return "%s(%s)" % (rv["op"], pp_op(body, rv["x"]))
    if k == "discr":
        return "discriminant(%s)" % pp_place(body, rv["place"])
    if k == "agg":
        if rv["ak"] == "adt":
            return "%s::%s{%s}" % (rv["adt"], rv["variant"], ", ".join("%s: %s" % (f, pp_op(body, o)) for f, o in zip(rv["fields"], rv["ops"])))
        if rv["ak"] == "closure":
            return "closure %s [%s]" % (rv["closure"], ", ".join(pp_op(body, o) for o in rv["ops"]))
        return "%s[%s]" % (rv["ak"], ", ".join(pp_op(body, o) for o in rv["ops"]))
    return "?%s" % rv.get("dbg", k)


def pp_term(body, t):
    k = t["k"]
    if k == "goto":
        return "goto bb%d" % t["t"]
    if k == "switch":
        return "switch %s [%s, otherwise: bb%d]" % (pp_op(body, t["discr"]), ", ".join("%d: bb%d" % (a[0], a[1]) for a in t["arms"]), t["otherwise"])
    if k == "call":
        c = t.get("callee") or ("<indirect> " + pp_op(body, t["func"]))
        r = t.get("resolved")
        rr = (" [-> %s]" % r) if r and r != t.get("callee") else ""
        return "%s = %s(%s)%s -> %s" % (pp_place(body, t["dest"]), c, ", ".join(pp_op(body, a) for a in t["args"]), rr, ("bb%d" % t["t"]) if "t" in t else "!")
    if k == "assert":
        m = t["msg"]
        return "assert(%s%s, %s %s) -> bb%d" % ("" if t["expected"] else "!", pp_op(body, t["cond"]), m["k"], m.get("op", ""), t["t"])
    if k == "drop":
        return "drop(%s) -> bb%d" % (pp_place(body, t["place"]), t["t"])
    return k + (" " + t["dbg"] if "dbg" in t else "")


def pp_body(body, cleanup=False):
    out = []
    out.append("fn %s  [%s] sig=%s" % (body.path, span_str(body.span), body.sig))
    for l in body.locals:
        n = body.var_names.get(l["i"])
        out.append("    let%s _%d%s: %s" % (" mut" if l["mut"] else "", l["i"], "<%s>" % n if n else "", l["ty"]))
    for b in body.blocks:
        if b["cleanup"] and not cleanup:
            continue
        out.append("  bb%d%s:" % (b["i"], " (cleanup)" if b["cleanup"] else ""))
        for s in b["stmts"]:
            if s["k"] == "assign":
                out.append("      %s = %s    // %s" % (pp_place(body, s["place"]), pp_rv(body, s["rv"]), s["span"]["l0"]))
            elif s["k"] in ("live", "dead"):
                continue
            else:
                out.append("      %s %s" % (s["k"], s.get("dbg", "")))
        out.append("      %s    // %s" % (pp_term(body, b["term"]), b["term"]["span"]["l0"]))
    return "\n".join(out)


if __name__ == "__main__":
    import sys

    f = Facts(sys.argv[1])
    pat = sys.argv[2]
    for b in f.bodies:
        if re.search(pat, b.path) and b.promoted is None:
            print(pp_body(b, cleanup="--cleanup" in sys.argv))
            print()
