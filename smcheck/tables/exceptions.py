"""Reviewed table of panic-capable sites that no generic proof rule discharges.

One entry = one site class in one function: `fn` (def path), `what` (site kind), `desc`
(canonical operand descriptor; `*` matches any sub-expression; no line numbers, no local
names), `count` (how many sites in that function may match: a new site of the same shape
exceeds the count and is reported), `reason` (why the site cannot panic) and optionally
`requires` (rule ids whose obligations must all hold on the current tree, otherwise the entry
is void and the site is reported).
"""

ENUM = "try(Iterator::next(var:Enumerate<*>)).0"

EXCEPTIONS = [
    # ---- builder ---------------------------------------------------------------------------
    dict(fn="builder::SourceMapBuilder::set_source_contents", what="panic", desc="panicking::begin_panic('Cannot set sources for tombstone source id')", count=1,
         reason="assert!(src_id != !0): every caller inside the crate passes the src_id of a token it just added under a guard that the token has a source (call-site rules C08.R3 / C09.R3); direct API misuse is outside C05's entry list",
         requires=["C08.R3", "C09.R3"]),
    dict(fn="builder::SourceMapBuilder::set_source_contents", what="index", desc="arg1.source_contents[cast<usize>(arg2)]", count=1,
         reason="source_contents was just resized to sources.len() and crate-internal callers pass an id returned by add_source (< sources.len())",
         requires=["C08.R3", "C09.R3", "C13.R5"]),
    # ---- decoder: header stripper ------------------------------------------------------------
    dict(fn="decoder::StripHeaderReader::<R>::strip_head_read", what="Overflow:Sub:usize", desc="try(Read::read(*)),%s" % ENUM, count=1,
         reason="offset is the enumerate() index over local_buf[0..read], so offset < read", requires=["C12.R4"]),
    dict(fn="decoder::StripHeaderReader::<R>::strip_head_read", what="index", desc="*[Range*{*end:*Read::read(*", count=5,
         reason="Read::read contract: read <= local_buf.len(), and local_buf has exactly buf.len() elements (vec![0; buf.len()]); offset < read", requires=["C12.R4"]),
    dict(fn="decoder::StripHeaderReader::<R>::strip_head_read", what="copy_from_slice", desc="slice::copy_from_slice(arg2[RangeTo{end:*}],*)", count=2,
         reason="both slices have the same length by construction (..read / ..read and ..read-offset / offset..read)", requires=["C12.R4"]),
    dict(fn="decoder::strip_junk_header", what="index", desc="arg1[RangeFrom{start:%s}]" % ENUM, count=1,
         reason="idx is the enumerate() index of an iteration over the same slice, so idx < slice.len()"),
    # ---- decoder: range-mapping bitfield -----------------------------------------------------
    dict(fn="decoder::decode_rmi", what="index", desc="arg2[Range{start:Mul(6,%s),end:Mul(6,Add(1,%s))}]" % (ENUM, ENUM), count=1,
         reason="val was resized to 6 * rmi_str.len() bits and idx < rmi_str.len()"),
    dict(fn="decoder::decode_rmi", what="bitstore", desc="BitField::store_le(arg2[Range{start:Mul(6,*),end:Mul(6,Add(1,*))}],var:u8)", count=1,
         reason="store_le::<u8> on a 6-bit slice: bitvec accepts 1..=8 bits for u8"),
    # ---- decoder: mappings --------------------------------------------------------------------
    dict(fn="decoder::decode_regular", what="Overflow:Add:i64", desc="from<i64>(var:u32),var:Vec<i64>[*]", count=5,
         reason="the VLQ parser only produces values of magnitude < 2^63 after `cur >>= 1` (|v| <= 2^62), a widened u32 is < 2^32: the i64 sum cannot overflow",
         requires=["C11.R2r"]),
    dict(fn="decoder::decode_regular", what="index", desc="var:Vec<i64>[*]", count=3,
         reason="nums[0]: parse_vlq_segment_into returns Ok only for a non-empty vector (C06.R3 ok:non-empty); nums[2], nums[3]: no path reads nums[k] with k >= len (value-partition reachability C06.R1)",
         requires=["C06.R1", "C06.R3"]),
    # ---- detector -------------------------------------------------------------------------------
    dict(fn="detector::locate_sourcemap_reference", what="index", desc="String::as_bytes(*)[RangeFrom{start:21}]", count=1,
         reason="dominated by starts_with of one of two 21-byte ASCII prefixes (C18.R1 checks the constants, their length and the dominance)", requires=["C18.R1"]),
    dict(fn="detector::locate_sourcemap_reference", what="index", desc="try(try(Iterator::next(var:Lines<BufReader<R>>)))[RangeFrom{start:21}]", count=1, optional=True,
         reason="the same cut taken on the str: dominated by starts_with of one of two 21-byte ASCII prefixes, so 21 <= len and 21 is a char boundary (C18.R1 checks the constants, their length and the dominance)", requires=["C18.R1"]),
    # ---- encoder ----------------------------------------------------------------------------------
    dict(fn="encoder::encode_rmi", what="index", desc="BitView::view_bits(arg2)[RangeTo{end:Add(1,var:usize)}]", count=1,
         reason="last is an enumerate() index over the bits of data, and encode_rmi is only called with the non-empty buffer a range bit was just written to (C07.R2), so last + 1 <= bits.len()", requires=["C07.R2"]),
    dict(fn="encoder::encode_rmi", what="bitload", desc="BitField::load(*)", count=1,
         reason="the one load of encode_rmi reads a chunk of chunks(6) (C07.R6: one chunks(6), one load::<u8>, fed to encode_byte): non-empty, at most 6 bits; load::<u8> accepts 1..=8 bits",
         requires=["C07.R6"]),
    dict(fn="encoder::encode_rmi::encode_byte", what="panic", desc="panicking::begin_panic('invalid byte')", count=1,
         reason="the argument is a load of at most 6 bits (< 64); the match covers 0..=63 (C07.R6 checks the table over all 256 values)", requires=["C07.R6"]),
    dict(fn="encoder::serialize_range_mappings", what="Overflow:Add:u32", desc="var:u32,1", count=1,
         reason="prev_line is advanced only while it differs from the token's line; tokens are ordered by line (C04.R1/R2), so prev_line < token line <= u32::MAX", requires=["C04.R1", "C04.R2"]),
    dict(fn="encoder::serialize_range_mappings", what="bitset", desc="BitSlice::set(BitView::view_bits_mut(var:Vec<u8>),var:usize,1)", count=1,
         reason="the byte buffer is grown to num / 8 + 1 bytes right before the bit num is set (C07.R2)", requires=["C07.R2"]),
    dict(fn="encoder::serialize_range_mappings", what="unwrap", desc="Result::expect(String::from_utf8(var:Vec<u8>),'invalid utf8')", count=1,
         reason="buf only ever receives b';' and bytes returned by encode_byte (ASCII base64 digits)", requires=["C07.R6"]),
    dict(fn="encoder::serialize_mappings", what="Overflow:Add:u32", desc="var:u32,1", count=1,
         reason="prev_dst_line is advanced only while it differs from the token's line; tokens are ordered (C04.R1/R2)", requires=["C04.R1", "C04.R2"]),
    # ---- hermes -------------------------------------------------------------------------------------
    dict(fn="hermes::decode_hermes::{closure#0}", what="Overflow:Add:i64", desc="from<i64>(var:u32),*Iterator::next(var:Copied<Iter<i64>>)*", count=3,
         reason="VLQ values have magnitude <= 2^62 (reader shape, C11.R2r); a widened u32 is < 2^32", requires=["C11.R2r"]),
    # ---- js identifiers ---------------------------------------------------------------------------------
    dict(fn="hermes::decode_hermes::{closure#0}", what="Overflow:Add:i64", desc="from<i64>(var:u32),*^var:Vec<i64>*", count=3,
         reason="VLQ values have magnitude <= 2^62 (reader shape, C11.R2r); a widened u32 is < 2^32", requires=["C11.R2r"]),
    # ---- js identifiers ---------------------------------------------------------------------------------
    dict(fn="js_identifiers::strip_identifier", what="index", desc="arg1[RangeTo{end:var:usize}]", count=1,
         reason="end_idx is always `start offset of a char + its len_utf8()` taken from char_indices of the same string: a char boundary <= len (C17.R3 checks every definition of the bound)", requires=["C17.R3b"]),
    # ---- source view ---------------------------------------------------------------------------------------
    dict(fn="<sourceview::RevTokenIter<'view, 'map> as core::iter::traits::iterator::Iterator>::next", what="Overflow:Sub:usize",
         desc="var:(&str, usize, usize).1,cast<usize>(*.raw.dst_col)", count=1,
         reason="the cached column belongs to a token later in the sorted token list on the same line (the cache is reused only under dst_line equality), so it is >= this token's column (C04.R1-R3, C17.R2)",
         requires=["C04.R1", "C04.R2", "C17.R2"]),
    dict(fn="<sourceview::RevTokenIter<'view, 'map> as core::iter::traits::iterator::Iterator>::next", what="Overflow:Sub:usize",
         desc="var:usize,char::len_utf8(try(Iterator::next(var:Rev<Chars>)))", count=1,
         reason="new_offset starts at last_byte_offset and the chars walked are exactly those of line[..last_byte_offset]; their lengths sum to at most last_byte_offset", requires=["C17.R2"]),
    dict(fn="<sourceview::Lines<'a> as core::iter::traits::iterator::Iterator>::next", what="Overflow:Add:u32", desc="arg1.idx,1", count=1,
         reason="idx is incremented only after get_line(idx) returned a line; a text has fewer than 2^32 lines (assumption: inputs below 4 GiB)"),
    dict(fn="sourceview::SourceView::get_line", what="Bounds", desc="PtrMetadata(*)[var:usize]", count=1,
         reason="idx is the result of position() over the same slice `rest`, read before idx is modified", requires=["C15.R1"]),
    dict(fn="sourceview::SourceView::get_line", what="unwrap", desc="Result::unwrap(Mutex::lock(arg1.lines))", count=1,
         reason="the mutex is poisoned only by a panic while the guard is live; C16.R3 shows no panic-capable site inside a live range", requires=["C16.R3"]),
    dict(fn="sourceview::SourceView::line_count", what="unwrap", desc="Result::unwrap(Mutex::lock(arg1.lines))", count=1,
         reason="see get_line: no panic under the lock (C16.R3)", requires=["C16.R3"]),
    dict(fn="sourceview::SourceView::get_line", what="index", desc="str::as_bytes(arg1.source)[RangeFrom{start:Atomic::load(arg1.processed_until,Ordering::Relaxed{})}]", count=1,
         reason="inside the single critical section the finished test (processed_until > len -> return) dominates the loop (C16.R2/R3b); in the loop processed_until grows by idx+1 <= rest.len() unless the final piece sets done and leaves the loop",
         requires=["C16.R2", "C16.R3b"]),
    dict(fn="sourceview::SourceView::get_line", what="index", desc="str::as_bytes(arg1.source)[RangeFrom{*}][RangeTo{end:var:usize}]", count=1,
         reason="idx is the position() result over rest (< rest.len())", requires=["C15.R1"]),
    # ---- token iterators --------------------------------------------------------------------------------------
    dict(fn="types::TokenIter::<'_>::seek", what="Overflow:Add:usize", desc="try(SourceMap::lookup_token(arg1.i,arg2,arg3)).idx,1", count=1,
         reason="Token.idx is an index or insertion index into tokens (<= tokens.len() <= 2^56)"),
    dict(fn="<types::TokenIter<'a> as core::iter::traits::iterator::Iterator>::next::{closure#0}", what="Overflow:Add:usize", desc="^arg1.next_idx,1", count=1,
         reason="incremented only after get_token(next_idx) returned Some, so next_idx < tokens.len()"),
    dict(fn="<types::SourceIter<'a> as core::iter::traits::iterator::Iterator>::next::{closure#0}", what="Overflow:Add:u32", desc="^arg1.next_idx,1", count=1,
         reason="incremented only after get_source(next_idx) returned Some; fewer than 2^32 - 1 sources (assumption: inputs below 4 GiB)"),
    dict(fn="<types::SourceContentsIter<'a> as core::iter::traits::iterator::Iterator>::next", what="Overflow:Add:u32", desc="arg1.next_idx,1", count=1,
         reason="dominated by next_idx < get_source_count() (a u32)"),
    dict(fn="<types::NameIter<'a> as core::iter::traits::iterator::Iterator>::next::{closure#0}", what="Overflow:Add:u32", desc="^arg1.next_idx,1", count=1,
         reason="incremented only after get_name(next_idx) returned Some; fewer than 2^32 - 1 names"),
    dict(fn="<types::SourceMapSectionIter<'a> as core::iter::traits::iterator::Iterator>::next::{closure#0}", what="Overflow:Add:u32", desc="^arg1.next_idx,1", count=1,
         reason="incremented only after get_section(next_idx) returned Some; fewer than 2^32 - 1 sections"),
    # ---- lookups --------------------------------------------------------------------------------------------------
    dict(fn="types::SourceMap::lookup_token", what="Overflow:Sub:u32", desc="arg3,try(utils::greatest_lower_bound(arg1.tokens,tuple(arg2,arg3),*)).1.dst_col", count=1,
         reason="greatest_lower_bound returns a token with (dst_line, dst_col) <= (line, col) lexicographically (C04.R3/R4); under the dominating guard dst_line == line (C07.R4) this gives dst_col <= col",
         requires=["C04.R1", "C04.R2", "C04.R3", "C04.R4", "C07.R4"]),
    dict(fn="types::SourceMapIndex::lookup_token", what="Overflow:Sub:u32", desc="arg2,*.offset.0", count=1,
         reason="the section comes from greatest_lower_bound keyed by get_offset with query (line, col): offset <= (line, col) lexicographically, so off_line <= line (C04.R4, C08.R1); sections of a decoded index are sorted by offset and offsets are immutable (C08.R5)", requires=["C04.R4", "C08.R1", "C08.R5"]),
    dict(fn="types::SourceMapIndex::lookup_token", what="Overflow:Sub:u32", desc="arg3,*.offset.1", count=1,
         reason="evaluated only on the line == off_line branch (C08.R1), where the lexicographic bound gives off_col <= col (sections sorted: C08.R5)", requires=["C04.R4", "C08.R1", "C08.R5"]),
    # ---- utils ------------------------------------------------------------------------------------------------------
    dict(fn="utils::split_path", what="index", desc="arg1[Range{start:var:usize,end:try(Iterator::next(var:MatchIndices<*>)).0}]", count=1,
         reason="last_idx is 0 or an earlier match index, idx is a later match index of the same string: both are char boundaries with last_idx <= idx <= len"),
    dict(fn="utils::split_path", what="index", desc="arg1[RangeFrom{start:var:usize}]", count=1,
         reason="last_idx is 0 or a match index (< len, char boundary)"),
    dict(fn="utils::find_common_prefix_of_sorted_vec", what="index", desc="arg1[0][RangeToInclusive{end:*}]", count=1,
         reason="max_idx is an enumerate() index over `shortest` = items[0] (the slice being indexed)"),
    dict(fn="utils::greatest_lower_bound", what="Bounds", desc="PtrMetadata(arg1)[try(Iterator::next(var:Rev<Range<usize>>))]", count=1,
         reason="i ranges over 0..idx where idx is the Ok index of binary_search (< len)", requires=["C04.R4"]),
    # ---- vlq -----------------------------------------------------------------------------------------------------------
    dict(fn="vlq::parse_vlq_segment_into", what="Overflow:Add:i64", desc="var:i64,try(i64::checked_shl(BitAnd(31,*),var:u32))", count=1,
         reason="cur < 2^shift is an invariant of the accumulation; with shift <= 60 the addend (val << shift mod 2^64) is either negative (bit 63 set) or < 7 * 2^60, so cur + addend stays within i64",
         requires=["C11.R2r"]),
    dict(fn="vlq::parse_vlq_segment_into", what="OverflowNeg:i64", desc="var:i64", count=1,
         reason="negation follows `cur >>= 1` (arithmetic shift): |cur| < 2^62, never i64::MIN", requires=["C11.R2r"]),
    dict(fn="vlq::encode_vlq", what="OverflowNeg:i64", desc="arg2", count=1,
         reason="precondition |num| < 2^62: the only crate-internal caller on C05's paths is encode_vlq_diff, which passes the difference of two widened u32 (C03.R4 who-may-call)", requires=["C03.R4"]),
    dict(fn="vlq::encode_vlq", what="Overflow:Add:i64", desc="Shl(Neg(arg2),1),1", count=1,
         reason="same precondition: (-num << 1) + 1 < 2^63 for |num| < 2^62", requires=["C03.R4"]),
    # ---- ram bundles (C20 only) -----------------------------------------------------------------------------------------------
    dict(fn="ram_bundle::IndexedRamBundle::<'a>::get_module", what="Overflow:Mul:usize", desc="arg2,size_of<ModuleEntry>", count=1,
         reason="dominated by id < self.module_count, and module_count is a widened u32 (set only by parse, C20.R3): id * 8 < 2^35", requires=["C20.R3"]),
    dict(fn="ram_bundle::IndexedRamBundle::<'a>::get_module", what="Overflow:Add:usize", desc="size_of<RamBundleHeader>,Mul(arg2,size_of<ModuleEntry>)", count=1,
         reason="12 + id * 8 with id < 2^32", requires=["C20.R3"]),
    dict(fn="ram_bundle::IndexedRamBundle::<'a>::get_module", what="Overflow:Add:usize", desc="arg1.startup_code_offset,cast<usize>(*.offset)", count=1,
         reason="startup_code_offset = 12 + 8 * module_count <= 2^35 + 12 (parse, C20.R3) plus a widened u32: far below 2^64", requires=["C20.R3"]),
    # ---- C19 only --------------------------------------------------------------------------------------------------------
    dict(fn="utils::make_relative_path", what="Overflow:Sub:usize", desc="Vec::len(var:Vec<&str>),Option::map_or(utils::find_common_prefix_of_sorted_vec(*),0,fn:slice::len)", count=1,
         reason="prefix is the length of a common prefix of the two component lists, hence <= base_path.len() (helper returns a prefix of the shortest list)", requires=["C19.R2"]),
    dict(fn="utils::make_relative_path", what="index", desc="Iterator::collect(*)[RangeFrom{start:Option::map_or(utils::find_common_prefix_of_sorted_vec(*),0,fn:slice::len)}]", count=1,
         reason="prefix <= target_path.len() for the same reason", requires=["C19.R2"]),
]
