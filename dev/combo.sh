#!/bin/bash
# usage: combo.sh <neutral diff> <file rel to src> <old> <new>
S=/tmp/comborepo
rm -rf $S/src; mkdir -p $S; rsync -a --exclude target --exclude .git /repo/ $S/
patch -p1 -s -f -d $S -i $1 >/dev/null || { echo "diff does not apply"; exit 1; }
python3 - "$S/src/$2" "$3" "$4" <<'PY'
import sys
p,old,new=sys.argv[1:4]
s=open(p).read()
assert s.count(old)==1, ("occurrences", s.count(old))
open(p,'w').write(s.replace(old,new))
PY
[ $? -eq 0 ] || exit 1
(cd $S && cargo build --offline 2>&1 | grep -E "^error" | head -3)
SMCHECK_REPO=$S SMCHECK_CACHE=$S/.smcache python3 /verif/dev/checkall.py | tail -1
