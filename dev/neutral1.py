import re
def sub(path, old, new, count=1):
    p='/repo/'+path; s=open(p).read(); assert old in s, (path, old[:40]); open(p,'w').write(s.replace(old,new,count) if count else s.replace(old,new))
# N1 rename locals in decode_regular
s=open('/repo/src/decoder.rs').read()
s=re.sub(r'\bnums\b','fields',s); s=re.sub(r'\bsrc_id\b(?!:)','source_index',s); s=s.replace('src_id: src,','src_id: src,')
open('/repo/src/decoder.rs','w').write(s)
# N3 reorder independent statements
sub('src/decoder.rs','    let names = rsm.names.unwrap_or_default();\n    let sources = rsm.sources.unwrap_or_default();','    let sources = rsm.sources.unwrap_or_default();\n    let names = rsm.names.unwrap_or_default();')
# N8 equivalent arity test
sub('src/decoder.rs','if fields.len() != 4 && fields.len() != 5 {','if !(fields.len() == 4 || fields.len() == 5) {')
# N4 nested ifs in lookup
sub('src/types.rs','        if token.is_range() && token.get_dst_line() == line {\n            token.offset = col - token.get_dst_col();\n        }','        if token.is_range() {\n            if line == token.get_dst_line() {\n                token.offset = col - token.get_dst_col();\n            }\n        }')
# N5 rename guard
s=open('/repo/src/sourceview.rs').read()
a=s.index('pub fn get_line(&self'); b=s.index('/// Returns a line slice.')
seg=s[a:b].replace('let mut lines = self.lines.lock()','let mut cache = self.lines.lock()').replace('lines.len()','cache.len()').replace('lines[idx]','cache[idx]').replace('lines.push','cache.push').replace('lines.get(idx)','cache.get(idx)')
open('/repo/src/sourceview.rs','w').write(s[:a]+seg+s[b:])
# N6 comments / blank lines at top of files (line shifts)
for f in ('src/vlq.rs','src/encoder.rs','src/types.rs','src/builder.rs','src/utils.rs','src/hermes.rs'):
    p='/repo/'+f; s=open(p).read(); open(p,'w').write('// neutral edit: shifts every line\n\n'+s)
# N7 same-MIR spelling
sub('src/vlq.rs','            cur >>= 1;','            cur = cur >> 1;')
# N2 extract temporaries in the encoder
sub('src/encoder.rs','        encode_vlq_diff(&mut rv, token.get_dst_col(), prev_dst_col);\n        prev_dst_col = token.get_dst_col();','        let col = token.get_dst_col();\n        encode_vlq_diff(&mut rv, col, prev_dst_col);\n        prev_dst_col = col;')
# N9 rename in builder
sub('src/builder.rs','        let count = self.names.len() as u32;\n        let id = *self.name_map.entry(name.into()).or_insert(count);\n        if id == count {','        let next_id = self.names.len() as u32;\n        let id = *self.name_map.entry(name.into()).or_insert(next_id);\n        if next_id == id {')
