#!/usr/bin/env python3
"""Development aid: like evalneutral.sh, but several scratch copies in parallel.
usage: evalneutral_par.py <abs diff>...   prints one line per diff that raises an alarm (or does not apply)"""
import json, os, queue, subprocess, sys, threading
N = int(os.environ.get("NPAR", "8"))
qu = queue.Queue()
for d in sys.argv[1:]:
    qu.put(d)
lock = threading.Lock()
# one snapshot of the committed tree, so that something applied to /repo's working tree meanwhile (evalmut, replayall)
# cannot leak into the copies
SNAP = "/tmp/neutpar_snap"
subprocess.run("rm -rf %s; mkdir -p %s; git -C /repo archive HEAD | tar -x -C %s; cp /repo/Cargo.lock %s/" % (SNAP, SNAP, SNAP, SNAP), shell=True, check=True)
def worker(k):
    S = "/tmp/neutpar%d" % k
    while True:
        try:
            d = qu.get_nowait()
        except queue.Empty:
            return
        subprocess.run("rm -rf %s/src; mkdir -p %s; rsync -a --delete --exclude target --exclude .smcache %s/ %s/" % (S, S, SNAP, S), shell=True)
        r = subprocess.run(["patch", "-p1", "-s", "-f", "-d", S, "-i", d], capture_output=True, text=True)
        if r.returncode != 0:
            with lock:
                print("%s: does not apply" % d, flush=True)
            continue
        env = dict(os.environ, SMCHECK_REPO=S, SMCHECK_CACHE=S + "/.smcache")
        o = subprocess.run(["python3", "/verif/dev/checkall.py"], env=env, capture_output=True, text=True).stdout.strip().split("\n")[-1]
        if o != "{}":
            with lock:
                print("%s: %s" % (d, o), flush=True)
ts = [threading.Thread(target=worker, args=(k,)) for k in range(N)]
[t.start() for t in ts]
[t.join() for t in ts]
