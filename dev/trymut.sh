#!/bin/bash
# usage: trymut.sh <file> <old> <new> : apply a textual one-line mutation on a scratch copy and run all rule sets
S=/tmp/neutrepo
rm -rf $S/src; mkdir -p $S; rsync -a --exclude target --exclude .git /repo/ $S/
python3 - "$S/src/$1" "$2" "$3" <<'PY'
import sys
p,old,new=sys.argv[1:4]
s=open(p).read()
assert s.count(old)>=1,(old)
open(p,'w').write(s.replace(old,new,1))
PY
SMCHECK_REPO=$S SMCHECK_CACHE=$S/.smcache python3 /verif/dev/checkall.py | tail -1
