#!/usr/bin/env python3
"""Development aid: replay every seeded variant against all 20 rule sets (parallel scratch copies)
and report seeds whose recorded detecting properties no longer fire.
usage: replayall.py [pattern]"""
import glob
import json
import os
import subprocess
import sys
import threading
import queue

VERIF = os.path.dirname(os.path.dirname(os.path.abspath(__file__)))
N = 6
pat = sys.argv[1] if len(sys.argv) > 1 else "*"
seeds = sorted(glob.glob(os.path.join(VERIF, "seeded", pat, "meta.json")))
qu = queue.Queue()
for s in seeds:
    qu.put(s)
lock = threading.Lock()
bad = []


def worker(k):
    S = "/tmp/replay%d" % k
    while True:
        try:
            mp = qu.get_nowait()
        except queue.Empty:
            return
        meta = json.load(open(mp))
        sd = os.path.dirname(mp)
        subprocess.run("rm -rf %s/src; mkdir -p %s; rsync -a --exclude target --exclude .git --exclude .smcache /repo/ %s/" % (S, S, S), shell=True)
        r = subprocess.run(["patch", "-p1", "-s", "-f", "-d", S, "-i", os.path.join(sd, "patch.diff")], capture_output=True, text=True)
        if r.returncode != 0:
            with lock:
                print(os.path.basename(sd), "PATCH DOES NOT APPLY")
                bad.append(os.path.basename(sd))
            continue
        env = dict(os.environ, SMCHECK_REPO=S, SMCHECK_CACHE=S + "/.smcache")
        out = subprocess.run(["python3", os.path.join(VERIF, "dev", "checkall.py")], env=env, capture_output=True, text=True).stdout.strip().split("\n")[-1]
        try:
            fired = json.loads(out)
        except Exception:  # noqa: BLE001
            fired = {"error": out[-200:]}
        want = set(meta.get("detected_by") or [meta.get("property")])
        missing = sorted(p for p in want if p not in fired)
        with lock:
            if missing:
                bad.append(os.path.basename(sd))
                print(os.path.basename(sd), "SILENT for", missing, "fired:", {k: v for k, v in fired.items()})
            else:
                print(os.path.basename(sd), "ok", sorted(fired))


ts = [threading.Thread(target=worker, args=(k,)) for k in range(N)]
for t in ts:
    t.start()
for t in ts:
    t.join()
print("seeds:", len(seeds), "regressions:", len(bad), bad)
