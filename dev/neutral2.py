import re
def rn(path, start, end, pairs):
    p='/repo/'+path; s=open(p).read(); a=s.index(start); b=s.index(end,a)
    seg=s[a:b]
    for old,new in pairs: seg=re.sub(r'\b%s\b'%old,new,seg)
    open(p,'w').write(s[:a]+seg+s[b:])
def sub(path, old, new):
    p='/repo/'+path; s=open(p).read(); assert old in s,(path,old[:50]); open(p,'w').write(s.replace(old,new,1))
rn('src/utils.rs','pub fn make_relative_path','pub fn greatest_lower_bound',[('target_path','tgt'),('base_path','dir'),('prefix','common'),('rel_list','parts'),('items','lists')])
rn('src/types.rs','pub fn adjust_mappings','impl SourceMapIndex {',[('original_range','cur_orig'),('adjustment_range','adj'),('original_ranges_iter','orig_it'),('original_ranges','origs'),('adjustment_ranges','adjs'),('line_diff','dl'),('col_diff','dc')])
rn('src/sourceview.rs','impl<\'view, \'map> Iterator for RevTokenIter','pub struct Lines',[('off','byte_pos'),('new_offset','back_pos'),('chars_to_move','units'),('byte_offset','start_byte')])
rn('src/sourceview.rs','pub fn get_original_function_name','/// Returns the number of lines.',[('original_identifier','text'),('item','prev'),('iter','walker')])
rn('src/detector.rs','pub fn locate_sourcemap_reference<','pub fn locate_sourcemap_reference_slice',[('url','target')])
rn('src/hermes.rs','pub fn get_scope_for_token','pub fn rewrite',[('function_map','fmap'),('mapping','hit')])
rn('src/hermes.rs','pub fn rewrite','pub fn decode_hermes',[('mapping','remap'),('sources','srcs')])
rn('src/types.rs','pub fn flatten(&self)','pub fn flatten_and_rewrite',[('map','inner'),('off_line','ol'),('off_col','oc'),('raw','added')])
# swap independent statements
sub('src/sourceview.rs','                off += c.len_utf8();\n                idx += c.len_utf16();\n            }\n\n            let mut off_end','                idx += c.len_utf16();\n                off += c.len_utf8();\n            }\n\n            let mut off_end')
sub('src/builder.rs','        if id == count {\n            self.sources.push(src.into());','        if count == id {\n            self.sources.push(src.into());')
sub('src/vlq.rs','let val = enc & 0b11111;','let val = enc & 31;')
