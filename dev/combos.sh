#!/bin/bash
# Development aid: a violation written in one of the *alternative spellings* the rules accept (a behaviour-preserving
# rewrite from dev/neutral_agents11 plus one breaking edit on top). Every line must report at least one rule.
N=/verif/dev/neutral_agents11
C=/verif/dev/combo.sh
echo -n "offset-first lookup_token + extra guard: "; $C $N/H1.diff types.rs 'raw.is_range && raw.dst_line == line' 'raw.is_range && raw.src_id != !0 && raw.dst_line == line'
echo -n "let-else scope lookup + early None: "; $C $N/D1.diff hermes.rs '        let Some(Some(function_map))' '        if token.get_src_line() == 0 { return None; }
        let Some(Some(function_map))'
echo -n "let-else TokenIter::next + advance by two: "; $C $N/H3.diff types.rs '        self.next_idx += 1;
        Some(token)' '        self.next_idx += 2;
        Some(token)'
echo -n "strip_prefix form + dropped break: "; $C $N/A3.diff builder.rs '                    *source = stripped.into();
                    break;' '                    *source = stripped.into();'
echo -n "ok_or_else unresolved-section form + skipped section: "; $C $N/G1.diff types.rs '            let embedded = section.get_sourcemap().ok_or_else(|| {' '            if section.get_sourcemap().is_none() && section.get_url().is_none() { continue; }
            let embedded = section.get_sourcemap().ok_or_else(|| {'
echo -n "tail-map decode_hermes + extra rejection: "; $C $N/E2.diff hermes.rs '        return Err(Error::IncompatibleSourceMap);
    };' '        return Err(Error::IncompatibleSourceMap);
    };
    if x_facebook_sources.len() != rsm.sources.as_ref().map_or(0, Vec::len) {
        return Err(Error::IncompatibleSourceMap);
    }'
echo -n "tail-map decode_hermes + raw payload dropped: "; $C $N/E2.diff hermes.rs 'raw_facebook_sources: Some(x_facebook_sources),' 'raw_facebook_sources: None,'
echo -n "let-else checked_shl + wrong error: "; $C $N/J2.diff vlq.rs '            fail!(Error::VlqOverflow);' '            fail!(Error::VlqLeftover);'
echo -n "pattern LF test + wrong byte: "; $C $N/B2.diff sourceview.rs "if let Some(&b'\\n') = rest.get(idx + 1)" "if let Some(&b'\\r') = rest.get(idx + 1)"
echo -n "helper-fn function map decoder + break: "; $C $N/E1.diff hermes.rs '            if mapping.is_empty() {
                continue;
            }' '            if mapping.is_empty() {
                break;
            }'
echo -n "&mut-helper serialize_mappings + wrong previous-value variable: "; $C $N/J3.diff encoder.rs 'encode_vlq_delta(&mut rv, token.get_src_line(), &mut prev_src_line);' 'encode_vlq_delta(&mut rv, token.get_src_line(), &mut prev_src_col);'
echo -n "&mut-helper serialize_mappings + conditional update of the previous value: "; $C $N/J3.diff encoder.rs '    *prev = value;
' '    if value != 0 { *prev = value; }
'
