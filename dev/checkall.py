#!/usr/bin/env python3
"""Development aid: run all 20 rule sets (quick tier) in one process against SMCHECK_REPO and print
one JSON line {prop: [rules that fired]}. Writes no evidence."""
import json
import os
import sys

HERE = os.path.dirname(os.path.abspath(__file__))
sys.path.insert(0, os.path.join(os.path.dirname(HERE), "smcheck"))
import extract  # noqa: E402
import main as smmain  # noqa: E402
from mir import Facts  # noqa: E402

try:
    fpath, th, _ = extract.facts_path("ram", repo=extract.REPO, cache=extract.CACHE)
except extract.ExtractError as e:
    print(json.dumps({"error": str(e)[:300]}))
    sys.exit(0)
facts = Facts(fpath)
out = {}
for i in range(1, 21):
    prop = "C%02d" % i
    try:
        ctx = smmain.run_rules(prop, facts, "quick")
        fired = sorted(set(o["rule"] for o in ctx.obligations if o["status"] != "held"))
        if os.environ.get("VERBOSE"):
            for o in ctx.obligations:
                if o["status"] != "held":
                    sys.stderr.write("%s %s [%s] %s\n      %s\n" % (o["rule"], o["function"], o["construct"], o["what"][:160], str(o.get("detail"))[:600]))
    except Exception as e:  # noqa: BLE001
        fired = ["EXC:" + str(e)[:100]]
    if fired:
        out[prop] = fired
if extract.REPO != "/repo":
    try:
        os.unlink(fpath)
    except OSError:
        pass
print(json.dumps(out))
