#!/bin/bash
# usage: evalneutral.sh <diff>...   apply each diff to a scratch copy of /repo and run all 20 rule sets; any output = false alarm
S=/tmp/neutrepo
for d in "$@"; do
  rm -rf $S/src; mkdir -p $S; rsync -a --exclude target --exclude .git /repo/ $S/
  if ! patch -p1 -s -f -d $S -i $d >/dev/null; then echo "$d: does not apply"; continue; fi
  out=$(SMCHECK_REPO=$S SMCHECK_CACHE=$S/.smcache python3 /verif/dev/checkall.py)
  echo "$d: $out"
done
