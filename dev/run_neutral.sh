#!/bin/bash
# Apply each behaviour-preserving bundle to /repo, run all 20 checks (must stay silent), revert.
cd /verif
for n in dev/neutral*.py; do
  git -C /repo checkout -- . ; python3 $n || { echo "bundle $n does not apply"; git -C /repo checkout -- .; continue; }
  (cd /repo && cargo build --offline -q 2>&1 | grep -E '^error' | head -3)
  for i in 01 02 03 04 05 06 07 08 09 10 11 12 13 14 15 16 17 18 19 20; do
    out=$(./check C$i); rc=$?
    [ $rc -ne 0 ] && { echo "FALSE ALARM $n C$i"; echo "$out" | grep -A2 "rule " | head -12; }
  done
  echo "bundle $n done"
  git -C /repo checkout -- .
done
