def sub(path, old, new):
    p='/repo/'+path; s=open(p).read(); assert old in s,(path,old[:60]); open(p,'w').write(s.replace(old,new,1))
# flipped equality operands in both serializers
sub('src/encoder.rs','            if Some(&token) == sm.get_token(idx - 1).as_ref() {\n                continue;\n            }\n            rv.push','            if sm.get_token(idx - 1).as_ref() == Some(&token) {\n                continue;\n            }\n            rv.push')
# hoisted length in the decoder
sub('src/decoder.rs','            if nums.len() > 1 {\n                if nums.len() != 4 && nums.len() != 5 {\n                    fail!(Error::BadSegmentSize(nums.len() as u32));','            let n = nums.len();\n            if n > 1 {\n                if n != 4 && n != 5 {\n                    fail!(Error::BadSegmentSize(n as u32));')
sub('src/decoder.rs','                if nums.len() > 4 {','                if n > 4 {')
# hoisted old id in flatten
sub('src/types.rs','                if token.get_source().is_some() && !builder.has_source_contents(raw.src_id) {\n                    builder.set_source_contents(\n                        raw.src_id,\n                        map.get_source_contents(token.get_src_id()),\n                    );\n                }\n                if map.ignore_list.contains(&token.get_src_id()) {','                let old_id = token.get_src_id();\n                if token.get_source().is_some() && !builder.has_source_contents(raw.src_id) {\n                    builder.set_source_contents(raw.src_id, map.get_source_contents(old_id));\n                }\n                if map.ignore_list.contains(&old_id) {')
# reordered independent call in rewrite
sub('src/types.rs','        let mut builder = SourceMapBuilder::new(self.get_file());\n        builder.set_debug_id(self.debug_id);\n\n        for token in self.tokens() {','        let mut builder = SourceMapBuilder::new(self.get_file());\n\n        for token in self.tokens() {')
sub('src/types.rs','        let mut prefixes = vec![];\n        let mut need_common_prefix = false;','        builder.set_debug_id(self.debug_id);\n        let mut prefixes = vec![];\n        let mut need_common_prefix = false;')
# flipped comparison orientation
sub('src/sourceview.rs','        if idx < lines.len() {\n            return Some(lines[idx]);','        if lines.len() > idx {\n            return Some(lines[idx]);')
sub('src/hermes.rs','                if line_mapping.is_empty() {\n                    continue;\n                }\n\n                let mut column = 0;','                let mut column = 0;\n                if line_mapping.is_empty() {\n                    continue;\n                }\n')
sub('src/utils.rs','            if seq.get(idx) != Some(&comp) {','            if Some(&comp) != seq.get(idx) {')
