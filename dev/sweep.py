#!/usr/bin/env python3
"""Development aid (not a registered check): systematic single-edit mutation sweep.

For every generated source mutant: build + run the repository's own test suite in a private copy;
for each mutant the suite does not kill, extract facts from that copy and run all 20 rule sets.
Output: /tmp/sweep/results.jsonl  (one line per mutant: status, fired rules per property).
Survivors that no check reports are candidates for review (a missed property break, or an edit
that no property talks about); survivors that a check reports are reviewed for equivalence.

usage: sweep.py gen            -> /tmp/sweep/mutants.json
       sweep.py run [N workers] [--only file.rs]
       sweep.py report
"""
import json
import os
import re
import shutil
import subprocess
import sys
import time
from concurrent.futures import ThreadPoolExecutor

ROOT = "/tmp/sweep"
REPO = "/repo"
FILES = ["builder.rs", "decoder.rs", "detector.rs", "encoder.rs", "hermes.rs", "js_identifiers.rs", "jsontypes.rs",
         "ram_bundle.rs", "sourceview.rs", "types.rs", "utils.rs", "vlq.rs"]

OPS = [
    # (name, regex, replacement)
    ("lt->le", r" < ", " <= "), ("le->lt", r" <= ", " < "), ("gt->ge", r" > ", " >= "), ("ge->gt", r" >= ", " > "),
    ("eq->ne", r" == ", " != "), ("ne->eq", r" != ", " == "),
    ("and->or", r" && ", " || "), ("or->and", r" \|\| ", " && "),
    ("plus1->0", r" \+ 1\b", ""), ("minus1->0", r" - 1\b", ""),
    ("plus->minus", r" \+ (?!=)", " - "), ("minus->plus", r" - (?!=)", " + "),
    ("pluseq->minuseq", r" \+= ", " -= "), ("minuseq->pluseq", r" -= ", " += "),
    ("shl->shr", r" << ", " >> "), ("shr->shl", r" >> ", " << "), ("shreq", r" >>= ", " <<= "),
    ("bitand->bitor", r" & (?!mut)", " | "), ("bitor->bitand", r"(?<=[\w\)]) \| (?=[\w\(])", " & "),
    ("not-removed", r"(?<![\w\)])!(?=[a-z_\(])(?!\()", ""),
    ("continue->break", r"\bcontinue;", "break;"), ("break->continue", r"\bbreak;", "continue;"),
    ("true->false", r"\btrue\b", "false"), ("false->true", r"\bfalse\b", "true"),
    ("is_some->is_none", r"\.is_some\(\)", ".is_none()"), ("is_none->is_some", r"\.is_none\(\)", ".is_some()"),
    ("is_empty-neg", r"(?<!!)\b([a-z_\.]+)\.is_empty\(\)", r"!\1.is_empty()"),
    ("min->max", r"\.min\(", ".max("), ("max->min", r"\.max\(", ".min("),
    ("checked->wrapping", r"\.checked_(add|sub|mul)\(([^()]*)\)\?", r".wrapping_\1(\2)"),
    ("saturating->wrapping", r"\.saturating_(add|sub)\(", r".wrapping_\1("),
    ("unwrap_or0->1", r"unwrap_or\(0\)", "unwrap_or(1)"),
    ("!0->0", r"!0\b", "0"),
    ("lit+1", r"(?<![\w\.'\"])(\d+)(?![\w\.'\"])", None),  # handled specially
    ("first->last", r"\.first\(\)", ".last()"), ("last->first", r"\.last\(\)", ".first()"),
    ("u32->u16", r" as u32\b", " as u16 as u32"),
    ("some->none", r"\bSome\(([a-z_]+)\) =>", None),  # skip (pattern)
]

STMT_DELETE = re.compile(r"^\s*(?!let\b|return\b|use\b|pub\b|fn\b|impl\b|//|#\[|\}|\{)([a-zA-Z_\*][\w\.\*\[\]\(\)&:<>, !'\"+\-/=]*);\s*$")


def code_region(lines):
    """Index of the first line of the trailing #[cfg(test)] module (or len)."""
    for i, l in enumerate(lines):
        if l.strip() == "#[cfg(test)]" and i + 1 < len(lines) and lines[i + 1].lstrip().startswith("mod "):
            return i
    return len(lines)


def in_test_fn(lines):
    """Line indices that belong to #[test] functions outside a tests module (e.g. vlq.rs, utils.rs)."""
    out = set()
    i = 0
    while i < len(lines):
        if lines[i].strip() in ("#[test]",):
            j = i + 1
            depth = 0
            started = False
            while j < len(lines):
                depth += lines[j].count("{") - lines[j].count("}")
                if "{" in lines[j]:
                    started = True
                out.add(j)
                if started and depth <= 0:
                    break
                j += 1
            out.add(i)
            i = j
        i += 1
    return out


def gen():
    muts = []
    for f in FILES:
        path = os.path.join(REPO, "src", f)
        lines = open(path).read().split("\n")
        end = code_region(lines)
        skip = in_test_fn(lines)
        for i in range(end):
            if i in skip:
                continue
            l = lines[i]
            s = l.strip()
            if not s or s.startswith("//") or s.startswith("#[") or s.startswith("use ") or s.startswith("#!"):
                continue
            code = l.split(" //")[0]
            for name, rx, rep in OPS:
                if name == "some->none":
                    continue
                for m in re.finditer(rx, code):
                    if name == "lit+1":
                        v = int(m.group(1))
                        if v > 300:
                            continue
                        if re.match(r"^\s*-?\d+,$", code) and i % 9 != 0:
                            continue  # constant tables: a sample is enough
                        new = code[:m.start(1)] + str(v + 1) + code[m.end(1):]
                    else:
                        new = code[:m.start()] + m.expand(rep) + code[m.end():]
                    if new != code:
                        muts.append({"file": f, "line": i + 1, "op": name, "old": l, "new": new + l[len(code):]})
            if STMT_DELETE.match(code) and not s.startswith("fail!"):
                muts.append({"file": f, "line": i + 1, "op": "delete-stmt", "old": l, "new": ""})
    os.makedirs(ROOT, exist_ok=True)
    for k, m in enumerate(muts):
        m["id"] = k
    json.dump(muts, open(os.path.join(ROOT, "mutants.json"), "w"), indent=0)
    by = {}
    for m in muts:
        by[m["file"]] = by.get(m["file"], 0) + 1
    print(len(muts), "mutants", by)


def sh(cmd, cwd=None, timeout=None, env=None):
    try:
        r = subprocess.run(cmd, cwd=cwd, shell=isinstance(cmd, str), stdout=subprocess.PIPE, stderr=subprocess.STDOUT, text=True, timeout=timeout, env=env)
        return r.returncode, r.stdout
    except subprocess.TimeoutExpired as e:
        return 124, (e.stdout or b"").decode("utf-8", "replace") if isinstance(e.stdout, bytes) else (e.stdout or "")


def setup_worker(k):
    d = os.path.join(ROOT, "w%d" % k)
    if not os.path.exists(os.path.join(d, "Cargo.toml")):
        os.makedirs(d, exist_ok=True)
        sh(["rsync", "-a", "--exclude", "target", "--exclude", ".git", REPO + "/", d + "/"])
    else:
        sh(["rsync", "-a", "--exclude", "target", "--exclude", ".git", "--exclude", ".smcache", REPO + "/src/", d + "/src/"])
    env = dict(os.environ, CARGO_NET_OFFLINE="true", CARGO_TARGET_DIR=os.path.join(d, "target"))
    rc, out = sh("cargo test --offline --no-run -q -j 4", cwd=d, env=env, timeout=900)
    return d


CHECKALL = os.path.join(os.path.dirname(os.path.abspath(__file__)), "checkall.py")


def run_one(k, m):
    d = os.path.join(ROOT, "w%d" % k)
    path = os.path.join(d, "src", m["file"])
    orig = open(os.path.join(REPO, "src", m["file"])).read()
    lines = orig.split("\n")
    assert lines[m["line"] - 1] == m["old"], (m, lines[m["line"] - 1])
    lines[m["line"] - 1] = m["new"]
    open(path, "w").write("\n".join(lines))
    env = dict(os.environ, CARGO_NET_OFFLINE="true", CARGO_TARGET_DIR=os.path.join(d, "target"))
    res = dict(m)
    t0 = time.time()
    try:
        rc, out = sh("cargo test --offline --no-run -q -j 2 2>&1 | tail -5", cwd=d, env=env, timeout=600)
        rc2, out2 = sh("cargo build --offline -q -j 2 --features ram_bundle --lib 2>&1 | grep -E '^error' | head -3", cwd=d, env=env, timeout=600)
        if "error" in out or "error" in out2:
            res["status"] = "build-fail"
            return res
        rc, out = sh("timeout 150 cargo test --offline -q -j 2 -- --test-threads 2 2>&1 | grep -E 'test result|FAILED|panicked|timed out' | head -20", cwd=d, env=env, timeout=200)
        if rc == 124 or "test result" not in out:
            res["status"] = "timeout"
            return res
        if "FAILED" in out or "failed" in out and re.search(r"[1-9]\d* failed", out):
            res["status"] = "killed"
            return res
        res["status"] = "survived"
        env2 = dict(os.environ, SMCHECK_REPO=d, SMCHECK_CACHE=os.path.join(d, ".smcache"))
        rc, out = sh(["python3", CHECKALL], env=env2, timeout=600)
        try:
            res["fired"] = json.loads(out.strip().split("\n")[-1])
        except Exception:  # noqa: BLE001
            res["fired"] = {"error": out[-400:]}
        return res
    finally:
        res["secs"] = round(time.time() - t0, 1)
        open(path, "w").write(orig)


def run(nworkers, only=None):
    muts = json.load(open(os.path.join(ROOT, "mutants.json")))
    done = set()
    rp = os.path.join(ROOT, "results.jsonl")
    if os.path.exists(rp):
        for l in open(rp):
            try:
                done.add(json.loads(l)["id"])
            except Exception:  # noqa: BLE001
                pass
    todo = [m for m in muts if m["id"] not in done and (only is None or m["file"] in only)]
    print("todo", len(todo), "done", len(done))
    with ThreadPoolExecutor(nworkers) as ex:
        list(ex.map(setup_worker, range(nworkers)))
    print("workers ready")
    import queue
    import threading
    qu = queue.Queue()
    for m in todo:
        qu.put(m)
    lock = threading.Lock()
    out = open(rp, "a")

    def worker(k):
        while True:
            try:
                m = qu.get_nowait()
            except queue.Empty:
                return
            try:
                r = run_one(k, m)
            except Exception as e:  # noqa: BLE001
                r = dict(m, status="error", err=str(e)[:300])
            with lock:
                out.write(json.dumps(r) + "\n")
                out.flush()

    ts = [threading.Thread(target=worker, args=(k,)) for k in range(nworkers)]
    for t in ts:
        t.start()
    for t in ts:
        t.join()


def recheck(nworkers):
    """Re-run the rule sets on the mutants that survived the tests (after rule changes)."""
    import queue
    import threading
    rs = [json.loads(l) for l in open(os.path.join(ROOT, "results.jsonl"))]
    surv = [r for r in rs if r["status"] == "survived"]
    qu = queue.Queue()
    for r in surv:
        qu.put(r)
    out = open(os.path.join(ROOT, "recheck.jsonl"), "w")
    lock = threading.Lock()

    def worker(k):
        d = os.path.join(ROOT, "w%d" % k)
        sh(["rsync", "-a", "--exclude", "target", "--exclude", ".git", "--exclude", ".smcache", REPO + "/src/", d + "/src/"])
        while True:
            try:
                m = qu.get_nowait()
            except queue.Empty:
                return
            path = os.path.join(d, "src", m["file"])
            orig = open(os.path.join(REPO, "src", m["file"])).read()
            lines = orig.split("\n")
            lines[m["line"] - 1] = m["new"]
            open(path, "w").write("\n".join(lines))
            env2 = dict(os.environ, SMCHECK_REPO=d, SMCHECK_CACHE=os.path.join(d, ".smcache"))
            rc, o = sh(["python3", CHECKALL], env=env2, timeout=600)
            try:
                fired = json.loads(o.strip().split("\n")[-1])
            except Exception:  # noqa: BLE001
                fired = {"error": o[-300:]}
            open(path, "w").write(orig)
            with lock:
                out.write(json.dumps(dict(m, fired_before=m.get("fired"), fired=fired)) + "\n")
                out.flush()

    ts = [threading.Thread(target=worker, args=(k,)) for k in range(nworkers)]
    for t in ts:
        t.start()
    for t in ts:
        t.join()
    rs2 = [json.loads(l) for l in open(os.path.join(ROOT, "recheck.jsonl"))]
    lost = [r for r in rs2 if any(v for v in (r.get("fired_before") or {}).values()) and not any(v for v in r["fired"].values())]
    gained = [r for r in rs2 if not any(v for v in (r.get("fired_before") or {}).values()) and any(v for v in r["fired"].values())]
    print("survivors", len(rs2), "detected now", len([r for r in rs2 if any(v for v in r["fired"].values())]), "lost", len(lost), "gained", len(gained))
    for r in lost:
        print("LOST %s:%d [%s] %s => %s | before %s" % (r["file"], r["line"], r["op"], r["old"].strip()[:70], r["new"].strip()[:70], sorted(r["fired_before"])))
    for r in gained:
        print("GAINED %s:%d [%s] %s => %s | %s" % (r["file"], r["line"], r["op"], r["old"].strip()[:70], r["new"].strip()[:70], sorted(r["fired"])))


def report():
    rs = [json.loads(l) for l in open(os.path.join(ROOT, "results.jsonl"))]
    by = {}
    for r in rs:
        by[r["status"]] = by.get(r["status"], 0) + 1
    print(by)
    surv = [r for r in rs if r["status"] == "survived"]
    silent = [r for r in surv if not any(v for v in r.get("fired", {}).values())]
    print("survived", len(surv), "silent", len(silent))
    for r in sorted(silent, key=lambda r: (r["file"], r["line"])):
        print("%s:%d [%s] %s  =>  %s" % (r["file"], r["line"], r["op"], r["old"].strip()[:90], r["new"].strip()[:90]))


if __name__ == "__main__":
    cmd = sys.argv[1]
    if cmd == "gen":
        gen()
    elif cmd == "run":
        n = int(sys.argv[2]) if len(sys.argv) > 2 and sys.argv[2].isdigit() else 8
        only = sys.argv[sys.argv.index("--only") + 1].split(",") if "--only" in sys.argv else None
        run(n, only)
    elif cmd == "report":
        report()
    elif cmd == "recheck":
        recheck(int(sys.argv[2]) if len(sys.argv) > 2 else 10)
