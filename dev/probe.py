#!/usr/bin/env python3
"""Development aid: print the definition shapes of a local (default _0) of a function.
usage: probe.py <fn path> [local]"""
import os, sys
HERE = os.path.dirname(os.path.abspath(__file__))
sys.path.insert(0, os.path.join(os.path.dirname(HERE), "smcheck"))
import extract, q
from mir import Facts
fpath, th, _ = extract.facts_path("ram", repo=extract.REPO, cache=extract.CACHE)
facts = Facts(fpath)
b = facts.body(sys.argv[1]) if hasattr(facts, "body") else None
l = int(sys.argv[2]) if len(sys.argv) > 2 else 0
for sh, site, e in q.def_shapes(b, l):
    print(site, sh[:400])
