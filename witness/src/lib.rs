//! E3: type-level witnesses (compile_fail / compile-pass doctests) for the ownership clauses
//! of C04 and C16. Each `compile_fail,E0xxx` witness has a compiling twin that differs only in
//! the offending line, so a witness cannot pass merely because its setup is wrong.
//! Run with `cargo +nightly test --doc --offline` (error codes are only honoured on nightly).

/// C04: the token vector of a `SourceMap` cannot be reached from outside the crate.
///
/// Twin (must compile): the same setup, reading tokens through the public API.
/// ```
/// let sm = sourcemap::SourceMap::new(None, vec![], vec![], vec![], None);
/// let n = sm.get_token_count();
/// assert_eq!(n, 0);
/// ```
///
/// Witness: touching the field is a privacy error.
/// ```compile_fail,E0616
/// let sm = sourcemap::SourceMap::new(None, vec![], vec![], vec![], None);
/// let n = sm.tokens.len();
/// assert_eq!(n, 0);
/// ```
///
/// Witness: pushing an out-of-order token from outside is impossible.
/// ```compile_fail,E0616
/// let mut sm = sourcemap::SourceMap::new(None, vec![], vec![], vec![], None);
/// sm.tokens.push(sourcemap::RawToken { dst_line: 0, dst_col: 0, src_line: 0, src_col: 0, src_id: !0, name_id: !0, is_range: false });
/// ```
///
/// Twin for the struct literal (must compile): RawToken itself is a public plain-data type.
/// ```
/// let t = sourcemap::RawToken { dst_line: 0, dst_col: 0, src_line: 0, src_col: 0, src_id: !0, name_id: !0, is_range: false };
/// let sm = sourcemap::SourceMap::new(None, vec![t], vec![], vec![], None);
/// assert_eq!(sm.get_token_count(), 1);
/// ```
///
/// Witness: a token obtained from the map does not give mutable access to the stored raw token
/// (`get_raw_token` returns a copy; there is no `get_raw_token_mut`).
/// ```compile_fail,E0599
/// let t = sourcemap::RawToken { dst_line: 0, dst_col: 0, src_line: 0, src_col: 0, src_id: !0, name_id: !0, is_range: false };
/// let mut sm = sourcemap::SourceMap::new(None, vec![t], vec![], vec![], None);
/// let tok = sm.get_token(0).unwrap();
/// tok.get_raw_token_mut().dst_line = 7;
/// ```
pub struct C04Tokens;

/// C16: `SourceView` is `Send + Sync`, and its protected state is unreachable from outside.
///
/// Compile-pass witness:
/// ```
/// fn is_send<T: Send>() {}
/// fn is_sync<T: Sync>() {}
/// is_send::<sourcemap::SourceView>();
/// is_sync::<sourcemap::SourceView>();
/// let sv = sourcemap::SourceView::new("a\nb".into());
/// assert_eq!(sv.line_count(), 2);
/// ```
///
/// Witness: the line cache cannot be locked (or poisoned) from outside.
/// ```compile_fail,E0616
/// let sv = sourcemap::SourceView::new("a\nb".into());
/// let g = sv.lines.lock();
/// drop(g);
/// ```
///
/// Witness: the progress counter cannot be stored to from outside.
/// ```compile_fail,E0616
/// let sv = sourcemap::SourceView::new("a\nb".into());
/// sv.processed_until.store(0, std::sync::atomic::Ordering::Relaxed);
/// ```
pub struct C16SourceView;
